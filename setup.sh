#!/bin/bash
# Offline setup: nothing to build. Verifies that the interpreters and solvers the checks need are present.
set -e
cd "$(dirname "$0")"
python3-vt -c "import z3, sys; print('python3-vt', sys.version.split()[0], 'z3', z3.get_version_string())"
/venv/bin/python -c "import numpy, robotools, hypothesis; print('repo interpreter ok: numpy', numpy.__version__, 'robotools', robotools.__version__)"
test -x /usr/bin/cvc5 && /usr/bin/cvc5 --version | head -1
mkdir -p evidence replays
echo setup ok
