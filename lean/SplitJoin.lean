/-
  Generic decode lemma used by C09 / C17 (DESIGN 2.4):
  joining separator-free fields with a separator and splitting again returns the fields.
  `List.splitOn_intercalate` is in Lean core (no Mathlib import).

  Instantiations:
  * C09: fields of a record joined by ';'  (premise per field: the field contains no ';' — the
    `fields-readable` / `valid_text` obligations discharged by pyvc)
  * C17: records joined by '\n' (written as CR LF by the text layer) — premise: no record contains a line break.
-/
theorem split_join_fields {α : Type} [BEq α] [LawfulBEq α] (sep : α) (fields : List (List α))
    (hsep : ∀ f ∈ fields, sep ∉ f) (hne : fields ≠ []) :
    List.splitOn sep (List.intercalate [sep] fields) = fields :=
  List.splitOn_intercalate sep hsep hne

-- concrete instance: an 11-field A record over characters
example (fs : List (List Char)) (h : ∀ f ∈ fs, ';' ∉ f) (hn : fs ≠ []) :
    List.splitOn ';' (List.intercalate [';'] fs) = fs :=
  split_join_fields ';' fs h hn
