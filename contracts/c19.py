"""C19 - get_trough_wells cycles through the given wells (column-major) and returns exactly n."""
import z3

from pyvc.contract import Contract, Scenario, register
from pyvc.params import sint, sreal, sstr, slist, well_fn
from pyvc.values import Arr2V, WellV, Opaque

F = "robotools.utils.get_trough_wells"


def _wells_1d(kind):
    def make(ex):
        wells, n = slist("trough_wells", well_fn("w"), kind=kind)
        return {"n": sint("n"), "trough_wells": wells}

    return make


def _wells_2d(ex):
    R, C = z3.Int("R"), z3.Int("C")
    fr = z3.Function("w_r", z3.IntSort(), z3.IntSort(), z3.IntSort())
    fc = z3.Function("w_c", z3.IntSort(), z3.IntSort(), z3.IntSort())
    arr = Arr2V(R, C, lambda i, j: WellV(fr(_t(i), _t(j)), fc(_t(i), _t(j))))
    return {"n": sint("n"), "trough_wells": arr, "ghost_R": sint("R"), "ghost_C": sint("C")}


def _t(i):
    return z3.IntVal(i) if isinstance(i, int) else (i.t if hasattr(i, "t") else i)


def _bad_n(kind):
    def make(ex):
        wells, n = slist("trough_wells", well_fn("w"))
        val = {"float": sreal("n"), "none": None, "str": sstr("n"), "npint": sint("n", np=True), "nan": float("nan")}[kind]
        return {"n": val, "trough_wells": wells}

    return make


def install(world):
    common = dict(
        func=F, serves=["C19"],
    )
    register(world, Contract(
        func=F, serves=["C19"],
        scenarios=[
            Scenario("n:int,wells:list", _wells_1d("list"), requires=["length(trough_wells) >= 0"]),
            Scenario("n:int,wells:1-D array", _wells_1d("array"), requires=["length(trough_wells) >= 0"]),
            Scenario("n:int,wells:2-D array", _wells_2d, requires=["ghost_R >= 0", "ghost_C >= 0"]),
        ] + [Scenario(f"n:{k}", _bad_n(k), requires=["length(trough_wells) >= 0"]) for k in ("float", "none", "str", "npint", "nan")],
        raises=[
            ("TypeError", "not is_int(n)"),
            ("ValueError", "is_int(n) and (n < 0 or length(colmajor(trough_wells)) == 0)"),
        ],
        ensures=[
            ("len", "length(result) == n", ["C19"]),
            ("cycle", "forall(0, n, lambda i: result[i] == colmajor(trough_wells)[i % length(colmajor(trough_wells))])", ["C19"]),
        ],
        # the native evaluation calls twice and spoils the first result in between: a result that shares state with a later
        # call (memoised list) fails the same clauses
        native={"imports": ["from robotools.utils import get_trough_wells"],
                "call": "(lambda first: (first.append('spoiled'), first.reverse(), get_trough_wells(n, trough_wells))[2])(get_trough_wells(n, trough_wells))"},
    ))
