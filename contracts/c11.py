"""C11 (labware half): log, condense_log, volumes, history."""
import z3

from pyvc.contract import Contract, Scenario, register
from pyvc.models import sym_labware
from pyvc.params import sint, sstr

L = "robotools.liquidhandling.labware.Labware."
H = "length(old_self._history)"


def install(world):
    def lw(trough, **extra):
        def make(ex):
            env = {"self": sym_labware(ex, "L", trough)}
            for k, v in extra.items():
                env[k] = v() if callable(v) else v
            return env
        return make

    register(world, Contract(
        func=L + "log", serves=["C11"],
        scenarios=[Scenario("plate, label:str", lw(False, label=lambda: sstr("label"))), Scenario("trough, label:None", lw(True, label=None))],
        raises=[],
        ensures=[
            ("appended", "same(self._history, old_self._history + [self._volumes]) and same(self._labels, old_self._labels + [label])", ["C11"]),
            ("snapshot", "not_aliased(last(self._history), self._volumes)", ["C11"]),
            ("frame", "fields_unchanged(self, old_self, ['_history', '_labels'])", ["C11"]),
        ],
    ))
    cl_ens = [
        ("length", f"length(self._history) == {H} - n + 1 and length(self._labels) == {H} - n + 1", ["C11"]),
        ("prefix-kept", f"forall(0, {H} - n, lambda i: same(self._history[i], old_self._history[i]) and self._labels[i] == old_self._labels[i])", ["C11"]),
        ("newest-is-last-state", f"same(last(self._history), old_self._history[{H} - 1])", ["C11"]),
        ("newest-is-a-snapshot", "not_aliased(last(self._history), self._volumes)", ["C11"]),
        ("frame", "fields_unchanged(self, old_self, ['_history', '_labels'])", ["C11"]),
    ]
    register(world, Contract(
        func=L + "condense_log", serves=["C11"],
        requires=["0 <= n", f"n <= {H} - 1"],  # transfer/distribute condense only entries they added themselves
        scenarios=[Scenario("plate, label:str (not 'first'/'last')", lw(False, n=lambda: sint("n"), label=lambda: sstr("label")),
                            requires=["label != 'first'", "label != 'last'"]),
                   Scenario("trough, label:None", lw(True, n=lambda: sint("n"), label=None))],
        raises=[],
        ensures=cl_ens + [("label", "last(self._labels) == label", ["C11"])],
    ))
    register(world, Contract(
        func=L + "condense_log", serves=["C11"], key=L + "condense_log#keyword-labels",
        requires=["1 <= n", f"n <= {H} - 1"],
        scenarios=[Scenario("plate, label='last'", lw(False, n=lambda: sint("n"), label="last")),
                   Scenario("plate, label='first'", lw(False, n=lambda: sint("n"), label="first"))],
        raises=[],
        ensures=cl_ens + [("label", f"last(self._labels) == (old_self._labels[{H} - 1] if (label == 'last' or old_self._labels[{H} - n] == 'last') else old_self._labels[{H} - n])", ["C11"])],
    ))
    register(world, Contract(
        func=L + "volumes", serves=["C11"],
        scenarios=[Scenario("plate", lw(False)), Scenario("trough", lw(True))],
        raises=[],
        ensures=[("equal-content", "same(result, self._volumes)", ["C11"]), ("fresh-array", "not_aliased(result, self._volumes)", ["C11"]),
                 ("frame", "fields_unchanged(self, old_self, [])", ["C11"])],
    ))
    register(world, Contract(
        func=L + "history", serves=["C11"],
        scenarios=[Scenario("plate", lw(False))],
        raises=[],
        ensures=[("pairs", "length(result) == length(self._history) and forall(0, length(result), lambda i: result[i][0] == self._labels[i] and same(result[i][1], self._history[i]))", ["C11"])],
    ))
