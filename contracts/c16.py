"""C16 - a worklist of the generic base type refuses device-specific operations (the relational part is in pyvc/static.py)."""
from pyvc.contract import Contract, Scenario, register
from pyvc.models import sym_labware, sym_worklist
from pyvc.params import sreal, sstr
from pyvc.values import MapV, WellV
import z3

B = "robotools.worklists.base.BaseWorklist."


def install(world):
    def gp(ex):
        r, c = z3.Int("w_r"), z3.Int("w_c")
        ex.p.assume(z3.And(r >= 0, r < 26, c >= 1))
        return {"self": sym_worklist(ex, "BaseWorklist"), "labware": sym_labware(ex, "L", False), "well": WellV(r, c)}

    register(world, Contract(
        func=B + "_get_well_position", serves=["C16"],
        scenarios=[Scenario("any labware, any well", gp)],
        raises=[("TypeError", "True")],
        ensures=[("never-returns", "False", ["C16"])],
        exc_ensures=[("nothing-appended", "same(records(self), records(old_self))", ["C16"])],
    ))

    def tr(ex):
        return {"self": sym_worklist(ex, "BaseWorklist"), "source": sym_labware(ex, "S", False), "source_wells": WellV(0, 1),
                "destination": sym_labware(ex, "D", False), "destination_wells": WellV(0, 1), "volumes": sreal("v"),
                "kwargs": MapV(items=[])}

    register(world, Contract(
        func=B + "transfer", serves=["C16"],
        scenarios=[Scenario("any arguments", tr)],
        raises=[("CompatibilityError", "True")],
        ensures=[("never-returns", "False", ["C16"])],
        exc_ensures=[("nothing-appended", "same(records(self), records(old_self))", ["C16"]),
                     ("labware-untouched", "fields_unchanged(source, old_source, []) and fields_unchanged(destination, old_destination, [])", ["C16"])],
    ))
