"""C01 / C03 (operation level): BaseWorklist.aspirate / dispense for concrete numbers of wells (symbolic contents)."""
import z3

from pyvc.contract import Contract, Scenario, register
from pyvc.models import sym_labware, sym_worklist
from pyvc.params import sreal, sstr
from pyvc.values import MapV, SeqV, Sym, WellV
from contracts.c10 import sym_tip

B = "robotools.worklists.base.BaseWorklist."
LW = "robotools.liquidhandling.labware.Labware."
AW, DW = B + "aspirate_well", B + "dispense_well"


def some_well(ex, name):
    r, c = z3.Int(name + "_r"), z3.Int(name + "_c")
    ex.p.assume(z3.And(r >= 0, r < 26, c >= 1))
    return WellV(r, c)


def op_scen(device, trough, nwells, vol_kind, label_kind, kw_kind):
    def make(ex):
        wl = sym_worklist(ex, device)
        lw = sym_labware(ex, "L", trough)
        if nwells == 1:
            wells = some_well(ex, "w0")
        else:
            wells = SeqV.of("list", [some_well(ex, f"w{i}") for i in range(nwells)])
        if vol_kind == "scalar":
            volumes = sreal("v0")
        else:
            volumes = SeqV.of("list", [sreal(f"v{i}") for i in range(nwells)])
        label = None if label_kind == "none" else sstr("label")
        env = {"self": wl, "labware": lw, "wells": wells, "volumes": volumes, "label": label}
        if kw_kind == "liquid_class+tip":
            t, c = sym_tip("tip")
            ex.p.assume(c)
            env["kwargs"] = MapV(items=[("liquid_class", sstr("liquid_class")), ("tip", t)])
        else:
            env["kwargs"] = MapV(items=[])
        return env

    name = f"{device}, {'trough' if trough else 'plate'}, {nwells} well(s), volumes:{vol_kind}, label:{label_kind}, kwargs:{kw_kind}"
    reqs = ["printable(label)"] if label_kind != "none" else []
    if kw_kind != "none":
        reqs.append("printable(kw(kwargs, 'liquid_class', ''))")
    reqs.append("printable(labware.name)")
    return Scenario(name, make, requires=reqs)


SCEN = [op_scen(d, t, n, vk, lk, kk)
        for d in ("EvoWorklist", "FluentWorklist") for t in (False, True)
        for (n, vk, lk, kk) in ((1, "scalar", "none", "none"), (1, "scalar", "str", "liquid_class+tip"), (2, "list", "none", "none"),
                                (2, "scalar", "str", "none"), (3, "list", "none", "liquid_class+tip"))]

N = "length(colmajor(wells))"


def expected_records(kind):
    # one record per pair with a positive volume, in the order given
    return ("concat_if(" + N + ", lambda i: bcast(volumes, i, wells) > 0, lambda i: "
            f"ad_record('{kind}', self, labware, colmajor(wells)[i], bcast(volumes, i, wells), kwargs))")


def op_contract(name, kind, lw_method, exc):
    exp = expected_records(kind)
    return Contract(
        func=B + name, serves=["C01", "C03", "C04"],
        scenarios=SCEN,
        raises=[("AssertionError", None), ("KeyError", None), (exc, None), ("ValueError", None), ("InvalidOperationError", None)],
        ensures=[
            ("records", f"same(records(self), records(old_self) + comment_records(label) + {exp})", ["C01"]),
            ("tracked", f"same(labware._volumes, {'vol_minus' if kind == 'A' else 'vol_plus'}(old_labware._volumes, contrib(labware, wells, volumes)))", ["C01", "C04"]),
            ("frame-worklist", "fields_unchanged(self, old_self, ['__records__'])", ["C01", "C03"]),
            ("frame-labware", "fields_unchanged(labware, old_labware, ['_volumes', '_history', '_labels'])", ["C01", "C02", "C03"]),
        ],
        exc_ensures=[
            ("only-accepted-steps-recorded", f"is_prefix(records(self), records(old_self) + comment_records(label) + {exp}) and "
                                             f"(same(records(self), records(old_self)) or same(labware._volumes, {'vol_minus' if kind == 'A' else 'vol_plus'}(old_labware._volumes, contrib(labware, wells, volumes))))", ["C03"]),
            ("frame-worklist", "fields_unchanged(self, old_self, ['__records__'])", ["C03"]),
        ],
        policy={LW + lw_method: "contract", AW: "contract", DW: "contract"},
    )


def install(world):
    register(world, op_contract("aspirate", "A", "remove", "VolumeUnderflowError"))
    register(world, op_contract("dispense", "D", "add", "VolumeOverflowError"))
