"""C01 / C03 (operation level): BaseWorklist.aspirate / dispense for concrete numbers of wells (symbolic contents)."""
import z3

from pyvc.contract import Contract, Lemma, Scenario, register
from pyvc.engine import LoopSpec
from pyvc.models import sym_labware, sym_worklist
from pyvc.params import sreal, sstr
from pyvc.values import MapV, SeqV, Sym, WellV
from contracts.c10 import sym_tip

B = "robotools.worklists.base.BaseWorklist."
LW = "robotools.liquidhandling.labware.Labware."
AW, DW = B + "aspirate_well", B + "dispense_well"


def some_well(ex, name):
    r, c = z3.Int(name + "_r"), z3.Int(name + "_c")
    ex.p.assume(z3.And(r >= 0, r < 26, c >= 1))
    return WellV(r, c)


def op_scen(device, trough, nwells, vol_kind, label_kind, kw_kind):
    def make(ex):
        wl = sym_worklist(ex, device)
        lw = sym_labware(ex, "L", trough)
        if nwells == 1:
            wells = some_well(ex, "w0")
        else:
            wells = SeqV.of("list", [some_well(ex, f"w{i}") for i in range(nwells)])
        if vol_kind == "scalar":
            volumes = sreal("v0")
        else:
            volumes = SeqV.of("list", [sreal(f"v{i}") for i in range(nwells)])
        label = None if label_kind == "none" else sstr("label")
        env = {"self": wl, "labware": lw, "wells": wells, "volumes": volumes, "label": label}
        if kw_kind == "liquid_class+tip":
            t, c = sym_tip("tip")
            ex.p.assume(c)
            env["kwargs"] = MapV(items=[("liquid_class", sstr("liquid_class")), ("tip", t)])
        else:
            env["kwargs"] = MapV(items=[])
        return env

    name = f"{device}, {'trough' if trough else 'plate'}, {nwells} well(s), volumes:{vol_kind}, label:{label_kind}, kwargs:{kw_kind}"
    reqs = ["printable(label)"] if label_kind != "none" else []
    if kw_kind != "none":
        reqs.append("printable(kw(kwargs, 'liquid_class', ''))")
    reqs.append("printable(labware.name)")
    return Scenario(name, make, requires=reqs)


SCEN = [op_scen(d, t, n, vk, lk, kk)
        for d in ("EvoWorklist", "FluentWorklist") for t in (False, True)
        for (n, vk, lk, kk) in ((1, "scalar", "none", "none"), (1, "scalar", "str", "liquid_class+tip"), (2, "list", "none", "none"),
                                (2, "scalar", "str", "none"), (3, "list", "none", "liquid_class+tip"))]

N = "length(colmajor(wells))"


def expected_records(kind):
    # one record per pair with a positive volume, in the order given
    return ("concat_if(" + N + ", lambda i: bcast(volumes, i, wells) > 0, lambda i: "
            f"ad_record('{kind}', self, labware, colmajor(wells)[i], bcast(volumes, i, wells), kwargs))")


def sym_scen(device, trough, vol_kind):
    def make(ex):
        from pyvc.params import real_fn, slist, well_fn

        wl = sym_worklist(ex, device)
        lw = sym_labware(ex, "L", trough)
        ws, n = slist("wells", well_fn("w"))
        fr = z3.Function("w_r", z3.IntSort(), z3.IntSort())
        fc = z3.Function("w_c", z3.IntSort(), z3.IntSort())
        i = z3.Int("qi")
        ex.p.assume(z3.And(n >= 0, z3.ForAll([i], z3.And(fr(i) >= 0, fr(i) < 26, fc(i) >= 1))))
        if vol_kind == "scalar":
            vols = sreal("v")
        else:
            vols, m = slist("volumes", real_fn("v"))
            ex.p.assume(m == n)
        return {"self": wl, "labware": lw, "wells": ws, "volumes": vols, "label": None, "kwargs": MapV(items=[])}

    return Scenario(f"{device}, {'trough' if trough else 'plate'}, list of wells of ANY length, volumes:{vol_kind}", make, requires=["printable(labware.name)"])


def op_contract_sym(name, kind, lw_method, exc):
    """aspirate / dispense for well lists of symbolic length: loop invariant over the ghost functions of the positive pairs"""
    sign = "vol_minus" if kind == "A" else "vol_plus"
    full = f"pair_records('{kind}', self, labware, wells, volumes, kwargs, {N})"
    return Contract(
        func=B + name, serves=["C01", "C03", "C04"], key=B + name + "#any-length",
        scenarios=[sym_scen("EvoWorklist", False, "list"), sym_scen("FluentWorklist", True, "list"), sym_scen("EvoWorklist", True, "scalar")],
        raises=[("AssertionError", None), ("KeyError", None), (exc, None), ("ValueError", None), ("InvalidOperationError", None)],
        ensures=[
            ("records", f"same(records(self), records(old_self) + {full})", ["C01"]),
            ("tracked", f"same(labware._volumes, {sign}(old_labware._volumes, contrib(labware, wells, volumes)))", ["C01", "C04"]),
        ],
        exc_ensures=[
            ("only-accepted-steps-recorded", f"pos_mono_all(wells, volumes) and is_prefix(records(self), records(old_self) + {full}) and "
                                             f"(same(records(self), records(old_self)) or same(labware._volumes, {sign}(old_labware._volumes, contrib(labware, wells, volumes))))", ["C03"]),
        ],
        loops={0: LoopSpec(k="k", entry={"entry_records": "records(self)"},
                           defs={"self.__records__": f"entry_records + pair_records('{kind}', self, labware, wells, volumes, kwargs, k)"},
                           asserts=["pos_unfold(volumes, k)"])},
        policy={LW + lw_method: "contract", AW: "contract", DW: "contract"},
    )


def op_contract(name, kind, lw_method, exc):
    exp = expected_records(kind)
    return Contract(
        func=B + name, serves=["C01", "C03", "C04"],
        scenarios=SCEN,
        raises=[("AssertionError", None), ("KeyError", None), (exc, None), ("ValueError", None), ("InvalidOperationError", None)],
        ensures=[
            ("records", f"same(records(self), records(old_self) + comment_records(label) + {exp})", ["C01"]),
            ("tracked", f"same(labware._volumes, {'vol_minus' if kind == 'A' else 'vol_plus'}(old_labware._volumes, contrib(labware, wells, volumes)))", ["C01", "C04"]),
            ("frame-worklist", "fields_unchanged(self, old_self, ['__records__'])", ["C01", "C03"]),
            ("frame-labware", "fields_unchanged(labware, old_labware, ['_volumes', '_history', '_labels'])", ["C01", "C02", "C03"]),
        ],
        exc_ensures=[
            ("only-accepted-steps-recorded", f"is_prefix(records(self), records(old_self) + comment_records(label) + {exp}) and "
                                             f"(same(records(self), records(old_self)) or same(labware._volumes, {'vol_minus' if kind == 'A' else 'vol_plus'}(old_labware._volumes, contrib(labware, wells, volumes))))", ["C03"]),
            ("frame-worklist", "fields_unchanged(self, old_self, ['__records__'])", ["C03"]),
        ],
        policy={LW + lw_method: "contract", AW: "contract", DW: "contract"},
    )


def _poscount_lemma(ex):
    CNT = z3.Function("poscount", z3.IntSort(), z3.IntSort())
    V = z3.Function("posvol", z3.IntSort(), z3.RealSort())
    k, n, q = z3.Int("k"), z3.Int("n"), z3.Int("q")
    unfold = z3.ForAll([q], z3.Implies(q >= 0, CNT(q + 1) == CNT(q) + z3.If(V(q) > 0, 1, 0)))
    yield "bounds-base", z3.Implies(CNT(0) == 0, z3.And(CNT(0) >= 0, CNT(0) <= 0))
    yield "bounds-step", z3.Implies(z3.And(unfold, k >= 0, CNT(k) >= 0, CNT(k) <= k), z3.And(CNT(k + 1) >= 0, CNT(k + 1) <= k + 1))
    yield "monotone-base", z3.Implies(k >= 0, CNT(k) <= CNT(k))
    yield "monotone-step", z3.Implies(z3.And(unfold, 0 <= k, k <= n, CNT(k) <= CNT(n)), CNT(k) <= CNT(n + 1))


def install(world):
    register(world, op_contract("aspirate", "A", "remove", "VolumeUnderflowError"))
    register(world, op_contract("dispense", "D", "add", "VolumeOverflowError"))
    register(world, op_contract_sym("aspirate", "A", "remove", "VolumeUnderflowError"))
    register(world, op_contract_sym("dispense", "D", "add", "VolumeOverflowError"))
    world.lemmas.append(Lemma("C01/poscount-lemmas", ["C01", "C03"], _poscount_lemma))


# ----------------------------------------------------------------------------- distribute

RD = B + "reagent_distribution"


def dist_scen(device, ndst, dst_trough=False):
    def make(ex):
        wl = sym_worklist(ex, device)
        src = sym_labware(ex, "S", True, cls="Trough")
        dst = sym_labware(ex, "D", dst_trough)
        col = z3.Int("source_column")
        wells = [some_well(ex, f"d{i}") for i in range(ndst)]
        return {"self": wl, "source": src, "source_column": Sym(col, "int"), "destination": dst,
                "destination_wells": SeqV.of("list", wells) if ndst > 1 else wells[0], "volume": sreal("volume"),
                "liquid_class": sstr("liquid_class"), "label": sstr("label")}

    return Scenario(f"{device}, trough -> {'trough' if dst_trough else 'plate'}, {ndst} destination well(s)", make,
                    requires=["printable(label)", "printable(liquid_class)", "printable(source.name)", "printable(destination.name)",
                              "not_aliased(source, destination)", "0 <= source_column"])


NDST = "length(colmajor(destination_wells))"
SRC_WELL = "well(0, source_column + 1)"
DPOS = "device_pos(self, destination, colmajor(destination_wells)[i])"


def install_distribute(world):
    register(world, Contract(
        func=B + "distribute", serves=["C01", "C03", "C11"],
        scenarios=[dist_scen("EvoWorklist", 1), dist_scen("EvoWorklist", 2), dist_scen("EvoWorklist", 3, False),
                   dist_scen("FluentWorklist", 2), dist_scen("EvoWorklist", 2, True)],
        raises=[("ValueError", None), ("InvalidOperationError", None), ("KeyError", None), ("IndexError", None), ("AssertionError", None),
                ("VolumeUnderflowError", None), ("VolumeOverflowError", None)],
        ensures=[
            ("one-R-record", "length(records(self)) == length(records(old_self)) + length(comment_records(label)) + 1 and "
                             "is_prefix(records(old_self) + comment_records(label), records(self))", ["C01"]),
            ("source-tracked", f"same(source._volumes, vol_minus(old_source._volumes, contrib(source, {SRC_WELL}, volume * {NDST})))", ["C01"]),
            ("destination-tracked", "same(destination._volumes, vol_plus(old_destination._volumes, contrib(destination, destination_wells, volume)))", ["C01"]),
            ("R-destinations", f"r_destinations_match(last(records(self)), seq_of({NDST}, lambda i: {DPOS}))", ["C01"]),
            ("R-racks-and-volume", "r_header_matches(last(records(self)), source.name, destination.name, volume, liquid_class)", ["C01"]),
            ("R-source-range-evo", "implies_host(self_is_evo(self), r_source_range(last(records(self)), 1 + source_column * length(source.row_ids), "
                                   "(source_column + 1) * length(source.row_ids)))", ["C01"]),
            ("one-history-entry-each", "length(source._history) == length(old_source._history) + 1 and "
                                       "length(destination._history) == length(old_destination._history) + 1", ["C11"]),
        ],
        exc_ensures=[
            ("no-R-record-on-abort", "is_prefix(records(self), records(old_self) + comment_records(label))", ["C03"]),
        ],
        policy={LW + "remove": "contract", LW + "add": "contract", RD: "contract"},
    ))


_inst_c01 = install


def install(world):  # noqa: F811
    _inst_c01(world)
    install_distribute(world)
