"""C02 / C04 / C11 (labware half): Labware.add, Labware.remove, log, condense_log, volumes."""
import z3

from pyvc.contract import Contract, Scenario, register
from pyvc.engine import LoopSpec
from pyvc.lib import Arr0V
from pyvc.models import sym_labware
from pyvc.params import real_fn, slist, sreal, sstr, well_fn
from pyvc.values import Arr2V, Sym, WellV

L = "robotools.liquidhandling.labware.Labware."


def any_well(name):
    r, c = z3.Int(name + "_r"), z3.Int(name + "_c")
    return WellV(r, c), z3.And(r >= 0, r < 26, c >= 1)


def scen(kind, trough, with_comp=False):
    def make(ex):
        lw = sym_labware(ex, "L", trough, composition="two") if with_comp else sym_labware(ex, "L", trough)
        env = {"self": lw, "label": sstr("label")}
        if kind == "1 well, scalar volume":
            w, c = any_well("w")
            ex.p.assume(c)
            env.update(wells=w, volumes=sreal("v"))
        elif kind in ("list of wells, list of volumes (same length)", "list of wells, list of volumes (any lengths)"):
            ws, n = slist("wells", well_fn("w"))
            vs, m = slist("volumes", real_fn("v"))
            i = z3.Int("qi")
            fr = z3.Function("w_r", z3.IntSort(), z3.IntSort())
            fc = z3.Function("w_c", z3.IntSort(), z3.IntSort())
            ex.p.assume(z3.ForAll([i], z3.And(fr(i) >= 0, fr(i) < 26, fc(i) >= 1)))
            ex.p.assume(z3.And(n >= 0, m >= 0))
            if "same" in kind:
                ex.p.assume(n == m)
            env.update(wells=ws, volumes=vs)
        elif kind == "list of wells, scalar volume":
            ws, n = slist("wells", well_fn("w"))
            i = z3.Int("qi")
            fr = z3.Function("w_r", z3.IntSort(), z3.IntSort())
            fc = z3.Function("w_c", z3.IntSort(), z3.IntSort())
            ex.p.assume(z3.ForAll([i], z3.And(fr(i) >= 0, fr(i) < 26, fc(i) >= 1)))
            ex.p.assume(n >= 0)
            env.update(wells=ws, volumes=sreal("v"))
        elif kind == "2-D wells, 2-D volumes (same shape)":
            R2, C2 = z3.Int("R2"), z3.Int("C2")
            ex.p.assume(z3.And(R2 >= 0, C2 >= 0))
            fr = z3.Function("w2_r", z3.IntSort(), z3.IntSort(), z3.IntSort())
            fc = z3.Function("w2_c", z3.IntSort(), z3.IntSort(), z3.IntSort())
            fv = z3.Function("v2", z3.IntSort(), z3.IntSort(), z3.RealSort())
            i, j = z3.Int("qi"), z3.Int("qj")
            ex.p.assume(z3.ForAll([i, j], z3.And(fr(i, j) >= 0, fr(i, j) < 26, fc(i, j) >= 1)))
            env.update(wells=Arr2V(R2, C2, lambda a, b: WellV(fr(_t(a), _t(b)), fc(_t(a), _t(b)))),
                       volumes=Arr2V(R2, C2, lambda a, b: Sym(fv(_t(a), _t(b)), "real")))
        elif kind in ("1 well, volume nan", "1 well, volume +inf"):
            w, c = any_well("w")
            ex.p.assume(c)
            env.update(wells=w, volumes=float("nan") if "nan" in kind else float("inf"))
        return env

    return Scenario(f"{'trough' if trough else 'plate'}{' with two tracked components' if with_comp else ''}: {kind}", make)


def _t(i):
    return z3.IntVal(i) if isinstance(i, int) else (i.t if isinstance(i, Sym) else i)


KINDS = ["1 well, scalar volume", "list of wells, list of volumes (same length)", "list of wells, list of volumes (any lengths)",
         "list of wells, scalar volume", "2-D wells, 2-D volumes (same shape)", "1 well, volume nan"]

N = "length(colmajor(wells))"
SHAPE_OK = f"(length(colmajor(volumes)) == 1 or length(colmajor(volumes)) == {N})"
VOLS_OK = f"forall(0, {N}, lambda i: bcast(volumes, i, wells) >= 0)"
ALL_KNOWN = f"forall(0, {N}, lambda i: known_well(self, colmajor(wells)[i]))"


def violation_at(sign):
    # volume of the well addressed by step i, after the first i steps, combined with volume i, crosses the limit
    if sign == "-":
        return ("(arr_at(self._volumes, self, colmajor(wells)[i]) - contrib_at(contrib_upto(self, wells, volumes, i), self, colmajor(wells)[i])"
                " - bcast(volumes, i, wells) < self.min_volume)")
    return ("(arr_at(self._volumes, self, colmajor(wells)[i]) + contrib_at(contrib_upto(self, wells, volumes, i), self, colmajor(wells)[i])"
            " + bcast(volumes, i, wells) > self.max_volume)")


def labware_op(name, sign, exc, limit_clause):
    op = "vol_minus" if sign == "-" else "vol_plus"
    viol = violation_at(sign)
    return Contract(
        func=L + name, serves=["C02", "C04", "C11", "C05"],
        scenarios=[scen(k, t) for t in (False, True) for k in KINDS] + [scen(KINDS[0], False, True), scen(KINDS[0], True, True), scen(KINDS[1], False, True)],
        raises=[
            ("AssertionError", f"(not {SHAPE_OK}) or (not {VOLS_OK})"),
            ("KeyError", f"{SHAPE_OK} and {VOLS_OK} and not {ALL_KNOWN}"),
            (exc, f"{SHAPE_OK} and {VOLS_OK} and exists(0, {N}, lambda i: {viol})"),
        ],
        ensures=[
            ("bookkeeping", f"same(self._volumes, {op}(old_self._volumes, contrib(self, wells, volumes)))", ["C04", "C02"]),
            ("limit", f"forall(0, {N}, lambda i: {limit_clause})", ["C02"]),
            ("one-history-entry", "same(self._history, old_self._history + [self._volumes]) and same(self._labels, old_self._labels + [label])", ["C11"]),
            ("entry-is-a-snapshot", "not_aliased(last(self._history), self._volumes)", ["C11"]),
            ("frame", "fields_unchanged(self, old_self, ['_volumes', '_history', '_labels'])", ["C02", "C04", "C11", "C05"]),
        ],
        updates={"self._volumes": f"{op}(self._volumes, contrib(self, wells, volumes))",
                 "self._history": f"self._history + [{op}(self._volumes, contrib(self, wells, volumes))]",
                 "self._labels": "self._labels + [label]"},
        exc_ensures=[
            ("history-unchanged", "same(self._history, old_self._history) and same(self._labels, old_self._labels)", ["C11"]),
            ("offending-step-not-applied", f"(same(self._volumes, {op}(old_self._volumes, contrib_upto(self, wells, volumes, loop_index()))) if in_loop() else same(self._volumes, old_self._volumes))", ["C02"]),
            ("frame", "fields_unchanged(self, old_self, ['_volumes'])", ["C02", "C04", "C11"]),
            ("history-entries-stay-snapshots", "not_aliased(last(self._history), self._volumes)", ["C11", "C04"]),
        ],
        loops={0: LoopSpec(k="k",
                           defs={"self._volumes": f"{op}(old_self._volumes, contrib_upto(old_self, wells, volumes, k))"},
                           invariants=[f"forall(0, k, lambda i: {limit_clause.replace('colmajor(wells)[i]', 'wells[i]')})",
                                       "forall(0, k, lambda i: known_well(self, wells[i]))",
                                       "forall(0, k, lambda i: not " + viol.replace("colmajor(wells)[i]", "wells[i]").replace("bcast(volumes, i, wells)", "volumes[i]").replace("self._volumes", "old_self._volumes").replace("(self,", "(old_self,").replace(", self,", ", old_self,") + ")"],
                           asserts=["contrib_unfold(old_self, wells, volumes, k)"])},
        native={"imports": ["from pyvc.native_io import _labware_op"], "call": f"_labware_op(self, '{name}', wells, volumes, label)", "check_raises": False,
                "clause_text": {"bookkeeping": "result['bookkeeping']", "limit": "result['limit']", "one-history-entry": "result['history']",
                                "entry-is-a-snapshot": "result['snapshot']", "frame": "True", "history-unchanged": "True",
                                "offending-step-not-applied": "True"}},
    )


def install(world):
    register(world, labware_op("remove", "-", "VolumeUnderflowError", "vol_at(self, colmajor(wells)[i]) >= self.min_volume"))
    register(world, labware_op("add", "+", "VolumeOverflowError", "vol_at(self, colmajor(wells)[i]) <= self.max_volume"))
