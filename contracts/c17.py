"""C17 - saving writes exactly the records (relative to the axiomatised file object)."""
import z3

from pyvc.contract import Contract, Scenario, register
from pyvc.models import sym_worklist
from pyvc.params import sstr
from pyvc.values import Obj

B = "robotools.worklists.base.BaseWorklist."


def path_obj(name="filepath"):
    return Obj("Path", {"str": sstr(name)})


def install(world):
    def save_scen(kind):
        def make(ex):
            return {"self": sym_worklist(ex, "EvoWorklist"), "filepath": sstr("filepath") if kind == "str" else path_obj()}
        return Scenario(f"filepath:{kind}", make)

    register(world, Contract(
        func=B + "save", serves=["C17"],
        scenarios=[save_scen("str"), save_scen("Path")],
        raises=[("AssertionError", "not ends_with(path_name_lower(filepath), '.gwl')")],
        ensures=[
            ("file-ops", "io_saved_to(filepath)", ["C17"]),
            ("content", "same(io_text(), join_lines(records(self)))", ["C17"]),
            ("records-unchanged", "same(records(self), records(old_self))", ["C17"]),
        ],
        exc_ensures=[("no-io", "io_nothing()", ["C17"])],
        native={"call": "_save_and_read(self, filepath)", "imports": ["from pyvc.native_io import _save_and_read"],
                "clause_text": {"file-ops": "result['ok']", "content": "result['bytes'] == '\\r\\n'.join(list(self)).encode('latin_1')",
                                "records-unchanged": "True", "no-io": "True"}, "check_raises": False},
    ))

    def exit_scen(kind):
        def make(ex):
            fp = None if kind == "None" else path_obj("wl_path")
            return {"self": sym_worklist(ex, "EvoWorklist", filepath=fp), "exc_type": None if kind != "Path, exception pending" else Obj("type", {}),
                    "exc_val": None, "exc_tb": None}
        return Scenario(f"_filepath:{kind}", make)

    register(world, Contract(
        func=B + "__exit__", serves=["C17", "C03"],
        requires=["self._filepath is None or ends_with(path_name_lower(self._filepath), '.gwl')"],
        scenarios=[exit_scen("None"), exit_scen("Path"), exit_scen("Path, exception pending")],
        raises=[],
        ensures=[
            ("saved-iff-path", "(io_nothing() if self._filepath is None else io_saved_to(self._filepath))", ["C17", "C03"]),
            ("content", "self._filepath is None or same(io_text(), join_lines(records(self)))", ["C17", "C03"]),
            ("does-not-swallow", "result is None", ["C17"]),
        ],
    ))
    register(world, Contract(
        func=B + "__enter__", serves=["C17"],
        scenarios=[Scenario("any worklist", lambda ex: {"self": sym_worklist(ex, "EvoWorklist")})],
        raises=[],
        ensures=[("emptied", "length(records(self)) == 0", ["C17"]), ("returns-self", "result is self", ["C17"])],
    ))
    for name in ("__repr__", "__str__"):
        register(world, Contract(
            func=B + name, serves=["C17"],
            scenarios=[Scenario("any worklist", lambda ex: {"self": sym_worklist(ex, "EvoWorklist")})],
            raises=[],
            ensures=[("shows-records", "same(result, join_lines(records(self)))", ["C17"])],
        ))
