"""C14 - DilutionPlan: only the argument-validation prefix of __init__ is within the deductive subset (the planning loops are
NumPy vector code over exp/log/linspace); everything else is covered by the bounded monitor."""
import z3

from pyvc.contract import Contract, Scenario, register
from pyvc.models import classv
from pyvc.params import real_fn, sint, slist, sreal, sstr
from pyvc.values import Obj

INIT = "robotools.utils.DilutionPlan.__init__"


def args(ex, **over):
    env = {"self": Obj("DilutionPlan", {"__class__": classv(ex, "robotools.utils", "DilutionPlan")}), "xmin": sreal("xmin"), "xmax": sreal("xmax"),
           "R": sint("R"), "C": sint("C"), "stock": sreal("stock"), "mode": sstr("mode"), "vmax": sreal("vmax"), "min_transfer": sreal("min_transfer")}
    for k, v in over.items():
        env[k] = v(ex) if callable(v) else v
    return env


def vmax_list(ex):
    seq, n = slist("vmax", real_fn("vm"))
    ex.p.assume(n >= 0)
    return seq


def install(world):
    register(world, Contract(
        func=INIT, serves=["C14"], partial_ok=True,
        requires=["R >= 1", "C >= 1"],
        scenarios=[Scenario("vmax scalar, any mode string", lambda ex: args(ex)),
                   Scenario("vmax per-column list of any length", lambda ex: args(ex, vmax=vmax_list))],
        raises=[("ValueError", "stock < xmax or (is_arraylike(vmax) and length(vmax) != 1 and length(vmax) != C) or not (mode == 'log' or mode == 'linear')")],
        ensures=[],
        note="prefix only: the three argument rejections; the planning loops are beyond the verifier's reach",
    ))


def plan_args(R, C, mode, per_column=False):
    def make(ex):
        env = args(ex, R=R, C=C, mode=mode)
        if per_column:
            from pyvc.values import SeqV
            env["vmax"] = SeqV.of("list", [sreal(f"vmax{c}") for c in range(C)])
        return env

    return make


def install_plan(world):
    scen = []
    for R, C in [(1, 1), (2, 2), (1, 3)]:
        for mode in ("linear", "log"):
            scen.append(Scenario(f"R={R},C={C},{mode},vmax scalar", plan_args(R, C, mode), thorough_only=(C == 3)))
    scen.append(Scenario("R=2,C=2,log,vmax per column", plan_args(2, 2, "log", True)))
    scen.append(Scenario("R=1,C=3,linear,vmax per column", plan_args(1, 3, "linear", True), thorough_only=True))
    register(world, Contract(
        func=INIT, serves=["C14"], key=INIT + "#plan",
        requires=["stock > 0", "min_transfer > 0"],
        scenarios=scen,
        raises=[("ValueError", None)],
        ensures=[
            ("whole-bounded-volumes", "plan_volumes_ok(self, R, C, vmax, min_transfer)", ["C14"]),
            ("prepared-from-stock-or-earlier-column", "plan_sources_ok(self, R, C, vmax)", ["C14"]),
            ("reported-concentrations", "plan_concentrations_ok(self, R, C, vmax, stock)", ["C14"]),
            ("reported-totals", "plan_totals_ok(self, R, C, vmax)", ["C14"]),
        ],
        native={"imports": ["from pyvc.native_io import _make_plan"], "check_raises": False, "returns_native": False,
                "call": "_make_plan(xmin, xmax, R, C, stock, mode, vmax, min_transfer)",
                "clause_text": {k: f"result['{k}']" for k in ("whole-bounded-volumes", "prepared-from-stock-or-earlier-column",
                                                               "reported-concentrations", "reported-totals")}},
        note="planning loops for concrete R x C (1x1, 2x2 quick; 1x3 thorough), every real-valued argument symbolic; numpy.exp/log are "
             "uninterpreted, numpy.linspace affine; the draw budget of source columns (known finding) and to_worklist stay bounded",
    ))


_install0 = install


def install(world):
    _install0(world)
    install_plan(world)
