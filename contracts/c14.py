"""C14 - DilutionPlan: only the argument-validation prefix of __init__ is within the deductive subset (the planning loops are
NumPy vector code over exp/log/linspace); everything else is covered by the bounded monitor."""
import z3

from pyvc.contract import Contract, Scenario, register
from pyvc.models import classv
from pyvc.params import real_fn, sint, slist, sreal, sstr
from pyvc.values import Obj

INIT = "robotools.utils.DilutionPlan.__init__"


def args(ex, **over):
    env = {"self": Obj("DilutionPlan", {"__class__": classv(ex, "robotools.utils", "DilutionPlan")}), "xmin": sreal("xmin"), "xmax": sreal("xmax"),
           "R": sint("R"), "C": sint("C"), "stock": sreal("stock"), "mode": sstr("mode"), "vmax": sreal("vmax"), "min_transfer": sreal("min_transfer")}
    for k, v in over.items():
        env[k] = v(ex) if callable(v) else v
    return env


def vmax_list(ex):
    seq, n = slist("vmax", real_fn("vm"))
    ex.p.assume(n >= 0)
    return seq


def install(world):
    register(world, Contract(
        func=INIT, serves=["C14"], partial_ok=True,
        requires=["R >= 1", "C >= 1"],
        scenarios=[Scenario("vmax scalar, any mode string", lambda ex: args(ex)),
                   Scenario("vmax per-column list of any length", lambda ex: args(ex, vmax=vmax_list))],
        raises=[("ValueError", "stock < xmax or (is_arraylike(vmax) and length(vmax) != 1 and length(vmax) != C) or not (mode == 'log' or mode == 'linear')")],
        ensures=[],
        note="prefix only: the three argument rejections; the planning loops are beyond the verifier's reach",
    ))
