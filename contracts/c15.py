"""C15 - well transforms (WellShifter, WellRotator): element-wise geometric postconditions + inverse lemmas.
WellRandomizer is covered by the bounded monitor (its permutation comes from numpy's RNG)."""
import z3

from pyvc.contract import Contract, Lemma, Scenario, register
from pyvc.engine import ClassV, LoopSpec, PathEnd, PyRaise
from pyvc.models import classv
from pyvc.params import sint, slist, well_fn
from pyvc.values import Arr2V, Obj, SeqV, Sym, WellV

T = "robotools.transform."


def shapes(ex):
    RA, CA, RB, CB = (z3.Int(n) for n in ("RA", "CA", "RB", "CB"))
    ex.p.assume(z3.And(RA >= 1, RA <= 26, CA >= 1, RB >= 1, RB <= 26, CB >= 1))
    return (SeqV.of("tuple", [Sym(RA, "int"), Sym(CA, "int")]), SeqV.of("tuple", [Sym(RB, "int"), Sym(CB, "int")]))


def anchor(ex):
    r, c = z3.Int("anchor_r"), z3.Int("anchor_c")
    ex.p.assume(z3.And(r >= 0, r < 26, c >= 1))
    return WellV(r, c)


def built(ex, cls, args):
    """a transform object built by symbolically executing the REAL constructor on this path"""
    cv = classv(ex, "robotools.transform", cls)
    try:
        return ex.instantiate(cv, args, {})
    except PyRaise:
        raise PathEnd("constructor rejected these arguments")


def wells_arg(ex, kind, name="wells"):
    if kind == "scalar":
        r, c = z3.Int(name + "_r"), z3.Int(name + "_c")
        ex.p.assume(z3.And(r >= 0, r < 26, c >= 1))
        return WellV(r, c)
    if kind == "1-D":
        seq, n = slist(name, well_fn("w"))
        fr = z3.Function("w_r", z3.IntSort(), z3.IntSort())
        fc = z3.Function("w_c", z3.IntSort(), z3.IntSort())
        i = z3.Int("qi")
        ex.p.assume(z3.And(n >= 0, z3.ForAll([i], z3.And(fr(i) >= 0, fr(i) < 26, fc(i) >= 1))))
        return seq
    R2, C2 = z3.Int("R2"), z3.Int("C2")
    fr = z3.Function("w2_r", z3.IntSort(), z3.IntSort(), z3.IntSort())
    fc = z3.Function("w2_c", z3.IntSort(), z3.IntSort(), z3.IntSort())
    i, j = z3.Int("qi"), z3.Int("qj")
    ex.p.assume(z3.And(R2 >= 0, C2 >= 0, z3.ForAll([i, j], z3.And(fr(i, j) >= 0, fr(i, j) < 26, fc(i, j) >= 1))))
    return Arr2V(R2, C2, lambda a, b: WellV(fr(_t(a), _t(b)), fc(_t(a), _t(b))))


def _t(i):
    return z3.IntVal(i) if isinstance(i, int) else (i.t if isinstance(i, Sym) else i)


KINDS = ("scalar", "1-D", "2-D")
FLAT = "rowmajor(wells)"
NW = f"length({FLAT})"


def install(world):
    # ---- WellShifter.__init__
    def init_make(ex):
        sa, sb = shapes(ex)
        obj = Obj("WellShifter", {"__class__": classv(ex, "robotools.transform", "WellShifter")})
        return {"self": obj, "shape_A": sa, "shape_B": sb, "shifted_A01": anchor(ex)}

    FITS = "(shape_A[0] + well_row(shifted_A01) <= shape_B[0] and shape_A[1] + well_col(shifted_A01) - 1 <= shape_B[1])"
    ONB = "(well_row(shifted_A01) < shape_B[0] and well_col(shifted_A01) <= shape_B[1])"
    register(world, Contract(
        func=T + "WellShifter.__init__", serves=["C15"],
        scenarios=[Scenario("any shapes, any anchor", init_make)],
        raises=[("KeyError", f"not {ONB}"), ("ValueError", f"{ONB} and not {FITS}")],
        ensures=[("offsets", "self.dr == well_row(shifted_A01) and self.dc == well_col(shifted_A01) - 1", ["C15"]),
                 ("fits", FITS, ["C15"])],
    ))

    # ---- shift / unshift
    def sh_make(kind):
        def make(ex):
            sa, sb = shapes(ex)
            obj = built(ex, "WellShifter", [sa, sb, anchor(ex)])
            return {"self": obj, "wells": wells_arg(ex, kind)}
        return make

    ON_A = f"forall(0, {NW}, lambda i: well_row({FLAT}[i]) < self.shape_A[0] and well_col({FLAT}[i]) <= self.shape_A[1])"
    ON_B = f"forall(0, {NW}, lambda i: well_row({FLAT}[i]) < self.shape_B[0] and well_col({FLAT}[i]) <= self.shape_B[1])"
    def loop(sign, shape):
        return {0: LoopSpec(k="k", defs={"shifted": f"seq_of(k, lambda i: wid(well_row(wells.flatten()[i]) {sign} self.dr, well_col(wells.flatten()[i]) {sign} self.dc))"},
                            invariants=[f"forall(0, k, lambda i: well_row(wells.flatten()[i]) < self.{shape}[0] and well_col(wells.flatten()[i]) <= self.{shape}[1])"])}
    register(world, Contract(
        func=T + "WellShifter.shift", serves=["C15"],
        scenarios=[Scenario(f"wells:{k}", sh_make(k)) for k in KINDS],
        raises=[("KeyError", f"not {ON_A}")],
        ensures=[("same-shape", "same_shape(result, wells)", ["C15"]),
                 ("offset", f"forall(0, {NW}, lambda i: rowmajor(result)[i] == well(well_row({FLAT}[i]) + self.dr, well_col({FLAT}[i]) + self.dc))", ["C15"])],
        loops=loop("+", "shape_A"),
    ))
    IMG = (f"forall(0, {NW}, lambda i: well_row({FLAT}[i]) >= self.dr and well_col({FLAT}[i]) - 1 >= self.dc and "
           f"well_row({FLAT}[i]) - self.dr < self.shape_A[0] and well_col({FLAT}[i]) - 1 - self.dc < self.shape_A[1])")
    register(world, Contract(
        func=T + "WellShifter.unshift", serves=["C15"],
        requires=[IMG],  # unshift is specified on the image of shift (wells of B outside it wrap around / raise: not part of the property)
        scenarios=[Scenario(f"wells:{k}", sh_make(k)) for k in KINDS],
        raises=[("KeyError", f"not {ON_B}")],
        ensures=[("same-shape", "same_shape(result, wells)", ["C15"]),
                 ("offset", f"forall(0, {NW}, lambda i: rowmajor(result)[i] == well(well_row({FLAT}[i]) - self.dr, well_col({FLAT}[i]) - self.dc))", ["C15"])],
        loops=loop("-", "shape_B"),
    ))

    # ---- WellRotator
    def rot_make(kind):
        def make(ex):
            R, Cn = z3.Int("R"), z3.Int("C")
            ex.p.assume(z3.And(R >= 1, R <= 26, Cn >= 1, Cn <= 26))
            obj = built(ex, "WellRotator", [SeqV.of("tuple", [Sym(R, "int"), Sym(Cn, "int")])])
            return {"self": obj, "wells": wells_arg(ex, kind)}
        return make

    ON_O = f"forall(0, {NW}, lambda i: well_row({FLAT}[i]) < self.original_shape[0] and well_col({FLAT}[i]) <= self.original_shape[1])"
    for name, rr, cc in (("rotate_cw", f"well_col({FLAT}[i]) - 1", f"self.original_shape[0] - well_row({FLAT}[i])"),
                         ("rotate_ccw", f"self.original_shape[1] - well_col({FLAT}[i])", f"well_row({FLAT}[i]) + 1")):
        rr_l = rr.replace(FLAT, "wells.flatten()")
        cc_l = cc.replace(FLAT, "wells.flatten()")
        register(world, Contract(
            func=T + "WellRotator." + name, serves=["C15"],
            scenarios=[Scenario(f"wells:{k}", rot_make(k)) for k in KINDS],
            raises=[("KeyError", f"not {ON_O}")],
            ensures=[("same-shape", "same_shape(result, wells)", ["C15"]),
                     ("rotation", f"forall(0, {NW}, lambda i: rowmajor(result)[i] == well({rr}, {cc}))", ["C15"])],
            loops={0: LoopSpec(k="k", defs={"rotated": f"seq_of(k, lambda i: wid({rr_l}, {cc_l}))"},
                               invariants=["forall(0, k, lambda i: well_row(wells.flatten()[i]) < self.original_shape[0] and well_col(wells.flatten()[i]) <= self.original_shape[1])"])},
        ))

    def lemmas(ex):
        r, c, dr, dc, R, Cn = (z3.Int(n) for n in ("r", "c", "dr", "dc", "R", "C"))
        dom = z3.And(R >= 1, Cn >= 1, r >= 0, r < R, c >= 0, c < Cn)
        # cw maps (r, c) of an R x C plate to (c, R-1-r) of the C x R plate; ccw maps (r, c) to (C-1-c, r)
        cw = lambda rr, cc, RR, CC: (cc, RR - 1 - rr)  # noqa: E731
        ccw = lambda rr, cc, RR, CC: (CC - 1 - cc, rr)  # noqa: E731
        a = cw(r, c, R, Cn)
        b = ccw(a[0], a[1], Cn, R)
        yield "ccw-after-cw-is-identity", z3.Implies(dom, z3.And(b[0] == r, b[1] == c))
        x = (r, c)
        shp = (R, Cn)
        for _ in range(4):
            x = cw(x[0], x[1], shp[0], shp[1])
            shp = (shp[1], shp[0])
        yield "four-cw-rotations-are-identity", z3.Implies(dom, z3.And(x[0] == r, x[1] == c))
        yield "cw-stays-on-the-transposed-plate", z3.Implies(dom, z3.And(a[0] >= 0, a[0] < Cn, a[1] >= 0, a[1] < R))
        r2, c2 = z3.Int("r2"), z3.Int("c2")
        a2 = cw(r2, c2, R, Cn)
        yield "cw-injective", z3.Implies(z3.And(dom, r2 >= 0, r2 < R, c2 >= 0, c2 < Cn, a[0] == a2[0], a[1] == a2[1]), z3.And(r == r2, c == c2))
        yield "unshift-after-shift-is-identity", z3.And((r + dr) - dr == r, (c + dc) - dc == c)
        yield "shift-injective", z3.Implies(z3.And(r + dr == r2 + dr, c + dc == c2 + dc), z3.And(r == r2, c == c2))

    world.lemmas.append(Lemma("C15/inverse-and-bijection-lemmas", ["C15"], lemmas))


# ----------------------------------------------------------------------------- WellRandomizer: methods on a well-formed object
# wf(randomizer): `lookup` maps exactly the wells of the plate bijectively onto the wells of the plate, `lookup_reverse` is
# its inverse, and in row / column mode the image stays in the row / column.  wf is established by the constructor
# contract below (small concrete shapes, permutation symbolic); the methods are proved for every shape and every argument.


def sym_randomizer(ex, mode):
    from pyvc.ops import mk_bool
    from pyvc.values import MapV, term
    from pyvc import ops

    R, Cn = z3.Int("R"), z3.Int("C")
    ex.p.assume(z3.And(R >= 1, R <= 26, Cn >= 1))
    I2 = (z3.IntSort(), z3.IntSort(), z3.IntSort())
    pr, pc, ir, ic = (z3.Function(n, *I2) for n in ("perm_r", "perm_c", "inv_r", "inv_c"))
    r, c = z3.Int("wf_r"), z3.Int("wf_c")
    grid = z3.And(r >= 0, r < R, c >= 1, c <= Cn)

    def on(a, b):
        return z3.And(a >= 0, a < R, b >= 1, b <= Cn)

    wf = [on(pr(r, c), pc(r, c)), on(ir(r, c), ic(r, c)),
          ir(pr(r, c), pc(r, c)) == r, ic(pr(r, c), pc(r, c)) == c, pr(ir(r, c), ic(r, c)) == r, pc(ir(r, c), ic(r, c)) == c]
    if mode == "row":
        wf += [pr(r, c) == r]
    if mode == "column":
        wf += [pc(r, c) == c]
    fwd = [w for w in wf if "inv_r(wf_r" not in str(w) and "inv_c(wf_r" not in str(w)]
    bwd = [w for w in wf if w not in fwd]
    # two axioms with explicit triggers: facts about perm(w) are instantiated where perm(w) occurs, facts about inv(w) where inv(w) occurs
    ex.p.assume(z3.ForAll([r, c], z3.Implies(grid, z3.And(*fwd)), patterns=[z3.MultiPattern(pr(r, c)), z3.MultiPattern(pc(r, c))]))
    ex.p.assume(z3.ForAll([r, c], z3.Implies(grid, z3.And(*bwd)), patterns=[z3.MultiPattern(ir(r, c)), z3.MultiPattern(ic(r, c))]))

    def dom(key):
        key = ops.to_abstract(key)
        if not isinstance(key, WellV):
            return False
        return mk_bool(on(term(key.r, "int"), term(key.c, "int")))

    def mk(fr_, fc_):
        def fn(key):
            key = ops.to_abstract(key)
            a, b = term(key.r, "int"), term(key.c, "int")
            return WellV(fr_(a, b), fc_(a, b))
        return fn

    o = Obj("WellRandomizer", {"__class__": classv(ex, "robotools.transform", "WellRandomizer")})
    o.fields["original_shape"] = SeqV.of("tuple", [Sym(R, "int"), Sym(Cn, "int")])
    o.fields["lookup"] = MapV(dom=dom, fn=mk(pr, pc))
    o.fields["lookup_reverse"] = MapV(dom=dom, fn=mk(ir, ic))
    o.fields["mode_ghost"] = mode
    return o


_install_c15 = install


def install(world):  # noqa: F811
    _install_c15(world)

    def make(kind, mode):
        def mk(ex):
            return {"self": sym_randomizer(ex, mode), "wells": wells_arg(ex, kind)}
        return mk

    ON = f"forall(0, {NW}, lambda i: well_row({FLAT}[i]) < self.original_shape[0] and well_col({FLAT}[i]) <= self.original_shape[1])"
    for name, fwd, back in (("randomize_wells", "lookup", "lookup_reverse"), ("derandomize_wells", "lookup_reverse", "lookup")):
        register(world, Contract(
            func=T + "WellRandomizer." + name, serves=["C15"],
            requires=[ON],  # the property speaks about wells of the plate (others map to None)
            scenarios=[Scenario(f"wells:{k}, mode {m}", make(k, m)) for k in KINDS for m in ("full", "row", "column")],
            raises=[],
            ensures=[("same-shape", "same_shape(result, wells)", ["C15"]),
                     ("element-wise-lookup", f"forall(0, {NW}, lambda i: rowmajor(result)[i] == self.{fwd}[{FLAT}[i]])", ["C15"]),
                     ("stays-on-plate", f"forall(0, {NW}, lambda i: well_row(rowmajor(result)[i]) >= 0 and well_row(rowmajor(result)[i]) < self.original_shape[0]"
                                        f" and well_col(rowmajor(result)[i]) >= 1 and well_col(rowmajor(result)[i]) <= self.original_shape[1])", ["C15"]),
                     ("inverse-undoes-it", f"forall(0, {NW}, lambda i: self.{back}[rowmajor(result)[i]] == {FLAT}[i])", ["C15"]),
                     ("row-or-column-kept", f"forall(0, {NW}, lambda i: implies(self.mode_ghost == 'row', well_row(rowmajor(result)[i]) == well_row({FLAT}[i])) and "
                                            f"implies(self.mode_ghost == 'column', well_col(rowmajor(result)[i]) == well_col({FLAT}[i])))", ["C15"])],
        ))


_install_c15b = install


def install(world):  # noqa: F811
    _install_c15b(world)

    def init_make(R, Cn, mode):
        def mk(ex):
            obj = Obj("WellRandomizer", {"__class__": classv(ex, "robotools.transform", "WellRandomizer")})
            return {"self": obj, "original_shape": SeqV.of("tuple", [R, Cn]), "random_seed": sint("random_seed"), "mode": mode,
                    "ghost_R": R, "ghost_C": Cn}
        return mk

    shapes_ = [(2, 2), (1, 3), (3, 1), (2, 3)]
    register(world, Contract(
        func=T + "WellRandomizer.__init__", serves=["C15"],
        scenarios=[Scenario(f"{R}x{Cn} plate, mode {m!r}, any integer seed", init_make(R, Cn, m), thorough_only=(R * Cn > 4))
                   for R, Cn in shapes_ for m in ("full", "row", "column")] + [Scenario("2x2 plate, unknown mode", init_make(2, 2, "diagonal"))],
        raises=[("ValueError", "not (mode == 'full' or mode == 'row' or mode == 'column')")],
        ensures=[("well-formed", "randomizer_wf(self, ghost_R, ghost_C, mode)", ["C15"]),
                 ("attributes", "self.original_shape[0] == ghost_R and self.original_shape[1] == ghost_C and self.random_seed == random_seed", ["C15"])],
        native={"imports": ["from pyvc.native_io import _make_randomizer"], "check_raises": False, "returns_native": False,
                "call": "_make_randomizer(original_shape, random_seed, mode)",
                "clause_text": {k: f"result['{k}']" for k in ("well-formed", "attributes")}},
        note="establishes wf(randomizer), which the method contracts assume, for small concrete plates; the permutation drawn by "
             "numpy's RandomState is an arbitrary bijection that depends on (seed, call number, length) only (library contract)",
    ))
