"""C09 - every record is well-formed and carries exactly the arguments given (record emitters)."""
import z3

from pyvc.contract import Contract, Scenario, register
from pyvc.models import sym_worklist
from pyvc.params import sint, sreal, sstr
from pyvc.values import EnumV, Opaque, SeqV, Sym
from contracts.c10 import PREP, REJECT, TOO_BIG, sym_tip

B = "robotools.worklists.base.BaseWorklist."
TEXTS = ("rack_label", "liquid_class", "rack_id", "tube_id", "rack_type", "forced_rack_type")


def ad_args(ex, cls="EvoWorklist", diti=False, **over):
    tip, tipc = sym_tip("tip")
    ex.p.assume(tipc)
    env = {"self": sym_worklist(ex, cls, diti_mode=diti), "rack_label": sstr("rack_label"), "position": sint("position"),
           "volume": sreal("volume"), "liquid_class": sstr("liquid_class"), "tip": tip, "rack_id": sstr("rack_id"),
           "tube_id": sstr("tube_id"), "rack_type": sstr("rack_type"), "forced_rack_type": sstr("forced_rack_type")}
    env.update(over)
    return env


PRINTABLE = [f"printable({t})" for t in TEXTS]
AD_FIELDS = ("[rack_label, rack_id, rack_type, fmt_int(position), tube_id, fmt_volume(as_float(volume)), liquid_class, '',"
             " tip_field(tip), forced_rack_type]")
UNCHANGED = ("unchanged", "same(records(self), records(old_self))", ["C09", "C03"])


def ad_contract(name, kind):
    rej = REJECT.replace("max_volume", "self.max_volume")
    big = TOO_BIG.replace("max_volume", "self.max_volume")
    return Contract(
        func=B + name, serves=["C09", "C03"],
        requires=PRINTABLE,
        scenarios=[
            Scenario("all well-typed, tip:Tip member", lambda ex: ad_args(ex)),
            Scenario("tip:int", lambda ex: ad_args(ex, tip=sint("tip"))),
            Scenario("tip:[int,Tip]", lambda ex: ad_args(ex, tip=SeqV.of("list", [sint("tip0"), sym_tip_assumed(ex, "tip1")]))),
            Scenario("volume:int", lambda ex: ad_args(ex, volume=sint("volume"))),
            Scenario("volume:nan", lambda ex: ad_args(ex, volume=float("nan"))),
            Scenario("volume:+inf", lambda ex: ad_args(ex, volume=float("inf"))),
            Scenario("position:float", lambda ex: ad_args(ex, position=sreal("position"))),
            Scenario("position:None", lambda ex: ad_args(ex, position=None)),
            Scenario("tube_id:None", lambda ex: ad_args(ex, tube_id=None)),
            Scenario("rack_label:None", lambda ex: ad_args(ex, rack_label=None)),
            Scenario("worklist max_volume:int", lambda ex: ad_args(ex, self=sym_worklist(ex, "FluentWorklist", max_volume="int"))),
        ],
        raises=[("ValueError", rej), ("InvalidOperationError", big)],
        ensures=[
            ("appended", f"same(records(self), records(old_self) + [gwl_record('{kind}', {AD_FIELDS})])", ["C09"]),
            ("fields-readable", f"forall(0, 10, lambda i: no_sep(seq_of(10, lambda j: {AD_FIELDS}[j])[i]))", ["C09"]),
            ("step-within-max", "as_float(volume) <= self.max_volume", ["C03"]),
        ],
        updates={"self.__records__": f"records(self) + [gwl_record('{kind}', {AD_FIELDS})]"},
        exc_ensures=[UNCHANGED],
        policy={PREP: "contract"},
        native={"call": f"(self.{name}(rack_label, position, volume, liquid_class=liquid_class, tip=tip, rack_id=rack_id, tube_id=tube_id, rack_type=rack_type, forced_rack_type=forced_rack_type), list(self))[1]",
                "setup": "old_records = list(self)", "check_raises": True,
                "clause_text": {"appended": "result[:len(old_records)] == old_records and len(result) == len(old_records) + 1 and result[-1].split(';') == ['%s', rack_label, rack_id, rack_type, str(position), tube_id, fmt_volume(volume), liquid_class, '', ('' if tipmask(tip) == -1 else str(tipmask(tip))), forced_rack_type]" % kind,
                                "fields-readable": "len(result[-1].split(';')) == 11 and '\\n' not in result[-1]",
                                "step-within-max": "volume <= self.max_volume",
                                "unchanged": "list(self) == old_records"}},
    )


def sym_tip_assumed(ex, name):
    t, c = sym_tip(name)
    ex.p.assume(c)
    return t


def simple(name, record, diti_cases=(False, True), raises=(), extra_scen=None, serves=("C09",), native_call=None, requires=()):
    scen = [Scenario(f"diti_mode={d}", (lambda d: lambda ex: {"self": sym_worklist(ex, "EvoWorklist", diti_mode=d)})(d)) for d in diti_cases]
    return Contract(func=B + name, serves=list(serves), scenarios=scen if extra_scen is None else extra_scen, raises=list(raises),
                    requires=list(requires),
                    ensures=[("appended", f"same(records(self), records(old_self) + {record})", ["C09"])],
                    exc_ensures=[UNCHANGED],
                    native={"call": native_call or f"(self.{name}(), list(self))[1]", "setup": "old_records = list(self)",
                            "clause_text": {"appended": f"result == old_records + {record}", "unchanged": "list(self) == old_records"}})


def install(world):
    register(world, ad_contract("aspirate_well", "A"))
    register(world, ad_contract("dispense_well", "D"))
    register(world, simple("flush", "['F;']"))
    register(world, simple("commit", "['B;']"))
    register(world, simple("decontaminate", "['WD;']", raises=[("InvalidOperationError", "self.diti_mode")]))
    # wash
    def wash_scen(kind, diti):
        def make(ex):
            val = {"int": sint("scheme"), "float": sreal("scheme"), "none": None, "str": sstr("scheme")}[kind]
            return {"self": sym_worklist(ex, "EvoWorklist", diti_mode=diti), "scheme": val}
        return Scenario(f"scheme:{kind}, diti_mode={diti}", make)

    IN14 = "((is_int(scheme) or is_float(scheme)) and (scheme == 1 or scheme == 2 or scheme == 3 or scheme == 4))"
    register(world, Contract(
        func=B + "wash", serves=["C09"],
        scenarios=[wash_scen(k, d) for k in ("int", "float", "none", "str") for d in (False, True)],
        raises=[("ValueError", f"(not self.diti_mode) and not {IN14}")],
        ensures=[("appended", f"same(records(self), records(old_self) + [('W;' if self.diti_mode else 'W' + fmt_int(scheme) + ';')])", ["C09"]),
                 ("scheme-digit", f"self.diti_mode or {IN14}", ["C09"])],
        exc_ensures=[UNCHANGED],
        native={"call": "(self.wash(scheme), list(self))[1]", "setup": "old_records = list(self)",
                "clause_text": {"appended": "result == old_records + [('W;' if self.diti_mode else 'W%d;' % int(scheme))]",
                                "scheme-digit": "True", "unchanged": "list(self) == old_records"}},
    ))
    # set_diti
    register(world, Contract(
        func=B + "set_diti", serves=["C09"],
        scenarios=[Scenario("diti_index:int", lambda ex: {"self": sym_worklist(ex, "EvoWorklist"), "diti_index": sint("diti_index")}),
                   Scenario("diti_index:numpy int", lambda ex: {"self": sym_worklist(ex, "EvoWorklist"), "diti_index": sint("diti_index", np=True)}),
                   Scenario("diti_index:float", lambda ex: {"self": sym_worklist(ex, "EvoWorklist"), "diti_index": sreal("diti_index")}),
                   Scenario("diti_index:str", lambda ex: {"self": sym_worklist(ex, "EvoWorklist"), "diti_index": sstr("diti_index")}),
                   Scenario("diti_index:None", lambda ex: {"self": sym_worklist(ex, "EvoWorklist"), "diti_index": None})],
        raises=[("InvalidOperationError", "length(records(self)) > 0 and substr(records(self)[length(records(self)) - 1], 0, 1) != 'B'"),
                ("ValueError", "(length(records(self)) == 0 or substr(records(self)[length(records(self)) - 1], 0, 1) == 'B') and not (is_integral(diti_index) and diti_index >= 0)")],
        ensures=[("appended", "same(records(self), records(old_self) + ['S;' + fmt_int(diti_index)])", ["C09"])],
        exc_ensures=[UNCHANGED],
        native={"call": "(self.set_diti(diti_index), list(self))[1]", "setup": "old_records = list(self)",
                "clause_text": {"appended": "result == old_records + ['S;%d' % diti_index]", "unchanged": "list(self) == old_records"}},
    ))
    # comment
    def comment_scen(kind):
        def make(ex):
            wl = sym_worklist(ex, "EvoWorklist")
            if kind == "none":
                c = None
            elif kind == "empty":
                c = ""
            elif kind == "one line":
                c = sstr("comment")
                ex.p.assume(z3.Not(z3.Contains(c.t, z3.StringVal("\n"))))
            else:
                a, b = z3.String("line1"), z3.String("line2")
                ex.p.assume(z3.And(z3.Not(z3.Contains(a, z3.StringVal("\n"))), z3.Not(z3.Contains(b, z3.StringVal("\n")))))
                c = Sym(z3.Concat(a, z3.StringVal("\n"), b), "str")
                return {"self": wl, "comment": c, "ghost_l1": Sym(a, "str"), "ghost_l2": Sym(b, "str")}
            return {"self": wl, "comment": c}
        return Scenario(f"comment:{kind}", make)

    one = "([] if (is_none(comment) or comment == '' or strip(comment) == '') else ['C;' + strip(comment)])"
    two = "(([] if strip(ghost_l1) == '' else ['C;' + strip(ghost_l1)]) + ([] if strip(ghost_l2) == '' else ['C;' + strip(ghost_l2)]))"
    for kind, rec in (("none", one), ("empty", one), ("one line", one), ("two lines", two)):
        pass
    register(world, Contract(
        func=B + "comment", serves=["C09"],
        scenarios=[comment_scen("none"), comment_scen("empty"), comment_scen("one line")],
        raises=[("ValueError", "is_str(comment) and ';' in comment")],
        ensures=[("appended", f"same(records(self), records(old_self) + {one})", ["C09"])],
        exc_ensures=[UNCHANGED],
        native={"call": "(self.comment(comment), list(self))[1]", "setup": "old_records = list(self)",
                "clause_text": {"appended": "result == old_records + ['C;' + l.strip() for l in (comment or '').split('\\n') if l.strip()]",
                                "unchanged": "list(self) == old_records"}},
    ))
    register(world, Contract(
        func=B + "comment", serves=["C09"], key=B + "comment#two-lines",
        scenarios=[comment_scen("two lines")],
        raises=[("ValueError", "';' in comment")],
        ensures=[("appended", f"same(records(self), records(old_self) + {two})", ["C09"])],
        exc_ensures=[UNCHANGED],
        native={"call": "(self.comment(comment), list(self))[1]", "setup": "old_records = list(self)",
                "clause_text": {"appended": "result == old_records + ['C;' + l.strip() for l in (comment or '').split('\\n') if l.strip()]",
                                "unchanged": "list(self) == old_records"}},
    ))


RD = B + "reagent_distribution"


def rd_args(ex, **over):
    env = {"self": sym_worklist(ex, "EvoWorklist"), "src_rack_label": sstr("src_rack_label"), "src_start": sint("src_start"),
           "src_end": sint("src_end"), "dst_rack_label": sstr("dst_rack_label"), "dst_start": sint("dst_start"),
           "dst_end": sint("dst_end"), "volume": sreal("volume"), "diti_reuse": sint("diti_reuse"), "multi_disp": sint("multi_disp"),
           "exclude_wells": None, "liquid_class": sstr("liquid_class"), "direction": sstr("direction"),
           "src_rack_id": sstr("src_rack_id"), "src_rack_type": sstr("src_rack_type"), "dst_rack_id": sstr("dst_rack_id"),
           "dst_rack_type": sstr("dst_rack_type")}
    env.update(over)
    return env


RD_TEXTS = ("src_rack_label", "dst_rack_label", "liquid_class", "src_rack_id", "src_rack_type", "dst_rack_id", "dst_rack_type", "direction")
POS_OK = "(is_integral(src_start) and src_start >= 0 and is_integral(src_end) and src_end >= 0 and is_integral(dst_start) and dst_start >= 0 and is_integral(dst_end) and dst_end >= 0)"
DIR_OK = "(direction == 'left_to_right' or direction == 'right_to_left')"
EXCL_OK = "(is_none(exclude_wells) or forall(0, length(exclude_wells), lambda i: is_integral(exclude_wells[i]) and dst_start <= exclude_wells[i] and exclude_wells[i] <= dst_end))"
COUNTS_OK = "(is_integral(diti_reuse) and diti_reuse >= 1 and is_integral(multi_disp) and multi_disp >= 1)"
VOL_OK = "((is_int(volume) or is_float(volume)) and (not is_nan(volume)) and volume >= 0 and volume <= 7158278)"
RD_REJECT = (f"(not {DIR_OK}) or (not {POS_OK}) or (not {COUNTS_OK}) or (not {EXCL_OK}) or (not valid_text32(src_rack_label)) or (not {VOL_OK})"
             " or (not valid_text(liquid_class)) or (not valid_text32(src_rack_id)) or (not valid_text32(src_rack_type))"
             " or (not valid_text32(dst_rack_label)) or (not valid_text32(dst_rack_id)) or (not valid_text32(dst_rack_type))")
RD_TOOBIG = f"{DIR_OK} and {POS_OK} and {COUNTS_OK} and {EXCL_OK} and valid_text32(src_rack_label) and {VOL_OK} and volume > self.max_volume"
MD_OUT = "(multi_disp if multi_disp * volume <= self.max_volume else floor_div(self.max_volume, volume))"
RD_FIELDS = ("[src_rack_label, src_rack_id, src_rack_type, fmt_int(src_start), fmt_int(src_end), dst_rack_label, dst_rack_id,"
             f" dst_rack_type, fmt_int(dst_start), fmt_int(dst_end), fmt_num(volume), liquid_class, fmt_int(diti_reuse), fmt_int({MD_OUT}),"
             " ('0' if direction == 'left_to_right' else '1')]")


# a valid call (the native evaluation always tries it with exclusion lists whose decimal strings sort differently from the numbers)
RD_VALID = {"src_rack_label": "src", "src_start": 1, "src_end": 8, "dst_rack_label": "dst", "dst_start": 1, "dst_end": 96, "volume": 50, "diti_reuse": 1,
            "multi_disp": 1, "liquid_class": "Water", "direction": "left_to_right", "src_rack_id": "", "src_rack_type": "", "dst_rack_id": "", "dst_rack_type": ""}


def _excl(n):
    def make(ex):
        return rd_args(ex, exclude_wells=SeqV.of("list", [sint(f"excl{i}") for i in range(n)]))
    return make


_old_install_c09 = install


def install(world):  # noqa: F811
    _old_install_c09(world)
    sorted_excl = "[fmt_int(e) for e in sorted_ints(exclude_wells)]"
    register(world, Contract(
        func=RD, serves=["C09", "C06"],
        requires=[f"printable({t})" for t in RD_TEXTS],
        scenarios=[
            Scenario("all well-typed, no exclusions", lambda ex: rd_args(ex)),
            Scenario("exclude_wells:[]", _excl(0)), Scenario("exclude_wells:[int]", _excl(1)),
            Scenario("exclude_wells:[int,int]", _excl(2), pins=[dict(RD_VALID, excl0=10, excl1=9), dict(RD_VALID, excl0=9, excl1=10)]),
            Scenario("exclude_wells:[int,int,int]", _excl(3), pins=[dict(RD_VALID, excl0=100, excl1=9, excl2=10, dst_end=384)]),
            Scenario("volume:int", lambda ex: rd_args(ex, volume=sint("volume"))),
            Scenario("volume:nan", lambda ex: rd_args(ex, volume=float("nan"))),
            Scenario("src_start:float", lambda ex: rd_args(ex, src_start=sreal("src_start"))),
            Scenario("dst_end:None", lambda ex: rd_args(ex, dst_end=None)),
            Scenario("dst_start:numpy int", lambda ex: rd_args(ex, dst_start=sint("dst_start", np=True))),
            Scenario("liquid_class:None", lambda ex: rd_args(ex, liquid_class=None)),
            Scenario("dst_rack_type:int", lambda ex: rd_args(ex, dst_rack_type=sint("dst_rack_type"))),
            Scenario("diti_reuse:float", lambda ex: rd_args(ex, diti_reuse=sreal("diti_reuse"))),
            Scenario("multi_disp:float", lambda ex: rd_args(ex, multi_disp=sreal("multi_disp"))),
            Scenario("multi_disp:str", lambda ex: rd_args(ex, multi_disp=sstr("multi_disp"))),
            Scenario("diti_reuse:None", lambda ex: rd_args(ex, diti_reuse=None)),
            Scenario("exclude_wells:[float]", lambda ex: rd_args(ex, exclude_wells=SeqV.of("list", [sreal("excl0")]))),
        ],
        raises=[("ValueError", RD_REJECT), ("InvalidOperationError", RD_TOOBIG)],
        ensures=[
            ("appended", f"same(records(self), records(old_self) + [gwl_record('R', {RD_FIELDS} + ([] if is_none(exclude_wells) else {sorted_excl}))])", ["C09", "C06"]),
            ("multi-disp-fits", f"implies(volume > 0, {MD_OUT} * volume <= self.max_volume)", ["C06", "C09"]),
            ("multi-disp-minimal-reduction", f"implies(multi_disp * volume > self.max_volume, ({MD_OUT} + 1) * volume > self.max_volume)", ["C06", "C09"]),
            ("multi-disp-unchanged-if-fits", f"implies(multi_disp * volume <= self.max_volume, {MD_OUT} == multi_disp)", ["C06", "C09"]),
        ],
        updates={"self.__records__": f"records(self) + [gwl_record('R', {RD_FIELDS} + ([] if is_none(exclude_wells) else [fmt_int(e) for e in sorted_ints(exclude_wells)]))]"},
        exc_ensures=[UNCHANGED],
        policy={PREP: "contract"},
        native={"call": "(self.reagent_distribution(src_rack_label, src_start, src_end, dst_rack_label, dst_start, dst_end, volume=volume, diti_reuse=diti_reuse, multi_disp=multi_disp, exclude_wells=exclude_wells, liquid_class=liquid_class, direction=direction, src_rack_id=src_rack_id, src_rack_type=src_rack_type, dst_rack_id=dst_rack_id, dst_rack_type=dst_rack_type), list(self))[1]",
                "setup": "old_records = list(self)",
                "clause_text": {"appended": "result[:-1] == old_records and result[-1].split(';') == ['R', src_rack_label, src_rack_id, src_rack_type, str(src_start), str(src_end), dst_rack_label, dst_rack_id, dst_rack_type, str(dst_start), str(dst_end), str(volume.v if hasattr(volume, 'v') else volume), liquid_class, str(diti_reuse), result[-1].split(';')[14], ('0' if direction == 'left_to_right' else '1')] + [str(e) for e in sorted(exclude_wells or [])] and (int(result[-1].split(';')[14]) == multi_disp if multi_disp * volume <= self.max_volume else floor_div(self.max_volume, volume) == int(result[-1].split(';')[14])) and result[-1].split(';')[14] == str(int(result[-1].split(';')[14]))",
                                "multi-disp-fits": "volume <= 0 or int(result[-1].split(';')[14]) * volume <= self.max_volume",
                                "multi-disp-minimal-reduction": "multi_disp * volume <= self.max_volume or (int(result[-1].split(';')[14]) + 1) * volume > self.max_volume",
                                "multi-disp-unchanged-if-fits": "multi_disp * volume > self.max_volume or int(result[-1].split(';')[14]) == multi_disp",
                                "unchanged": "list(self) == old_records"}},
    ))
