"""C08 - well numbering: both get_well_position functions against the column-major spec."""
import z3

from pyvc.contract import Contract, Scenario, register
from pyvc.models import sym_labware
from pyvc.values import WellV

EVO = "robotools.evotools.utils.get_well_position"
FLU = "robotools.fluenttools.utils.get_well_position"


def mk(trough, cls="Labware"):
    def make(ex):
        lw = sym_labware(ex, "L", trough, cls=cls)
        r, c = z3.Int("well_r"), z3.Int("well_c")
        ex.p.assume(z3.And(r >= 0, r < 26, c >= 1))
        return {"labware": lw, "well": WellV(r, c), "ghost_r": ex.p.fresh("x", "int").__class__(r, "int"), "ghost_c": ex.p.fresh("y", "int").__class__(c, "int")}

    return make


IN_LABWARE = "ghost_r < length(labware.row_ids) and ghost_c <= length(labware.column_ids)"


def install(world):
    scen = [Scenario("plate, any single-letter well id", mk(False)),
            Scenario("trough = Labware(virtual_rows=..), any single-letter well id", mk(True)),
            Scenario("trough = Trough(..), any single-letter well id", mk(True, "Trough"))]
    register(world, Contract(
        func=EVO, serves=["C08", "C01"], scenarios=scen,
        raises=[("ValueError", f"not ({IN_LABWARE})")],
        returns="1 + (ghost_c - 1) * length(labware.row_ids) + ghost_r",
        ensures=[
            ("range", "1 <= result and result <= length(labware.row_ids) * length(labware.column_ids)", ["C08"]),
            ("attr-positions", "result == labware._positions[well]", ["C08"]),
        ],
        native={"imports": ["from robotools.evotools.utils import get_well_position"], "call": "get_well_position(labware, well)",
                "observe": {"obs_rows": "len(labware.row_ids)", "obs_cols": "len(labware.column_ids)"},
                "check_raises": False, "returns_native": False,
                "clause_text": {"range": "1 <= result <= obs_rows * obs_cols",
                                "attr-positions": "result == labware._positions[well] and result == 1 + (int(well[1:]) - 1) * obs_rows + 'ABCDEFGHIJKLMNOPQRSTUVWXYZ'.index(well[0])"}},
    ))
    register(world, Contract(
        func=FLU, serves=["C08", "C01"], scenarios=scen,
        # the Fluent numbering of a trough ignores the virtual row: only the column has to exist there
        raises=[("ValueError", "not (ghost_c <= length(labware.column_ids) and (labware.virtual_rows is not None or ghost_r < length(labware.row_ids)))")],
        returns="(ghost_c if labware.virtual_rows is not None else 1 + (ghost_c - 1) * length(labware.row_ids) + ghost_r)",
        ensures=[
            ("range", "1 <= result and result <= length(labware.row_ids) * length(labware.column_ids)", ["C08"]),
        ],
        native={"imports": ["from robotools.fluenttools.utils import get_well_position"], "call": "get_well_position(labware, well)",
                "observe": {"obs_rows": "len(labware.row_ids)", "obs_cols": "len(labware.column_ids)", "obs_trough": "labware.virtual_rows is not None"},
                "check_raises": False, "returns_native": False,
                "clause_text": {"range": "result == (int(well[1:]) if obs_trough else 1 + (int(well[1:]) - 1) * obs_rows + 'ABCDEFGHIJKLMNOPQRSTUVWXYZ'.index(well[0]))"}},
    ))


from pyvc.contract import Lemma  # noqa: E402


def _lemmas(world):
    def bij(ex):
        R, C, r, c, r2, c2, p = (z3.Int(n) for n in ("R", "C", "r", "c", "r2", "c2", "p"))
        dom = z3.And(R >= 1, C >= 1, r >= 0, r < R, c >= 0, c < C, r2 >= 0, r2 < R, c2 >= 0, c2 < C)
        pos = lambda a, b: 1 + b * R + a  # noqa: E731
        yield "pos-injective", z3.Implies(z3.And(dom, pos(r, c) == pos(r2, c2)), z3.And(r == r2, c == c2))
        yield "pos-range", z3.Implies(dom, z3.And(pos(r, c) >= 1, pos(r, c) <= R * C))
        # surjective with the inverse ((p-1) mod R, (p-1) div R), stated multiplicatively
        q, m = z3.Int("q"), z3.Int("m")
        yield "pos-inverse", z3.Implies(z3.And(R >= 1, C >= 1, p >= 1, p <= R * C, p - 1 == q * R + m, m >= 0, m < R),
                                        z3.And(q >= 0, q < C, pos(m, q) == p))
        yield "fluent-trough-injective", z3.Implies(z3.And(c >= 0, c2 >= 0, 1 + c == 1 + c2), c == c2)
        # EVO and Fluent agree on every non-trough labware (same formula) - and differ on troughs only in dropping the row
        yield "evo-fluent-agree-on-plates", z3.Implies(dom, pos(r, c) == 1 + c * R + r)

    world.lemmas.append(Lemma("C08/numbering-bijections", ["C08"], bij))


_old_install = install


def _helpers(world):
    """the well-array helpers of robotools.transform agree with the labware's own id array and index map"""
    from pyvc.params import sint

    def rc(ex):
        return {"R": sint("R"), "C": sint("C")}

    req = ["R >= 1", "R <= 26", "C >= 1"]
    register(world, Contract(
        func="robotools.transform.make_well_array", serves=["C08", "C15"],
        scenarios=[Scenario("R rows x C columns", rc, requires=req)],
        ensures=[("ids-row-letter-and-2-digit-column", "same(result, arr2(R, C, lambda r, c: well(r, c + 1)))", ["C08", "C15"])],
    ))
    register(world, Contract(
        func="robotools.transform.make_well_index_dict", serves=["C08", "C15"],
        scenarios=[Scenario("R rows x C columns", rc, requires=req)],
        ensures=[("ids-to-indices", "index_dict_ok(result, R, C)", ["C08", "C15"])],
    ))


def install(world):  # noqa: F811
    _old_install(world)
    _lemmas(world)
    _helpers(world)
