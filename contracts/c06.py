"""C06 - large-volume handling."""
import z3

from pyvc.contract import Contract, Scenario, register
from pyvc.params import sint, sreal
from pyvc.ops import FloatQ

PV = "robotools.worklists.utils.partition_volume"


def _pv_make(kind):
    def make(ex):
        return {"volume": sreal("volume"), "max_volume": sint("max_volume") if kind == "int" else sreal("max_volume")}

    return make


def install(world):
    register(world, Contract(
        func=PV,
        serves=["C06"],
        requires=["volume >= 0", "max_volume > 0"],
        scenarios=[
            Scenario("max_volume:int", _pv_make("int"), note="max_volume a Python int, volume a finite float"),
            Scenario("max_volume:float", _pv_make("real"), note="max_volume and volume finite floats"),
        ],
        raises=[],
        ensures=[
            ("count", "length(result) == (0 if volume == 0 else max(1, ceil_div(volume, max_volume)))", ["C06"]),
            ("bounds", "forall(0, length(result), lambda i: 0 < result[i] and result[i] <= max_volume)", ["C06"]),
            ("sum", "seqsum(result) == volume", ["C06"]),
        ],
        native={"imports": ["from robotools.worklists.utils import partition_volume"], 
                # called twice with the first result spoiled in between (a memoised / shared result list fails the same clauses)
                "call": "(lambda first: (first.append(-1.0), partition_volume(volume, max_volume=max_volume))[1])(partition_volume(volume, max_volume=max_volume))"},
    ))
