"""C10 (tip masks) and the validation half of C09: int_to_tip, prepare_aspirate_dispense_parameters."""
import z3

from pyvc.contract import Contract, Scenario, register
from pyvc.engine import LoopSpec
from pyvc.params import int_fn, sint, slist, sreal, sstr
from pyvc.values import EnumV, Opaque, SeqV, Sym

I2T = "robotools.evotools.types.int_to_tip"
PREP = "robotools.worklists.utils.prepare_aspirate_dispense_parameters"

TIPVALS = [-1, 1, 2, 4, 8, 16, 32, 64, 128]


def sym_tip(name, allow_any=True):
    v = z3.Int(name)
    return EnumV("Tip", Sym(v, "int")), z3.Or(*[v == x for x in TIPVALS if allow_any or x != -1])


def base_args(ex, **over):
    """all parameters well-typed and symbolic; `over` replaces single parameters (type-cases)"""
    tip, tipc = sym_tip("tip")
    ex.p.assume(tipc)
    env = {
        "rack_label": sstr("rack_label"), "position": sint("position"), "volume": sreal("volume"),
        "liquid_class": sstr("liquid_class"), "tip": tip, "rack_id": sstr("rack_id"), "tube_id": sstr("tube_id"),
        "rack_type": sstr("rack_type"), "forced_rack_type": sstr("forced_rack_type"), "max_volume": sreal("max_volume"),
    }
    env.update(over)
    return env


def tip_list(kind, n=None):
    """list of tip symbols: kind 'int' / 'Tip' with symbolic length, or a tuple of kinds for a concrete mixed list"""
    def make(ex):
        if isinstance(kind, tuple):
            items = []
            for i, k in enumerate(kind):
                if k == "int":
                    items.append(sint(f"tip{i}"))
                elif k == "Tip":
                    t, c = sym_tip(f"tip{i}")
                    ex.p.assume(c)
                    items.append(t)
                elif k == "float":
                    items.append(sreal(f"tip{i}"))
                elif k == "str":
                    items.append(sstr(f"tip{i}"))
                elif k == "none":
                    items.append(None)
            return base_args(ex, tip=SeqV.of("list", items))
        if kind == "int":
            seq, ln = slist("tip", int_fn("tipel"))
        else:
            f = z3.Function("tipel", z3.IntSort(), z3.IntSort())
            seq, ln = slist("tip", lambda i: EnumV("Tip", Sym(f(i if not hasattr(i, "t") else i.t) if not isinstance(i, int) else f(z3.IntVal(i)), "int")))
            j = z3.Int("jj")
            ex.p.assume(z3.ForAll([j], z3.Or(*[f(j) == x for x in TIPVALS])))
        return base_args(ex, tip=seq)

    return make


VALID_TIP = "(is_tip(tip) or (is_int(tip) and 1 <= tip and tip <= 8) or (is_collection(tip) and tip_collection_ok(tip)))"
NUMERIC_VOL = "(is_int(volume) or is_float(volume))"

REJECT = (
    "(not valid_text32(rack_label)) or (not is_int(position)) or position < 0"
    f" or (not {NUMERIC_VOL}) or is_nan(volume) or volume < 0 or volume > 7158278"
    " or (not valid_text(liquid_class))"
    f" or (not {VALID_TIP})"
    " or (not valid_text32(rack_id)) or (not valid_text(tube_id)) or (not valid_text32(rack_type)) or (not valid_text32(forced_rack_type))"
)
# InvalidOperationError: volume is fine as a number but exceeds max_volume (raised before the later text checks)
TOO_BIG = (
    f"valid_text32(rack_label) and is_int(position) and position >= 0 and {NUMERIC_VOL} and (not is_nan(volume))"
    " and volume >= 0 and volume <= 7158278 and (not is_none(max_volume)) and volume > max_volume"
)


def install(world):
    register(world, Contract(
        func=I2T, serves=["C10"],
        scenarios=[Scenario("tip_int:int", lambda ex: {"tip_int": sint("tip_int")})],
        raises=[("ValueError", "tip_int < 1 or tip_int > 8")],
        returns="tip_of_int(tip_int)",
        ensures=[("member", "is_tip(result) and result.value == pow2(tip_int - 1)", ["C10"])],
        native={"imports": ["from robotools.evotools.types import int_to_tip"], "call": "int_to_tip(tip_int)",
                "returns_native": False, "clause_text": {"member": "type(result).__name__ == 'Tip' and result.value == 2 ** (tip_int - 1)"}},
    ))

    scen = [
        Scenario("all well-typed, tip:Tip member", lambda ex: base_args(ex)),
        Scenario("tip:int", lambda ex: base_args(ex, tip=sint("tip"))),
        Scenario("tip:list[int] (any length)", tip_list("int"), requires=["length(tip) >= 0"]),
        Scenario("tip:list[Tip] (any length)", tip_list("Tip"), requires=["length(tip) >= 0"]),
        Scenario("tip:[int,Tip]", tip_list(("int", "Tip"))),
        Scenario("tip:[Tip,int]", tip_list(("Tip", "int"))),
        Scenario("tip:[Tip,int,Tip]", tip_list(("Tip", "int", "Tip"))),
        Scenario("tip:[int,float]", tip_list(("int", "float"))),
        Scenario("tip:[str]", tip_list(("str",))),
        Scenario("tip:[None]", tip_list(("none",))),
        Scenario("tip:float", lambda ex: base_args(ex, tip=sreal("tip"))),
        Scenario("tip:None", lambda ex: base_args(ex, tip=None)),
        Scenario("tip:str", lambda ex: base_args(ex, tip=Opaque("object"))),
        Scenario("max_volume:None", lambda ex: base_args(ex, max_volume=None)),
        Scenario("max_volume:int", lambda ex: base_args(ex, max_volume=sint("max_volume"))),
        Scenario("volume:int", lambda ex: base_args(ex, volume=sint("volume"))),
        Scenario("volume:nan", lambda ex: base_args(ex, volume=float("nan"))),
        Scenario("volume:+inf", lambda ex: base_args(ex, volume=float("inf"))),
        Scenario("volume:-inf", lambda ex: base_args(ex, volume=float("-inf"))),
        Scenario("volume:None", lambda ex: base_args(ex, volume=None)),
        Scenario("volume:other object", lambda ex: base_args(ex, volume=Opaque("object"))),
        Scenario("position:float", lambda ex: base_args(ex, position=sreal("position"))),
        Scenario("position:None", lambda ex: base_args(ex, position=None)),
        Scenario("position:str", lambda ex: base_args(ex, position=sstr("position"))),
        Scenario("position:numpy int", lambda ex: base_args(ex, position=sint("position", np=True))),
    ]
    for pname in ("rack_label", "liquid_class", "rack_id", "tube_id", "rack_type", "forced_rack_type"):
        scen.append(Scenario(f"{pname}:None", (lambda p: lambda ex: base_args(ex, **{p: None}))(pname)))
        scen.append(Scenario(f"{pname}:int", (lambda p: lambda ex: base_args(ex, **{p: sint(p)}))(pname)))
    register(world, Contract(
        func=PREP, serves=["C09", "C10"],
        scenarios=scen,
        raises=[("ValueError", REJECT), ("InvalidOperationError", TOO_BIG)],
        returns="(rack_label, position, fmt_volume(as_float(volume)), liquid_class, ('' if tipmask(tip) == -1 else tipmask(tip)),"
                " rack_id, tube_id, rack_type, forced_rack_type)",
        ensures=[
            ("mask", "result[4] == ('' if tipmask(tip) == -1 else tipmask(tip))", ["C10"]),
            ("fields-valid", "valid_text32(result[0]) and valid_text(result[3]) and valid_text32(result[5]) and valid_text(result[6])"
                             " and valid_text32(result[7]) and valid_text32(result[8]) and valid_text(result[2])", ["C09"]),
            ("position", "is_int(result[1]) and result[1] >= 0 and result[1] == position", ["C09"]),
        ],
        loops={0: LoopSpec(k="k", defs={"tips": "seq_of(k, lambda i: (tip[i] if is_tip(tip[i]) else tip_of_int(tip[i])))"},
                           invariants=["forall(0, k, lambda i: tip_number_ok(tip[i]))"])},
        policy={},
        native={"imports": ["from robotools.worklists.utils import prepare_aspirate_dispense_parameters"],
                "call": "prepare_aspirate_dispense_parameters(rack_label, position, volume, liquid_class, tip, rack_id, tube_id, rack_type, forced_rack_type, max_volume=max_volume)"},
    ))
