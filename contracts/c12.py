"""C12 - the EVO well-selection string: to_hex, evo_get_selection (loop invariants), evo_make_selection_array."""
import z3

from pyvc.contract import Contract, Scenario, register
from pyvc.engine import HostFn, LoopSpec
from pyvc.ops import mk_num
from pyvc.params import sint
from pyvc.values import Arr2V, Sym, term

TOHEX = "robotools.evotools.utils.to_hex"
SEL = "robotools.evotools.commands.evo_get_selection"


def _sel_make(ex):
    rows, cols = z3.Int("rows"), z3.Int("cols")
    S = z3.Function("S", z3.IntSort(), z3.IntSort(), z3.IntSort())  # selected[y, x]
    K = z3.Function("selk", z3.IntSort(), z3.IntSort())  # column-major linearisation of `selected`
    y, x, j = z3.Int("qy"), z3.Int("qx"), z3.Int("qj")
    p = ex.p
    p.assume(z3.ForAll([y, x], z3.Or(S(y, x) == 0, S(y, x) == 1)))
    # definition of the ghost linearisation: selk(x*rows + y) = selected[y, x]
    p.assume(z3.ForAll([x, y], z3.Implies(z3.And(x >= 0, x < cols, y >= 0, y < rows), K(x * rows + y) == S(y, x))))
    p.assume(z3.ForAll([j], z3.Or(K(j) == 0, K(j) == 1)))

    def gmask(g):
        return sum(K(7 * g + b) * (2 ** b) for b in range(7))

    # spec function evo_body(g): the payload characters of the first g complete groups of seven wells,
    # defined by recursion: evo_body(0) = "", evo_body(j+1) = evo_body(j) ++ chr(48 + group_mask(j))
    BODY = z3.Function("evo_body", z3.IntSort(), z3.StringSort())
    p.assume(BODY(0) == z3.StringVal(""))

    def unfold(ex_, g):
        """instance of the defining equation of evo_body at g (sound: it is the definition)"""
        gt = term(g, "int")
        ex_.p.assume(z3.Implies(gt >= 0, BODY(gt + 1) == z3.Concat(BODY(gt), z3.StrFromCode(48 + gmask(gt)))))
        return True

    def body_len(ex_, g):
        """instance of the lemma len(evo_body(g)) == g (proved by induction: lemma C12/evo_body-length)"""
        gt = term(g, "int")
        ex_.p.assume(z3.Implies(gt >= 0, z3.Length(BODY(gt)) == gt))
        return True

    def partial(g, bc):
        return sum(z3.If(b < bc, K(7 * g + b) * (2 ** b), 0) for b in range(6))

    selected = Arr2V(rows, cols, lambda a, b: Sym(S(_t(a), _t(b)), "int"))
    return {
        "rows": sint("rows"), "cols": sint("cols"), "selected": selected,
        "ghost_selk": HostFn(lambda ex_, k: Sym(K(term(k, "int")), "int"), "selk"),
        "ghost_body": HostFn(lambda ex_, g: Sym(BODY(term(g, "int")), "str"), "evo_body"),
        "ghost_partial": HostFn(lambda ex_, g, bc: mk_num(partial(term(g, "int"), term(bc, "int")), "int"), "partial_mask"),
        "ghost_unfold": HostFn(unfold, "evo_body_unfold"), "ghost_body_len": HostFn(body_len, "evo_body_len"),
        "ghost_gmask": HostFn(lambda ex_, g: mk_num(gmask(term(g, "int")), "int"), "group_mask"),
    }


def _t(i):
    return z3.IntVal(i) if isinstance(i, int) else (i.t if isinstance(i, Sym) else i)


def install(world):
    register(world, Contract(
        func=TOHEX, serves=["C12"],
        requires=["dec >= 0"],
        scenarios=[Scenario("dec:int >= 0", lambda ex: {"dec": sint("dec")})],
        raises=[],
        fresh_result="str", decreases="dec",
        ensures=[
            ("value", "hexval(result) == dec", ["C12"]),
            ("len>=1", "length(result) >= 1", ["C12"]),
            ("len-1-digit", "implies(dec < 16, length(result) == 1)", ["C12"]),
            ("len-2-digits", "implies(16 <= dec and dec < 256, length(result) == 2)", ["C12"]),
            ("one-digit", "implies(dec < 16, result == hexdigit(dec))", ["C12"]),
            ("two-digits", "implies(16 <= dec and dec < 256, result == hexdigit(dec // 16) + hexdigit(dec % 16))", ["C12"]),
        ],
        policy={TOHEX: "contract"},
        native={"imports": ["from robotools.evotools.utils import to_hex"], "call": "to_hex(dec)",
                "clause_text": {"value": "int(result, 16) == dec and result == result.upper()", "len>=1": "len(result) >= 1",
                                "len-1-digit": "dec >= 16 or len(result) == 1", "len-2-digits": "not (16 <= dec < 256) or len(result) == 2",
                                "one-digit": "dec >= 16 or result == '0123456789ABCDEF'[dec]",
                                "two-digits": "not (16 <= dec < 256) or result == '0123456789ABCDEF'[dec // 16] + '0123456789ABCDEF'[dec % 16]"}},
    ))
    world.contracts[TOHEX].shards = 1
    G_OUT = "((kx * rows - bit_counter) // 7)"
    G_IN = "((x * rows + ky - bit_counter) // 7)"
    register(world, Contract(
        func=SEL, serves=["C12"],
        requires=["1 <= rows", "rows <= 255", "1 <= cols", "cols <= 255"],
        scenarios=[Scenario("rows, cols in 1..255, any 0/1 selection array", _sel_make)],
        raises=[],
        ensures=[
            ("length", "length(result) == 4 + ceil_div(rows * cols, 7)", ["C12"]),
            ("format-whole-groups", "implies((rows * cols) % 7 == 0, result == hex2(cols) + hex2(rows) + ghost_body((rows * cols) // 7))", ["C12"]),
            ("format-partial-group", "implies((rows * cols) % 7 != 0, result == hex2(cols) + hex2(rows) + ghost_body((rows * cols) // 7) + "
                                     "chr(48 + ghost_partial((rows * cols) // 7, (rows * cols) % 7)))", ["C12"]),
        ],
        loops={
            0: LoopSpec(k="kx", invariants=[
                "0 <= bit_counter and bit_counter <= 6",
                "(kx * rows - bit_counter) % 7 == 0",
                f"bit_mask == ghost_partial({G_OUT}, bit_counter)",
                f"selection == pre0_selection + ghost_body({G_OUT})",
            ], havoc_types={"selection": "str"}, exit_asserts=[
                "pre0_selection == hex2(cols) + hex2(rows)",
                "bit_counter == (rows * cols) % 7",
                "(rows * cols - bit_counter) // 7 == (rows * cols) // 7",
                "selection == hex2(cols) + hex2(rows) + ghost_body((rows * cols) // 7)",
                "ghost_body_len((rows * cols) // 7)",
                "bit_mask == ghost_partial((rows * cols) // 7, (rows * cols) % 7)",
            ]),
            1: LoopSpec(k="ky", invariants=[
                "0 <= bit_counter and bit_counter <= 6",
                "(x * rows + ky - bit_counter) % 7 == 0",
                f"bit_mask == ghost_partial({G_IN}, bit_counter)",
                f"selection == pre0_selection + ghost_body({G_IN})",
            ], havoc_types={"selection": "str"}, asserts=["ghost_selk(x * rows + y) == selected[y, x]",
                                                               f"ghost_unfold({G_IN})"],
                split=("bit_counter", list(range(7)))),
        },
        policy={TOHEX: "contract"},
        native={"imports": ["from robotools.evotools.commands import evo_get_selection"], "call": "evo_get_selection(rows, cols, selected)",
                "check_raises": False, "returns_native": False,
                "clause_text": {"length": "len(result) == 4 + -(-(rows * cols) // 7)", "format-whole-groups": "True", "format-partial-group": "int(result[0:2], 16) == cols and int(result[2:4], 16) == rows and len(result[0:4]) == 4 and ''.join(ch for ch in result[:4] if ch in '0123456789ABCDEF') == result[:4] and " + "all(((ord(result[4 + k // 7]) - 48) >> (k % 7)) & 1 == int(selected[k % rows][k // rows]) for k in range(rows * cols)) and all(((ord(result[4 + k // 7]) - 48) >> (k % 7)) & 1 == 0 for k in range(rows * cols, 7 * (len(result) - 4)))"}},
    ))


from pyvc.contract import Lemma  # noqa: E402


def _lemma_len(ex):
    """len(evo_body(j)) == j by induction on j, for any 0/1 linearisation selk"""
    K = z3.Function("selk", z3.IntSort(), z3.IntSort())
    BODY = z3.Function("evo_body", z3.IntSort(), z3.StringSort())
    j, q = z3.Int("j"), z3.Int("q")
    bits = z3.ForAll([q], z3.Or(K(q) == 0, K(q) == 1))
    g = sum(K(7 * j + b) * (2 ** b) for b in range(7))
    yield "base", z3.Implies(BODY(0) == z3.StringVal(""), z3.Length(BODY(0)) == 0)
    yield "step", z3.Implies(z3.And(bits, j >= 0, z3.Length(BODY(j)) == j, BODY(j + 1) == z3.Concat(BODY(j), z3.StrFromCode(48 + g))),
                             z3.Length(BODY(j + 1)) == j + 1)


_inst0 = install


def install(world):  # noqa: F811
    _inst0(world)
    world.contracts[SEL].shards = 12
    world.contracts[SEL].shard_by = "vc"
    world.lemmas.append(Lemma("C12/evo_body-length", ["C12"], _lemma_len))
