"""C07 / C01 / C11 / C06 (operation level): EvoWorklist.transfer and FluentWorklist.transfer on small symbolic shapes
(1-2 triples, no splitting needed); larger shapes and splitting are covered by the bounded monitors."""
import z3

from pyvc.contract import Contract, Scenario, register
from pyvc.models import sym_labware, sym_worklist
from pyvc.params import sreal, sstr
from pyvc.values import MapV, SeqV, Sym, WellV
from contracts.c10 import sym_tip

B = "robotools.worklists.base.BaseWorklist."
LW = "robotools.liquidhandling.labware.Labware."
EVO_T = "robotools.evotools.worklist.EvoWorklist.transfer"
FLU_T = "robotools.fluenttools.worklist.FluentWorklist.transfer"


def well2(ex, name):
    r, c = z3.Int(name + "_r"), z3.Int(name + "_c")
    ex.p.assume(z3.And(r >= 0, r < 26, c >= 1, c <= 99))
    return WellV(r, c)


def t_scen(device, n, src_trough, wash, partition_by, auto_split, same=False, diti=False, kw=False, thorough_only=False):
    def make(ex):
        wl = sym_worklist(ex, device, auto_split=auto_split, diti_mode=diti)
        src = sym_labware(ex, "S", src_trough)
        dst = src if same else sym_labware(ex, "D", False)
        if n == 1:
            sw, dw, vol = well2(ex, "s0"), well2(ex, "d0"), sreal("v0")
        else:
            sw = SeqV.of("list", [well2(ex, f"s{i}") for i in range(n)])
            dw = SeqV.of("list", [well2(ex, f"d{i}") for i in range(n)])
            vol = SeqV.of("list", [sreal(f"v{i}") for i in range(n)])
        env = {"self": wl, "source": src, "source_wells": sw, "destination": dst, "destination_wells": dw, "volumes": vol,
               "label": sstr("label"), "wash_scheme": wash, "partition_by": partition_by}
        if kw:
            t, c = sym_tip("tip")
            ex.p.assume(c)
            env["kwargs"] = MapV(items=[("liquid_class", sstr("liquid_class")), ("tip", t)])
        else:
            env["kwargs"] = MapV(items=[])
        return env

    reqs = ["printable(label)", "printable(source.name)", "printable(destination.name)",
            # known finding (C11): the labels 'first' / 'last' are interpreted as directives by condense_log
            "label != 'first'", "label != 'last'",
            # no splitting needed: every volume is below the worklist's max_volume (splitting is covered by the bounded monitor)
            "forall(0, length(colmajor(volumes)), lambda i: colmajor(volumes)[i] < self.max_volume)"]
    if kw:
        reqs.append("printable(kw(kwargs, 'liquid_class', ''))")
    name = (f"{n} triple(s), source {'trough' if src_trough else 'plate'}{' = destination' if same else ''}, wash_scheme={wash!r}, "
            f"partition_by={partition_by!r}, auto_split={auto_split}, diti_mode={diti}, kwargs:{'liquid_class+tip' if kw else 'none'}")
    return Scenario(name, make, requires=reqs, thorough_only=thorough_only)


def scenarios(device):
    return [
        t_scen(device, 1, False, 1, "auto", True),
        t_scen(device, 1, True, "flush", "auto", True, kw=True),
        t_scen(device, 1, False, "reuse", "source", False, diti=True),
        t_scen(device, 1, False, 3, "auto", True, same=True),
        t_scen(device, 2, False, 2, "auto", True, thorough_only=True),
        t_scen(device, 2, True, 1, "auto", True, thorough_only=True),
        t_scen(device, 2, False, "flush", "destination", False, thorough_only=True),
        t_scen(device, 2, False, 1, "source", True, same=True, thorough_only=True),
    ]


N = "length(colmajor(source_wells))"
ORDER = "transfer_order(source, destination, source_wells, destination_wells, partition_by)"  # spec: column-major groups, rows ascending
S_I = "colmajor(source_wells)[o]"
D_I = "colmajor(destination_wells)[o]"
V_I = "colmajor(volumes)[o]"
BLOCKS = (f"concat_blocks({ORDER}, lambda o: {V_I} > 0, lambda o: [ad_record('A', self, source, {S_I}, {V_I}, kwargs), "
          f"ad_record('D', self, destination, {D_I}, {V_I}, kwargs)] + tip_action(self, wash_scheme))")


def t_contract(func, device):
    return Contract(
        func=func, serves=["C07", "C01", "C11", "C03"],
        scenarios=scenarios(device),
        raises=[("AssertionError", None), ("ValueError", None), ("KeyError", None), ("VolumeUnderflowError", None), ("VolumeOverflowError", None),
                ("InvalidOperationError", None)],
        ensures=[
            ("records", f"same(records(self), records(old_self) + comment_records(label) + {BLOCKS})", ["C07", "C01"]),
            ("source-tracked", "implies_host(not_aliased(source, destination), same(source._volumes, vol_minus(old_source._volumes, contrib(source, source_wells, volumes))))", ["C01", "C07"]),
            ("destination-tracked", "implies_host(not_aliased(source, destination), same(destination._volumes, vol_plus(old_destination._volumes, contrib(destination, destination_wells, volumes))))", ["C01", "C07"]),
            ("one-history-entry", "length(source._history) == length(old_source._history) + 1 and length(destination._history) == length(old_destination._history) + 1"
                                  " and same(last(source._history), source._volumes) and same(last(destination._history), destination._volumes)", ["C11"]),
            ("history-prefix-kept", "forall(0, length(old_source._history), lambda i: same(source._history[i], old_source._history[i]) and source._labels[i] == old_source._labels[i])", ["C11"]),
            ("history-label", "last(source._labels) == label and last(destination._labels) == label", ["C11"]),
        ],
        exc_ensures=[
            ("only-accepted-steps-recorded", f"is_prefix(records(self), records(old_self) + comment_records(label) + {BLOCKS})", ["C03"]),
        ],
        policy={LW + "remove": "contract", LW + "add": "contract", B + "aspirate_well": "contract", B + "dispense_well": "contract"},
    )


def install(world):
    # the 2-triple scenarios of the thorough tier have ~300 paths each: split them over worker processes
    for ct in (register(world, t_contract(EVO_T, "EvoWorklist")), register(world, t_contract(FLU_T, "FluentWorklist"))):
        ct.shards, ct.shard_big_only = 6, True
