"""C20 - every labware the constructors accept is internally consistent (establishes wf(L))."""
import z3

from pyvc.contract import Contract, Scenario, register
from pyvc.models import classv
from pyvc.params import real_fn, sint, slist, sreal, sstr
from pyvc.values import Arr2V, Obj, Sym

INIT = "robotools.liquidhandling.labware.Labware.__init__"
GIC = "robotools.liquidhandling.composition.get_initial_composition"


def new_obj(ex, cls="Labware"):
    return Obj(cls, {"__class__": classv(ex, "robotools.liquidhandling.labware", cls)})


def args(ex, **over):
    env = {"self": new_obj(ex), "name": sstr("name"), "rows": sint("rows"), "columns": sint("columns"),
           "min_volume": sreal("min_volume"), "max_volume": sreal("max_volume"), "initial_volumes": None, "virtual_rows": None,
           "component_names": None}
    for k, v in over.items():
        env[k] = v(ex) if callable(v) else v
    return env


def iv_list(ex):
    seq, n = slist("initial_volumes", real_fn("iv"))
    ex.p.assume(n >= 0)
    return seq


def iv_2d(ex):
    R2, C2 = z3.Int("ivR"), z3.Int("ivC")
    ex.p.assume(z3.And(R2 >= 0, C2 >= 0))
    f = z3.Function("iv2", z3.IntSort(), z3.IntSort(), z3.RealSort())
    return Arr2V(R2, C2, lambda a, b: Sym(f(_t(a), _t(b)), "real"))


def _t(i):
    return z3.IntVal(i) if isinstance(i, int) else (i.t if isinstance(i, Sym) else i)


ROWS_OK = "(is_int(rows) and 1 <= rows and rows <= 26)"
COLS_OK = "(is_int(columns) and 1 <= columns)"
MIN_OK = "((not is_none(min_volume)) and (not is_nan(min_volume)) and min_volume >= 0)"
MAX_OK = "((not is_none(max_volume)) and (not is_nan(max_volume)) and max_volume > min_volume)"
VR_OK = "(is_none(virtual_rows) or (rows == 1 and is_int(virtual_rows) and 1 <= virtual_rows and virtual_rows <= 26))"
IV = "init_vols(initial_volumes, rows, columns)"  # spec: the volumes laid out as given (scalar broadcast / row-major)
IV_OK = (f"(iv_count_ok(initial_volumes, rows, columns) and forall2(rows, columns, lambda r, c: is_finite({IV}[r, c]) and"
         f" {IV}[r, c] >= 0 and {IV}[r, c] <= max_volume))")
ACCEPT = f"({ROWS_OK} and {COLS_OK} and {MIN_OK} and {MAX_OK} and {VR_OK} and {IV_OK})"
NR = "(virtual_rows if not is_none(virtual_rows) else rows)"  # number of row ids


def install(world):
    register(world, Contract(
        func=GIC, serves=["C20", "C05"], key=GIC + "#summary",
        scenarios=[],
        raises=[("ValueError", "bad_component_names(real_wells, component_names, initial_volumes)")],
        returns="initial_composition(name, real_wells, component_names, initial_volumes)",
    ))
    scen = [
        Scenario("plate, no initial volumes", lambda ex: args(ex)),
        Scenario("plate, scalar initial volume", lambda ex: args(ex, initial_volumes=sreal("iv0"))),
        Scenario("plate, scalar initial volume nan", lambda ex: args(ex, initial_volumes=float("nan"))),
        Scenario("plate, scalar initial volume +inf", lambda ex: args(ex, initial_volumes=float("inf"), max_volume=float("inf"))),
        Scenario("plate, flat list of initial volumes", lambda ex: args(ex, initial_volumes=iv_list)),
        Scenario("plate, 2-D initial volumes of the labware's shape", lambda ex: args(ex, initial_volumes=iv_2d),
                 requires=["shape_is(initial_volumes, rows, columns)"]),
        Scenario("virtual_rows:int, scalar initial volume", lambda ex: args(ex, virtual_rows=sint("virtual_rows"), initial_volumes=sreal("iv0"))),
        Scenario("virtual_rows:int, flat list", lambda ex: args(ex, virtual_rows=sint("virtual_rows"), initial_volumes=iv_list)),
        Scenario("virtual_rows:float", lambda ex: args(ex, virtual_rows=sreal("virtual_rows"))),
        Scenario("rows:float", lambda ex: args(ex, rows=sreal("rows"))),
        Scenario("rows:None", lambda ex: args(ex, rows=None)),
        Scenario("columns:float", lambda ex: args(ex, columns=sreal("columns"))),
        Scenario("columns:str", lambda ex: args(ex, columns=sstr("columns"))),
        Scenario("min_volume:None", lambda ex: args(ex, min_volume=None)),
        Scenario("min_volume:nan", lambda ex: args(ex, min_volume=float("nan"))),
        Scenario("max_volume:None", lambda ex: args(ex, max_volume=None)),
        Scenario("max_volume:nan", lambda ex: args(ex, max_volume=float("nan"))),
        Scenario("max_volume:+inf", lambda ex: args(ex, max_volume=float("inf"), initial_volumes=sreal("iv0"))),
    ]
    register(world, Contract(
        func=INIT, serves=["C20", "C08", "C02", "C04"],
        scenarios=scen,
        raises=[("ValueError", f"not {ACCEPT}")],
        ensures=[
            ("grid-ids", f"length(self.row_ids) == {NR} and length(self.column_ids) == columns and "
                         f"forall(0, columns, lambda c: self.column_ids[c] == c + 1)", ["C20", "C08"]),
            ("wells-array", f"same(self._wells, arr2({NR}, columns, lambda r, c: well(r, c + 1)))", ["C20", "C08"]),
            ("volumes-layout", f"same(self._volumes, arr2(rows, columns, lambda r, c: {IV}[r, c]))", ["C20"]),
            ("index-map", f"forall2({NR}, columns, lambda r, c: known_well(self, well(r, c + 1)) and "
                          f"real_index(self, well(r, c + 1)) == ((0 if not is_none(virtual_rows) else r), c))", ["C20", "C08"]),
            ("index-map-nothing-else", f"forall2(26, columns + 5, lambda r, c: implies(r >= {NR} or c >= columns, not known_well(self, well(r, c + 1))))", ["C20", "C08"]),
            ("positions", f"forall2({NR}, columns, lambda r, c: self._positions[well(r, c + 1)] == 1 + c * {NR} + r)", ["C20", "C08"]),
            ("limits", "0 <= self.min_volume and self.min_volume < self.max_volume and "
                       "forall2(rows, columns, lambda r, c: 0 <= self._volumes[r, c] and self._volumes[r, c] <= self.max_volume)", ["C20", "C02"]),
            ("history", "length(self._history) == 1 and same(self._history[0], self._volumes) and not_aliased(self._history[0], self._volumes)"
                        " and length(self._labels) == 1 and self._labels[0] == 'initial'", ["C20", "C11"]),
            ("own-volume-array", "not_aliased(self._volumes, live_initial_volumes) if is_arraylike(initial_volumes) else True", ["C20", "C04", "C02"]),
            ("attributes", "self.name == name and self.min_volume == min_volume and self.max_volume == max_volume and "
                           "(self.virtual_rows is None if is_none(virtual_rows) else self.virtual_rows == virtual_rows)", ["C20"]),
        ],
        policy={GIC: lambda ex, fv, env: __import__("pyvc.contract", fromlist=["apply_contract"]).apply_contract(ex, ex.w.contracts[GIC + "#summary"], fv, env)},
        native={"imports": ["from pyvc.native_io import _make_labware"], "check_raises": False, "returns_native": False,
                "call": "_make_labware(name, rows, columns, min_volume, max_volume, initial_volumes, virtual_rows)",
                "clause_text": {k: f"result['{k}']" for k in ("own-volume-array", "grid-ids", "wells-array", "volumes-layout", "index-map", "index-map-nothing-else",
                                                               "positions", "limits", "history", "attributes")}},
    ))


# ----------------------------------------------------------------------------- Trough.__init__ (1 and 2 columns; everything else symbolic)

TROUGH = "robotools.liquidhandling.labware.Trough.__init__"


def trough_args(ex, columns, names="none", vols="scalar", virtual_rows="int"):
    from pyvc.values import SeqV

    env = {"self": new_obj(ex, "Trough"), "name": sstr("name"), "columns": columns,
           "virtual_rows": sint("virtual_rows") if virtual_rows == "int" else sreal("virtual_rows"),
           "min_volume": sreal("min_volume"), "max_volume": sreal("max_volume")}
    if vols == "scalar":
        env["initial_volumes"] = sreal("iv0")
    elif vols == "default":
        pass
    else:
        env["initial_volumes"] = SeqV.of("list", [sreal(f"iv{c}") for c in range(vols)])
    if names == "none":
        env["column_names"] = None
    elif names == "str":
        env["column_names"] = sstr("cname")
    else:
        env["column_names"] = SeqV.of("list", [None if k is None else sstr(f"cname{i}") for i, k in enumerate(names)])
    return env


def tscen(columns, names="none", vols="scalar", virtual_rows="int"):
    return Scenario(f"{columns} column(s), column_names={names}, initial_volumes={vols}, virtual_rows:{virtual_rows}",
                    lambda ex: trough_args(ex, columns, names, vols, virtual_rows))


TVR_OK = "(is_int(virtual_rows) and 1 <= virtual_rows and virtual_rows <= 26)"
T_ACCEPT = f"({TVR_OK} and {MIN_OK} and {MAX_OK} and trough_args_ok(columns, column_names, initial_volumes, max_volume))"

_install_c20 = install


def install(world):  # noqa: F811
    _install_c20(world)
    register(world, Contract(
        func=TROUGH, serves=["C20", "C05", "C08"],
        scenarios=[tscen(1), tscen(2), tscen(1, "str"), tscen(2, "str"), tscen(2, ["str", None], 2), tscen(2, [None, None], 2), tscen(2, ["str", "str"], 2),
                   tscen(2, "none", 3), tscen(2, [None], 2), tscen(1, [None], 1), tscen(2, virtual_rows="float"), tscen(1, "none", "default")],
        raises=[("ValueError", f"not {T_ACCEPT}")],
        ensures=[
            ("grid-ids", "length(self.row_ids) == virtual_rows and length(self.column_ids) == columns and forall(0, columns, lambda c: self.column_ids[c] == c + 1)", ["C20", "C08"]),
            ("wells-array", "same(self._wells, arr2(virtual_rows, columns, lambda r, c: well(r, c + 1)))", ["C20", "C08"]),
            ("volumes-per-column", "trough_volumes_ok(self, columns, initial_volumes)", ["C20"]),
            ("index-map", "forall2(virtual_rows, columns, lambda r, c: known_well(self, well(r, c + 1)) and real_index(self, well(r, c + 1)) == (0, c))", ["C20", "C08"]),
            ("index-map-nothing-else", "forall2(26, columns + 5, lambda r, c: implies(r >= virtual_rows or c >= columns, not known_well(self, well(r, c + 1))))", ["C20", "C08"]),
            ("positions", "forall2(virtual_rows, columns, lambda r, c: self._positions[well(r, c + 1)] == 1 + c * virtual_rows + r)", ["C20", "C08"]),
            ("limits", "0 <= self.min_volume and self.min_volume < self.max_volume and "
                       "forall2(1, columns, lambda r, c: 0 <= self._volumes[r, c] and self._volumes[r, c] <= self.max_volume)", ["C20", "C02"]),
            ("history", "length(self._history) == 1 and same(self._history[0], self._volumes) and not_aliased(self._history[0], self._volumes)"
                        " and length(self._labels) == 1 and self._labels[0] == 'initial'", ["C20", "C11"]),
            ("attributes", "self.name == name and self.min_volume == min_volume and self.max_volume == max_volume and self.virtual_rows == virtual_rows", ["C20"]),
            ("one-100%-component-per-filled-column", "trough_composition_ok(self, name, columns, column_names, initial_volumes)", ["C20", "C05"]),
        ],
        native={"imports": ["from pyvc.native_io import _make_trough"], "check_raises": False, "returns_native": False,
                "call": "_make_trough(name, virtual_rows, columns, min_volume, max_volume, **dict(([('initial_volumes', initial_volumes)] if 'initial_volumes' in dir() else []) + [('column_names', column_names)]))",
                "clause_text": {k: f"result['{k}']" for k in ("grid-ids", "wells-array", "volumes-per-column", "index-map", "index-map-nothing-else", "positions",
                                                               "limits", "history", "attributes", "one-100%-component-per-filled-column")}},
    ))
