"""C13 - EVO script commands agree with their arguments and with the volume tracking."""
import z3

from pyvc.contract import Contract, Scenario, register
from pyvc.models import sym_labware, sym_worklist
from pyvc.params import sint, sreal, sstr
from pyvc.values import EnumV, SeqV, Sym, WellV
from contracts.c10 import I2T, sym_tip

CMD = "robotools.evotools.commands."
SELF = CMD + "evo_get_selection"
RSC = CMD + "require_single_column_selection"


def selection_summary(ex, fv, env):
    """call-site summary of evo_get_selection (its own contract, C12, fixes the meaning of the string):
    an opaque string; the arguments are recorded as ghost state so the caller's contract can check them"""
    res = ex.p.fresh("evo_selection", "str")
    ex.p.assume(z3.And(z3.Not(z3.Contains(res.t, z3.StringVal(","))), z3.Not(z3.Contains(res.t, z3.StringVal(";")))))
    ex.events.append(("evo_get_selection", {"rows": env["rows"], "cols": env["cols"], "selected": env["selected"].copy(), "result": res}))
    return res


def tip_of(ex, name, kind):
    if kind == "Tip":
        t, c = sym_tip(name)
        ex.p.assume(c)
        return t
    return sint(name)


def cmd_scen(nwells, vol_kind, tip_kinds, thorough_only=False):
    def make(ex):
        wells = []
        for i in range(nwells):
            r, c = z3.Int(f"w{i}_r"), z3.Int(f"w{i}_c")
            ex.p.assume(z3.And(r >= 0, r < 26, c >= 1, c <= 99))
            wells.append(WellV(r, c))
        R, Cn = z3.Int("n_rows"), z3.Int("n_columns")
        ex.p.assume(z3.And(R >= 1, R <= 26, Cn >= 1, Cn <= 99))
        volume = sreal("volume") if vol_kind == "scalar" else SeqV.of("list", [sreal(f"vol{i}") for i in range(nwells)])
        return {"n_rows": sint("n_rows"), "n_columns": sint("n_columns"), "wells": SeqV.of("list", wells),
                "labware_position": SeqV.of("tuple", [sint("grid"), sint("site")]), "volume": volume, "liquid_class": sstr("liquid_class"),
                "tips": SeqV.of("list", [tip_of(ex, f"tip{i}", k) for i, k in enumerate(tip_kinds)]), "arm": sint("arm"),
                "max_volume": sreal("max_volume")}

    return Scenario(f"{nwells} well(s), volume:{vol_kind}, tips:{list(tip_kinds)}", make, requires=["printable(liquid_class)", "max_volume > 0"],
                    thorough_only=thorough_only)


SCEN = [cmd_scen(1, "scalar", ("int",)), cmd_scen(1, "list", ("Tip",)), cmd_scen(2, "list", ("int", "Tip")),
        cmd_scen(2, "scalar", ("Tip", "int"), thorough_only=True), cmd_scen(2, "list", ("int", "int"), thorough_only=True)]

GRID_OK = "(1 <= labware_position[0] and labware_position[0] <= 67 and 1 <= labware_position[1] and labware_position[1] <= 128)"
VOLS = "(volume if is_arraylike(volume) else [volume] * length(wells))"
VOL_OK = f"forall(0, length({VOLS}), lambda i: {VOLS}[i] >= 0 and {VOLS}[i] <= 7158278)"
TIPS_OK = "(tip_collection_ok(tips) and strictly_ascending(tips))"
WELLS_ASC = "strictly_ascending(wells)"
IN_GRID = "forall(0, length(wells), lambda i: well_in_grid(wells[i], n_rows, n_columns))"
ONE_COL = "forall(0, length(wells), lambda i: well_col(wells[i]) == well_col(wells[0]))"
ACCEPT = f"({GRID_OK} and {VOL_OK} and valid_text(liquid_class) and {TIPS_OK} and {WELLS_ASC} and (arm == 0 or arm == 1) and {ONE_COL})"
FITS = f"forall(0, length({VOLS}), lambda i: {VOLS}[i] <= max_volume)"


def cmd_contract(name, kind):
    return Contract(
        func=CMD + name, serves=["C13", "C10"],
        scenarios=SCEN,
        raises=[("ValueError", f"not {ACCEPT}"), ("InvalidOperationError", f"{GRID_OK} and not {FITS}"),
                ("KeyError", f"not {IN_GRID}")],
        ensures=[
            ("command", f"result == evo_cmd('{kind}', wells, labware_position, volume, liquid_class, tips, arm, selection_string())", ["C13", "C10"]),
            ("selection-arguments", "selection_matches(n_rows, n_columns, wells)", ["C13"]),
        ],
        policy={SELF: selection_summary, RSC: "contract", I2T: "contract"},
    )


def install(world):
    register(world, Contract(func=RSC, serves=["C13"], scenarios=[], key=RSC,
                             raises=[("ValueError", "two_columns_selected(selection)")], note="assumed summary (validated by the bounded monitor)"))
    register(world, cmd_contract("evo_aspirate", "Aspirate")).shards = 6
    register(world, cmd_contract("evo_dispense", "Dispense")).shards = 6
