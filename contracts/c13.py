"""C13 - EVO script commands agree with their arguments and with the volume tracking."""
import z3

from pyvc.contract import Contract, Scenario, register
from pyvc.models import sym_labware, sym_worklist
from pyvc.params import sint, sreal, sstr
from pyvc.values import EnumV, SeqV, Sym, WellV
from contracts.c10 import I2T, sym_tip

CMD = "robotools.evotools.commands."
SELF = CMD + "evo_get_selection"
RSC = CMD + "require_single_column_selection"


def selection_summary(ex, fv, env):
    """call-site summary of evo_get_selection (its own contract, C12, fixes the meaning of the string):
    an opaque string; the arguments are recorded as ghost state so the caller's contract can check them"""
    res = ex.p.fresh("evo_selection", "str")
    ex.p.assume(z3.And(z3.Not(z3.Contains(res.t, z3.StringVal(","))), z3.Not(z3.Contains(res.t, z3.StringVal(";")))))
    ex.events.append(("evo_get_selection", {"rows": env["rows"], "cols": env["cols"], "selected": env["selected"].copy(), "result": res}))
    return res


def tip_of(ex, name, kind):
    if kind == "Tip":
        t, c = sym_tip(name)
        ex.p.assume(c)
        return t
    return sint(name)


def cmd_scen(nwells, vol_kind, tip_kinds, thorough_only=False):
    def make(ex):
        wells = []
        for i in range(nwells):
            r, c = z3.Int(f"w{i}_r"), z3.Int(f"w{i}_c")
            ex.p.assume(z3.And(r >= 0, r < 26, c >= 1, c <= 99))
            wells.append(WellV(r, c))
        R, Cn = z3.Int("n_rows"), z3.Int("n_columns")
        ex.p.assume(z3.And(R >= 1, R <= 26, Cn >= 1, Cn <= 99))
        volume = sreal("volume") if vol_kind == "scalar" else SeqV.of("list", [sreal(f"vol{i}") for i in range(nwells)])
        return {"n_rows": sint("n_rows"), "n_columns": sint("n_columns"), "wells": SeqV.of("list", wells),
                "labware_position": SeqV.of("tuple", [sint("grid"), sint("site")]), "volume": volume, "liquid_class": sstr("liquid_class"),
                "tips": SeqV.of("list", [tip_of(ex, f"tip{i}", k) for i, k in enumerate(tip_kinds)]), "arm": sint("arm"),
                "max_volume": sreal("max_volume")}

    return Scenario(f"{nwells} well(s), volume:{vol_kind}, tips:{list(tip_kinds)}", make, requires=["printable(liquid_class)", "max_volume > 0"],
                    thorough_only=thorough_only)


SCEN = [cmd_scen(1, "scalar", ("int",)), cmd_scen(1, "list", ("Tip",)), cmd_scen(2, "list", ("int", "Tip")),
        cmd_scen(2, "scalar", ("Tip", "int"), thorough_only=True), cmd_scen(2, "list", ("int", "int"), thorough_only=True)]

GRID_OK = "(1 <= labware_position[0] and labware_position[0] <= 67 and 1 <= labware_position[1] and labware_position[1] <= 128)"
VOLS = "(volume if is_arraylike(volume) else [volume] * length(wells))"
VOL_OK = f"forall(0, length({VOLS}), lambda i: {VOLS}[i] >= 0 and {VOLS}[i] <= 7158278)"
TIPS_OK = "(tip_collection_ok(tips) and strictly_ascending(tips))"
WELLS_ASC = "strictly_ascending(wells)"
IN_GRID = "forall(0, length(wells), lambda i: well_in_grid(wells[i], n_rows, n_columns))"
ONE_COL = "forall(0, length(wells), lambda i: well_col(wells[i]) == well_col(wells[0]))"
ACCEPT = f"({GRID_OK} and {VOL_OK} and valid_text(liquid_class) and {TIPS_OK} and {WELLS_ASC} and (arm == 0 or arm == 1) and {ONE_COL})"
FITS = f"forall(0, length({VOLS}), lambda i: {VOLS}[i] <= max_volume)"


def cmd_contract(name, kind):
    return Contract(
        func=CMD + name, serves=["C13", "C10"],
        scenarios=SCEN,
        raises=[("ValueError", f"not {ACCEPT}"), ("InvalidOperationError", f"{GRID_OK} and not {FITS}"),
                ("KeyError", f"not {IN_GRID}")],
        ensures=[
            ("selection-defined", "define_selection(n_rows, n_columns, wells)", ["C13", "C10"]),
            ("command", f"result == evo_cmd('{kind}', wells, labware_position, volume, liquid_class, tips, arm, selection_string())", ["C13", "C10"]),
        ],
        returns=f"evo_cmd('{kind}', wells, labware_position, volume, liquid_class, tips, arm, evo_sel_spec(n_rows, n_columns, wells))",
        policy={SELF: selection_summary, RSC: "contract", I2T: "contract"},
        native={"imports": [f"from robotools.evotools.commands import {name}"],
                "call": f"{name}(n_rows=n_rows, n_columns=n_columns, wells=wells, labware_position=labware_position, volume=volume, "
                        "liquid_class=liquid_class, tips=tips, arm=arm, max_volume=max_volume)",
                "clause_text": {"selection-defined": "True",
                                "command": f"result == evo_cmd('{kind}', wells, labware_position, volume, liquid_class, tips, arm, evo_sel_spec(n_rows, n_columns, wells))"}},
    )


def install(world):
    def any_selection(ex):
        from pyvc.values import Arr2V

        R, Cn = z3.Int("sel_rows"), z3.Int("sel_cols")
        ex.p.assume(z3.And(R >= 1, Cn >= 1))
        f = z3.Function("sel_at", z3.IntSort(), z3.IntSort(), z3.RealSort())
        return {"selection": Arr2V(R, Cn, lambda i, j: Sym(f(i.t if isinstance(i, Sym) else i, j.t if isinstance(j, Sym) else j), "real"), "float")}

    register(world, Contract(func=RSC, serves=["C13"], scenarios=[Scenario("any rows x cols array", any_selection)], key=RSC,
                             raises=[("ValueError", "two_columns_selected(selection)")]))
    for ct in (register(world, cmd_contract("evo_aspirate", "Aspirate")), register(world, cmd_contract("evo_dispense", "Dispense"))):
        ct.shards = 8
        ct.heavy = True  # minutes of solver time: discharged by the checks they serve (C13, C10), assumed (and listed so) elsewhere


# ----------------------------------------------------------------------------- evo_wash and the worklist methods

WASH = CMD + "evo_wash"
EW = "robotools.evotools.worklist.EvoWorklist."
LWR = "robotools.liquidhandling.labware.Labware."
INT_PARAMS = [("waste_delay", 0, 1000), ("cleaner_delay", 0, 1000), ("airgap", 0, 100), ("airgap_speed", 1, 1000), ("retract_speed", 1, 100)]


def wash_args(ex, ntips=1, **over):
    env = {"tips": SeqV.of("list", [tip_of(ex, f"tip{i}", "int" if i % 2 == 0 else "Tip") for i in range(ntips)]),
           "waste_location": SeqV.of("tuple", [sint("waste_grid"), sint("waste_site")]),
           "cleaner_location": SeqV.of("tuple", [sint("cleaner_grid"), sint("cleaner_site")]), "arm": sint("arm"),
           "waste_vol": sreal("waste_vol"), "waste_delay": sint("waste_delay"), "cleaner_vol": sreal("cleaner_vol"),
           "cleaner_delay": sint("cleaner_delay"), "airgap": sint("airgap"), "airgap_speed": sint("airgap_speed"),
           "retract_speed": sint("retract_speed"), "fastwash": sint("fastwash"), "low_volume": sint("low_volume")}
    env.update(over)
    return env


LOC_OK = ("(1 <= waste_location[0] and waste_location[0] <= 67 and 1 <= waste_location[1] and waste_location[1] <= 128 and "
          "1 <= cleaner_location[0] and cleaner_location[0] <= 67 and 1 <= cleaner_location[1] and cleaner_location[1] <= 128)")
RANGES_OK = " and ".join(f"({lo} <= {n} and {n} <= {hi})" for n, lo, hi in INT_PARAMS)
WASH_OK = (f"(tip_collection_ok(tips) and tips_distinct(tips) and {LOC_OK} and (arm == 0 or arm == 1) and 0 <= waste_vol and waste_vol <= 100 and "
           f"0 <= cleaner_vol and cleaner_vol <= 100 and {RANGES_OK} and (fastwash == 0 or fastwash == 1) and (low_volume == 0 or low_volume == 1))")
WASH_CALL = "tips, waste_location, cleaner_location, arm, waste_vol, waste_delay, cleaner_vol, cleaner_delay, airgap, airgap_speed, retract_speed, fastwash, low_volume"


_inst_c13 = install


def install(world):  # noqa: F811
    _inst_c13(world)
    register(world, Contract(
        func=WASH, serves=["C13", "C10"],
        scenarios=[Scenario("1 tip (int)", lambda ex: wash_args(ex, 1)), Scenario("2 tips (int, Tip)", lambda ex: wash_args(ex, 2)),
                   Scenario("waste_vol:int", lambda ex: wash_args(ex, 1, waste_vol=sint("waste_vol")))],
        raises=[("ValueError", f"not {WASH_OK}")],
        returns=f"evo_wash_cmd({WASH_CALL})",
        policy={I2T: "contract"},
        native={"imports": ["from robotools.evotools.commands import evo_wash"],
                "call": "evo_wash(" + ", ".join(f"{a}={a}" for a in WASH_CALL.split(", ")) + ")"},
    ))

    def wl_wash(ex):
        env = wash_args(ex, 1)
        env["self"] = sym_worklist(ex, "EvoWorklist")
        return env

    register(world, Contract(
        func=EW + "evo_wash", serves=["C13"],
        scenarios=[Scenario("1 tip", wl_wash)],
        raises=[("ValueError", f"not {WASH_OK}")],
        ensures=[("appended", f"same(records(self), records(old_self) + [evo_wash_cmd({WASH_CALL})])", ["C13"])],
        exc_ensures=[("nothing-appended", "same(records(self), records(old_self))", ["C13"])],
        policy={WASH: "contract"},
    ))

    def wl_cmd(nwells):
        def make(ex):
            wl = sym_worklist(ex, "EvoWorklist")
            lw = sym_labware(ex, "L", False)
            wells = []
            for i in range(nwells):
                r, c = z3.Int(f"w{i}_r"), z3.Int(f"w{i}_c")
                ex.p.assume(z3.And(r >= 0, r < 26, c >= 1, c <= 99))
                wells.append(WellV(r, c))
            return {"self": wl, "labware": lw, "wells": SeqV.of("list", wells), "labware_position": SeqV.of("tuple", [sint("grid"), sint("site")]),
                    "tips": SeqV.of("list", [tip_of(ex, f"tip{i}", "int") for i in range(nwells)]),
                    "volumes": SeqV.of("list", [sreal(f"vol{i}") for i in range(nwells)]), "liquid_class": sstr("liquid_class"),
                    "arm": sint("arm"), "label": sstr("label")}
        return Scenario(f"{nwells} well(s), per-tip volumes", make, requires=["printable(liquid_class)", "printable(label)", "length(labware.column_ids) <= 99"])

    for name, kind, lwm, op in (("evo_aspirate", "Aspirate", "remove", "vol_minus"), ("evo_dispense", "Dispense", "add", "vol_plus")):
        register(world, Contract(
            func=EW + name, serves=["C13", "C03", "C04"],
            scenarios=[wl_cmd(1), wl_cmd(2)],
            raises=[("ValueError", None), ("InvalidOperationError", None), ("KeyError", None), ("AssertionError", None),
                    ("VolumeUnderflowError", None), ("VolumeOverflowError", None)],
            ensures=[
                ("command-appended", f"same(records(self), records(old_self) + comment_records(label) + [evo_cmd('{kind}', wells, labware_position, volumes, liquid_class, tips, arm, "
                                     "evo_sel_spec(length(labware.row_ids), length(labware.column_ids), wells))])", ["C13"]),
                ("tracking-agrees", f"same(labware._volumes, {op}(old_labware._volumes, contrib(labware, wells, volumes)))", ["C13", "C04"]),
                ("no-oversized-step", "forall(0, length(volumes), lambda i: volumes[i] <= self.max_volume)", ["C03", "C13"]),
            ],
            exc_ensures=[("no-command-on-abort", "is_prefix(records(self), records(old_self) + comment_records(label))", ["C13", "C03"])],
            policy={LWR + lwm: "contract", CMD + name: "contract"},
        ))
