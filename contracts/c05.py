"""C05 - composition tracking: combine_composition against the ideal mixing function, Labware.add's composition branch,
get_well_composition, removal invariance (frame of remove, C02 contract)."""
import z3

from pyvc.contract import Contract, Lemma, Scenario, register
from pyvc.models import sym_labware
from pyvc.params import sreal, sstr
from pyvc.values import MapV, Sym, WellV

CC = "robotools.liquidhandling.composition.combine_composition"
L = "robotools.liquidhandling.labware.Labware."


def comp(ex, tag, n):
    """a composition dict with n components: symbolic names (possibly shared with the other liquid) and fractions in [0,1]"""
    items = []
    for i in range(n):
        k = sstr(f"{tag}_name{i}")
        f = sreal(f"{tag}_frac{i}")
        ex.p.assume(z3.And(f.t >= 0, f.t <= 1))
        for (k2, _) in items:
            ex.p.assume(k.t != k2.t)  # keys of one dict are distinct
        items.append((k, f))
    return MapV(items=items)


def cc_scen(na, nb):
    def make(ex):
        return {"volume_A": sreal("volume_A"), "composition_A": None if na is None else comp(ex, "A", na),
                "volume_B": sreal("volume_B"), "composition_B": None if nb is None else comp(ex, "B", nb)}
    return Scenario(f"A: {na} component(s), B: {nb} component(s)", make, requires=["volume_A >= 0", "volume_B >= 0"])


def install(world):
    register(world, Contract(
        func=CC, serves=["C05"],
        scenarios=[cc_scen(None, 1), cc_scen(1, None), cc_scen(0, 1), cc_scen(1, 1), cc_scen(2, 1), cc_scen(1, 2), cc_scen(2, 2)],
        raises=[("ZeroDivisionError", "(not is_none(composition_A)) and (not is_none(composition_B)) and volume_A + volume_B == 0")],
        ensures=[
            ("unknown-iff-unknown", "iff(is_none(result), is_none(composition_A) or is_none(composition_B))", ["C05"]),
            ("ideal-mixing", "is_none(result) or mixing_ok(result, volume_A, composition_A, volume_B, composition_B)", ["C05"]),
            ("normalised", "is_none(result) or implies(comp_sum(composition_A) == 1 and comp_sum(composition_B) == 1, comp_sum(result) == 1)", ["C05"]),
            ("bounded", "is_none(result) or comp_all(result, lambda f: 0 <= f and f <= 1)", ["C05"]),
        ],
    ))

    def lemmas(ex):
        vA, vB, fA, fB, gA, gB = (z3.Real(n) for n in ("vA", "vB", "fA", "fB", "gA", "gB"))
        pre = z3.And(vA >= 0, vB >= 0, vA + vB > 0, fA >= 0, fA <= 1, fB >= 0, fB <= 1)
        mix = (vA * fA + vB * fB) / (vA + vB)
        yield "mix-bounded", z3.Implies(pre, z3.And(mix >= 0, mix <= 1))
        yield "mix-conserves-component", z3.Implies(pre, (vA + vB) * mix == vA * fA + vB * fB)
        mixg = (vA * gA + vB * gB) / (vA + vB)
        yield "mix-normalised-two-components", z3.Implies(z3.And(pre, fA + gA == 1, fB + gB == 1), mix + mixg == 1)
        yield "zero-volume-addition-keeps-fraction", z3.Implies(z3.And(pre, vB == 0), mix == fA)

    world.lemmas.append(Lemma("C05/mixing-algebra", ["C05"], lemmas))


def add_scen(trough, ncomp_new, shared):
    def make(ex):
        lw = sym_labware(ex, "L", trough, composition="two")
        r, c = z3.Int("w_r"), z3.Int("w_c")
        ex.p.assume(z3.And(r >= 0, r < 26, c >= 1))
        newc = comp(ex, "N", ncomp_new)
        if shared:  # the incoming liquid shares its first component name with the labware's first component
            ex.p.assume(newc.items[0][0].t == lw.fields["_composition"].items[0][0].t)
        tot = z3.RealVal(0)
        for _, f in newc.items:
            tot = tot + f.t
        if ncomp_new:  # a liquid without any tracked component ({}: e.g. system liquid) still dilutes what is in the well
            ex.p.assume(tot == 1)
        from pyvc.values import SeqV

        return {"self": lw, "wells": WellV(r, c), "volumes": sreal("v"), "label": None, "compositions": SeqV.of("list", [newc])}

    return Scenario(f"{'trough' if trough else 'plate'}, 1 well, incoming liquid with {ncomp_new} component(s){' (first name shared)' if shared else ''}", make)


_inst_c05 = install


def install(world):  # noqa: F811
    _inst_c05(world)
    register(world, Contract(
        func=L + "add", serves=["C05"], key=L + "add#composition",
        scenarios=[add_scen(False, 1, False), add_scen(False, 1, True), add_scen(True, 2, True), add_scen(False, 2, False), add_scen(False, 0, False)],
        raises=[("AssertionError", None), ("KeyError", None), ("VolumeOverflowError", None)],
        ensures=[
            ("mixed-at-the-well", "composition_after_add_ok(self, old_self, wells, volumes, compositions[0])", ["C05"]),
            ("other-wells-untouched", "composition_frame_ok(self, old_self, wells)", ["C05"]),
        ],
        exc_ensures=[("composition-unchanged-on-reject", "composition_frame_ok(self, old_self, None)", ["C05"])],
    ))
    register(world, Contract(
        func=L + "get_well_composition", serves=["C05"],
        scenarios=[Scenario("plate with two components", lambda ex: {"self": sym_labware(ex, "L", False, composition="two"), "well": _well(ex)}),
                   Scenario("labware of unknown composition", lambda ex: {"self": sym_labware(ex, "L", True), "well": _well(ex)})],
        raises=[("KeyError", "(self._composition is not None) and not known_well(self, well)")],
        ensures=[("positive-fractions-only", "well_composition_ok(result, self, well)", ["C05"])],
    ))


def _well(ex):
    r, c = z3.Int("w_r"), z3.Int("w_c")
    ex.p.assume(z3.And(r >= 0, r < 26, c >= 1))
    return WellV(r, c)


# ----------------------------------------------------------------------------- get_initial_composition

GIC = "robotools.liquidhandling.composition.get_initial_composition"
WELL_IDS = {(0, 0): "A01", (1, 0): "B01", (0, 1): "A02", (1, 1): "B02"}


def gic_scen(rows, cols, names):
    """names: {well-id: 'str' | None}  (well ids outside the grid make the call invalid)"""
    def make(ex):
        from pyvc.values import Arr2V

        vols = {(r, c): sreal(f"iv_{r}_{c}") for r in range(rows) for c in range(cols)}
        for v in vols.values():
            ex.p.assume(v.t >= 0)
        items = []
        for i, (w, kind) in enumerate(names.items()):
            r, c = "ABCDEFGH".index(w[0]), int(w[1:])
            items.append((WellV(r, c), None if kind is None else sstr(f"given_{w}")))
        return {"name": sstr("name"), "real_wells": Arr2V(rows, cols, lambda r, c: WellV(r, c + 1)),
                "component_names": MapV(items=items), "initial_volumes": Arr2V(rows, cols, lambda r, c: vols[(r, c)], "float")}
    return Scenario(f"{rows}x{cols} wells, component_names={names}", make)


def install_gic(world):
    register(world, Contract(
        func=GIC, serves=["C05", "C20"],
        scenarios=[gic_scen(1, 1, {}), gic_scen(1, 1, {"A01": None}), gic_scen(1, 1, {"A01": "str"}), gic_scen(1, 1, {"B01": "str"}),
                   gic_scen(2, 1, {}), gic_scen(2, 1, {"A01": "str"}), gic_scen(2, 1, {"A01": "str", "B01": "str"}), gic_scen(2, 1, {"A01": None, "B01": "str"}),
                   gic_scen(1, 2, {}), gic_scen(1, 2, {"A01": "str", "A02": "str"}), gic_scen(1, 2, {"A02": "str", "A03": None}),
                   gic_scen(2, 2, {}), gic_scen(2, 2, {"A01": "str", "B02": "str"}), gic_scen(3, 1, {"B01": "str"})],
        raises=[("ValueError", "gic_rejects(real_wells, component_names, initial_volumes)")],
        ensures=[("one-100%-component-per-filled-well", "gic_ok(result, name, real_wells, component_names, initial_volumes)", ["C05", "C20"])],
        native={"imports": ["from robotools.liquidhandling.composition import get_initial_composition"],
                "call": "get_initial_composition(name, real_wells, component_names, initial_volumes)"},
    ))


GTCN = "robotools.liquidhandling.composition.get_trough_component_names"


def gtcn_scen(columns, names, nvols=None):
    """names: list of 'str' | None (its length may differ from columns: rejected)"""
    def make(ex):
        from pyvc.values import SeqV

        vols = [sreal(f"iv_{c}") for c in range(columns if nvols is None else nvols)]
        for v in vols:
            ex.p.assume(v.t >= 0)
        return {"name": sstr("name"), "columns": columns, "column_names": SeqV.of("list", [None if k is None else sstr(f"given_{i}") for i, k in enumerate(names)]),
                "initial_volumes": SeqV.of("list", vols)}
    return Scenario(f"{columns} column(s), column_names={names}" + ("" if nvols is None else f", {nvols} volume(s)"), make)


def install_gtcn(world):
    register(world, Contract(
        func=GTCN, serves=["C05", "C20"],
        scenarios=[gtcn_scen(1, [None]), gtcn_scen(1, ["str"]), gtcn_scen(2, [None, None]), gtcn_scen(2, ["str", None]), gtcn_scen(2, ["str", "str"]),
                   gtcn_scen(3, [None, "str", None]), gtcn_scen(2, [None]), gtcn_scen(2, [None, None], nvols=3), gtcn_scen(1, [None, None])],
        raises=[("ValueError", "gtcn_rejects(columns, column_names, initial_volumes)")],
        ensures=[("row-A-keys-and-default-names", "gtcn_ok(result, name, columns, column_names, initial_volumes)", ["C05", "C20"])],
        native={"imports": ["from robotools.liquidhandling.composition import get_trough_component_names"],
                "call": "get_trough_component_names(name, columns, column_names, initial_volumes)"},
    ))


_install_c05 = install


def install(world):  # noqa: F811
    _install_c05(world)
    install_gic(world)
    install_gtcn(world)
