"""C18 - column partitioning: optimize_partition_by (all cases) and partition_by_column on lists of 0-3 symbolic triples."""
import z3

from pyvc.contract import Contract, Scenario, register
from pyvc.models import sym_labware
from pyvc.params import sreal, sstr
from pyvc.values import SeqV, WellV

U = "robotools.worklists.utils."


def w(ex, name):
    r, c = z3.Int(name + "_r"), z3.Int(name + "_c")
    ex.p.assume(z3.And(r >= 0, r < 26, c >= 1, c <= 99))
    return WellV(r, c)


def install(world):
    def opt(st, dt, pb):
        def make(ex):
            return {"source": sym_labware(ex, "S", st), "destination": sym_labware(ex, "D", dt), "partition_by": pb if pb != "other" else sstr("partition_by"),
                    "label": sstr("label")}
        return Scenario(f"source {'trough' if st else 'plate'}, destination {'trough' if dt else 'plate'}, partition_by={pb!r}", make)

    register(world, Contract(
        func=U + "optimize_partition_by", serves=["C18"],
        scenarios=[opt(a, b, pb) for a in (False, True) for b in (False, True) for pb in ("auto", "source", "destination", "other")],
        raises=[("ValueError", "not (partition_by == 'auto' or partition_by == 'source' or partition_by == 'destination')")],
        returns="('destination' if (partition_by == 'destination' or (partition_by == 'auto' and source.virtual_rows is not None and destination.virtual_rows is None)) else 'source')",
        ensures=[("frame", "fields_unchanged(source, old_source, []) and fields_unchanged(destination, old_destination, [])", ["C18"])],
    ))

    def pbc(n, pb):
        def make(ex):
            return {"sources": SeqV.of("list", [w(ex, f"s{i}") for i in range(n)]), "destinations": SeqV.of("list", [w(ex, f"d{i}") for i in range(n)]),
                    "volumes": SeqV.of("list", [sreal(f"v{i}") for i in range(n)]), "partition_by": pb if pb != "other" else sstr("partition_by")}
        return Scenario(f"{n} triple(s), partition_by={pb!r}", make, thorough_only=(n == 3 and pb == "destination"))

    register(world, Contract(
        func=U + "partition_by_column", serves=["C18", "C07"],
        scenarios=[pbc(n, pb) for n in (0, 1, 2, 3) for pb in ("source", "destination")] + [pbc(1, "other"), pbc(0, "other")],
        raises=[("ValueError", "length(sources) > 0 and not (partition_by == 'source' or partition_by == 'destination')")],
        ensures=[
            ("triples-kept", "groups_keep_triples(result, sources, destinations, volumes)", ["C18", "C07"]),
            ("one-column-per-group", "groups_single_column(result, partition_by)", ["C18"]),
            ("columns-ascending", "groups_columns_ascending(result, partition_by)", ["C18"]),
            ("rows-ascending", "groups_rows_ascending(result, partition_by)", ["C18"]),
        ],
    )).shards = 4
