#!/usr/bin/env python
"""Bounded contract monitor for C16: EVO and Fluent worklists differ only in trough well numbers.

A case is a PROGRAM: a labware set, worklist settings and a sequence of device-independent operations (aspirate, dispense,
transfer, distribute, comment, wash, flush, commit, decontaminate, set_diti).  The program is executed on a fresh labware set
with an EvoWorklist and with a FluentWorklist (a failing operation is recorded and the program continues).  Oracles:
  outcome   every operation is accepted by both or refused by both; volume-violation / invalid-operation errors have the same
            class and message (argument errors: both raise)
  state     after every operation the volumes, at the end also compositions and histories (labels + snapshots) of all labware
            are identical
  records   both devices append the same number of records per operation; records are compared field by field with an own
            parser: everything identical except the position of A/D records whose rack is a trough, where the own numbering
            model must hold (EVO 1 + column*virtual_rows + row, Fluent 1 + column), plates must be numbered identically;
            R records: destination range / exclusion list compared as well sets through the same model
            (source range fields 4,5 of R records are the known finding C01 and are not compared)
  base      the same operation on a BaseWorklist (on a deep copy of the pre-operation labware) never appends an A/D/R record;
            transfer raises CompatibilityError; an operation for which the EVO emitted A/D/R records raises TypeError /
            CompatibilityError; device-independent records (C, W, F, B, WD, S) are identical to the EVO ones.
"""
import copy
import hashlib
import itertools
import json
import logging
import os
import random
import sys
import time
import warnings
from collections import Counter

REPO = os.environ.get("PYVC_REPO", "/repo")
sys.path.insert(0, REPO)
VERIF = os.path.dirname(os.path.dirname(os.path.abspath(__file__)))
PROP = "C16"

import numpy  # noqa: E402
import robotools  # noqa: E402
from robotools import EvoWorklist, FluentWorklist, Labware, Trough  # noqa: E402
from robotools.liquidhandling.exceptions import VolumeViolationException  # noqa: E402
from robotools.worklists.base import BaseWorklist  # noqa: E402
from robotools.worklists.exceptions import CompatibilityError, InvalidOperationError  # noqa: E402

assert os.path.realpath(robotools.__file__).startswith(os.path.realpath(REPO) + os.sep), robotools.__file__
logging.disable(logging.CRITICAL)
warnings.simplefilter("ignore")
ROWS = "ABCDEFGHIJKLMNOPQRSTUVWXYZ"


# ------------------------------------------------------------------ running a program
def mk_labware(s):
    kw = dict(min_volume=s["min"], max_volume=s["max"], initial_volumes=s["init"])
    if s["kind"] == "plate":
        return Labware(s["name"], s["rows"], s["cols"], **kw)
    if s["kind"] == "trough":
        return Trough(s["name"], s["rows"], s["cols"], **kw)
    return Labware(s["name"], 1, s["cols"], virtual_rows=s["rows"], **kw)


def arr(a, as_np):
    return numpy.array(a) if as_np and isinstance(a, list) else a


def do_op(wl, lws, op):
    k = op["op"]
    np_ = op.get("np", False)
    if k == "aspirate":
        wl.aspirate(lws[op["lw"]], arr(op["wells"], np_), arr(op["volumes"], np_), label=op.get("label"), **op.get("kwargs", {}))
    elif k == "dispense":
        wl.dispense(lws[op["lw"]], arr(op["wells"], np_), arr(op["volumes"], np_), label=op.get("label"), **op.get("kwargs", {}))
    elif k == "transfer":
        wl.transfer(lws[op["src"]], arr(op["swells"], np_), lws[op["dst"]], arr(op["dwells"], np_), arr(op["volumes"], np_),
                    label=op.get("label"), wash_scheme=op.get("wash_scheme", 1), partition_by=op.get("partition_by", "auto"), **op.get("kwargs", {}))
    elif k == "distribute":
        wl.distribute(lws[op["src"]], op["col"], lws[op["dst"]], arr(op["dwells"], np_), volume=op["volume"], multi_disp=op.get("multi_disp", 1),
                      diti_reuse=op.get("diti_reuse", 1), liquid_class=op.get("liquid_class", ""), label=op.get("label", ""),
                      direction=op.get("direction", "left_to_right"))
    elif k == "comment":
        wl.comment(op["text"])
    elif k == "wash":
        wl.wash(op.get("scheme", 1))
    elif k == "flush":
        wl.flush()
    elif k == "commit":
        wl.commit()
    elif k == "decontaminate":
        wl.decontaminate()
    elif k == "set_diti":
        wl.set_diti(op["index"])
    else:
        raise RuntimeError(f"unknown op {k}")


def attempt(wl, lws, op):
    try:
        do_op(wl, lws, op)
        return None
    except Exception as e:  # noqa
        return e


def run(prog, cls, base_check=False):
    lws = {s["name"]: mk_labware(s) for s in prog["labware"]}
    wlo = prog["wl"]
    wl = cls(max_volume=wlo["max_volume"], auto_split=wlo["auto_split"], diti_mode=wlo["diti_mode"])
    trace, problems = [], []
    for i, op in enumerate(prog["ops"]):
        n0 = len(wl)
        if base_check:
            lwc = copy.deepcopy(lws)
            bw = BaseWorklist(max_volume=wlo["max_volume"], auto_split=wlo["auto_split"], diti_mode=wlo["diti_mode"])
            bw.extend(list(wl))
            bexc = attempt(bw, lwc, op)
            before = {n: l.volumes for n, l in lws.items()}
        exc = attempt(wl, lws, op)
        new = list(wl[n0:])
        trace.append({"exc": exc, "new": new, "vols": {n: l.volumes for n, l in lws.items()}})
        if base_check:
            bnew = list(bw[n0:])
            adr = [r for r in new if r[:2] in ("A;", "D;", "R;")]
            what = f"op {i} {op['op']} on BaseWorklist"
            if any(r[:2] in ("A;", "D;", "R;") for r in bnew):
                problems.append(f"{what}: appended device-specific records {bnew[:3]}")
            elif op["op"] == "transfer":
                if not isinstance(bexc, CompatibilityError) or bnew or any(not numpy.array_equal(before[n], lwc[n].volumes) for n in before):
                    problems.append(f"{what}: not refused with CompatibilityError without effect ({type(bexc).__name__ if bexc else 'no error'}, {bnew[:3]})")
            elif op["op"] in ("aspirate", "dispense", "distribute"):
                if exc is None and adr and not isinstance(bexc, (TypeError, CompatibilityError)):
                    problems.append(f"{what}: needs well numbers but was not refused with TypeError/CompatibilityError ({type(bexc).__name__ if bexc else 'no error'})")
                if bexc is None and (exc is not None or adr):
                    problems.append(f"{what}: accepted although the EVO {'raised ' + type(exc).__name__ if exc else 'emitted ' + adr[0]}")
            else:
                if (type(bexc), str(bexc)) != (type(exc), str(exc)) or bnew != new:
                    problems.append(f"{what}: {type(bexc).__name__ if bexc else bnew} differs from EVO {type(exc).__name__ if exc else new}")
    return lws, list(wl), trace, problems


def norm_exc(e):
    if e is None:
        return None
    if isinstance(e, (VolumeViolationException, InvalidOperationError)):
        return (type(e).__name__, str(e))
    if isinstance(e, (ValueError, AssertionError, KeyError, TypeError, IndexError)):
        return ("argument error", "")
    return (type(e).__name__, str(e))


def cmp_record(a, b, specs):
    """None if the EVO record a and the Fluent record b agree up to trough numbering, else a description."""
    fa, fb = a.split(";"), b.split(";")
    t = fa[0]

    def trough(name):
        s = specs.get(name)
        return s if s is not None and s["kind"] != "plate" else None

    if t in ("A", "D") and fb[0] == t:
        if len(fa) != 11 or len(fb) != 11:
            return "A/D record without 11 fields"
        if fa[:4] + fa[5:] != fb[:4] + fb[5:]:
            return "fields other than the position differ"
        pe, pf = int(fa[4]), int(fb[4])
        s = trough(fa[1])
        if s is None:
            return None if pe == pf else "plate wells numbered differently"
        if not (1 <= pe <= s["rows"] * s["cols"]):
            return f"EVO position {pe} outside the trough"
        return None if pf == (pe - 1) // s["rows"] + 1 else f"trough numbering: EVO {pe} (column {(pe - 1) // s['rows'] + 1}) but Fluent {pf}"
    if t == "R" and fb[0] == "R":
        if len(fa) < 16 or len(fb) < 16:
            return "R record with < 16 fields"
        if fa[:4] != fb[:4] or fa[6:9] != fb[6:9] or fa[11:16] != fb[11:16]:
            return "fields other than well ranges differ"
        if fa[4:6] != fb[4:6]:  # known finding C01: tolerated either way, but must be a consistent trough column
            s = trough(fa[1])
            if s is None or [(int(x) - 1) // s["rows"] + 1 for x in fa[4:6]] != [int(x) for x in fb[4:6]]:
                return "source ranges differ inconsistently"
        inc_e = set(range(int(fa[9]), int(fa[10]) + 1)) - {int(x) for x in fa[16:]}
        inc_f = set(range(int(fb[9]), int(fb[10]) + 1)) - {int(x) for x in fb[16:]}
        s = trough(fa[6])
        if s is not None:
            inc_e = {(x - 1) // s["rows"] + 1 for x in inc_e}
        return None if inc_e == inc_f else f"destination well sets differ: EVO {sorted(inc_e)} Fluent {sorted(inc_f)}"
    return None if a == b else "records differ"


def check(prog):
    specs = {s["name"]: s for s in prog["labware"]}
    le, re_, te, pb = run(prog, EvoWorklist, base_check=prog.get("base_check", True))
    lf, rf, tf, _ = run(prog, FluentWorklist)
    p = list(pb[:2])
    for i, (a, b) in enumerate(zip(te, tf)):
        op = prog["ops"][i]
        what = f"op {i} {json.dumps(op)[:260]}"
        if norm_exc(a["exc"]) != norm_exc(b["exc"]):
            p.append(f"{what}: EVO {type(a['exc']).__name__ if a['exc'] else 'accepts'} ({a['exc']}), Fluent {type(b['exc']).__name__ if b['exc'] else 'accepts'} ({b['exc']})")
            break
        if len(a["new"]) != len(b["new"]):
            p.append(f"{what}: EVO appends {len(a['new'])} records, Fluent {len(b['new'])}: {a['new'][-4:]} vs {b['new'][-4:]}")
            break
        for x, y in zip(a["new"], b["new"]):
            try:
                d = cmp_record(x, y, specs)
            except ValueError as e:
                d = f"unparsable ({e})"
            if d:
                p.append(f"{what}: {d}: EVO {x!r} Fluent {y!r}")
                break
        bad = [n for n in a["vols"] if not numpy.array_equal(a["vols"][n], b["vols"][n])]
        if bad:
            p.append(f"{what}: volumes of {bad[0]} differ afterwards: EVO {a['vols'][bad[0]].tolist()} Fluent {b['vols'][bad[0]].tolist()}")
            break
        if len(p) > 2:
            break
    if not p:
        for n in le:
            ce, cf = le[n].composition, lf[n].composition
            if set(ce) != set(cf) or any(not numpy.array_equal(ce[k], cf[k], equal_nan=True) for k in ce):
                p.append(f"compositions of {n} differ: EVO { {k: v.tolist() for k, v in ce.items()} } Fluent { {k: v.tolist() for k, v in cf.items()} }"[:600])
                break
            he, hf = le[n].history, lf[n].history
            if [h[0] for h in he] != [h[0] for h in hf] or any(not numpy.array_equal(x[1], y[1]) for x, y in zip(he, hf)):
                p.append(f"histories of {n} differ: EVO labels {[h[0] for h in he]} Fluent labels {[h[0] for h in hf]}"
                         + ("" if [h[0] for h in he] != [h[0] for h in hf] else " (same labels, different snapshots)"))
                break
    head = f"labware {[(s['name'], s['kind'], s['rows'], s['cols']) for s in prog['labware']]} wl {prog['wl']}: "
    return [head + q for q in p[:3]]


def classify(q):
    for key in ("BaseWorklist", "EVO appends", "volumes of", "compositions of", "histories of", "trough numbering", "plate wells", "destination well sets",
                "fields other", "records differ", "Fluent accepts", "EVO accepts", "monitor could not"):
        if key in q:
            return key
    return "outcome"


def run_case(c):
    try:
        return check(c)
    except Exception as e:  # noqa
        import traceback
        return [f"monitor could not evaluate program: {type(e).__name__}: {e} {traceback.format_exc()[-400:]}"]


# ------------------------------------------------------------------ generators
def wells_of(s):
    return [f"{ROWS[r]}{c + 1:02d}" for c in range(s["cols"]) for r in range(s["rows"])]


def col_wells(s, c):
    return [f"{ROWS[r]}{c + 1:02d}" for r in range(s["rows"])]


def lw_spec(kind, name, rows, cols, mn, mx, init):
    return {"kind": kind, "name": name, "rows": rows, "cols": cols, "min": mn, "max": mx, "init": init}


def std_labware(kind_t="trough", full=True):
    return [lw_spec("plate", "P", 4, 3, 0, 5000, 2500 if full else 0), lw_spec("plate", "Q", 3, 4, 0, 5000, 1000),
            lw_spec(kind_t, "T", 4, 3, 0, 50000, [20000, 20000, 10000] if kind_t == "trough" else 20000)]


def gen_enumerated(tier):
    # systematic transfer programs: history before, a multi-column transfer with split / zero / plain volumes, an op afterwards
    vol_patterns = [
        [2000, 30, 10, 20],      # split only in the first column
        [30, 10, 2000, 20],      # split only in a later column
        [0, 30, 0, 20], [10, 0, 0, 0], [0, 0, 0, 0], [1000.5, 0, 961, 950], [40, -15, 10, 5], [951, 951, 0.01, 0],
    ]
    well_patterns = [
        (["A01", "B01", "A02", "B03"], ["B01", "A01", "C02", "A03"]),
        (["A01", "B01", "C01", "A02"], ["B01", "C01", "D01", "B02"]),   # chain down a column (same labware: receive before give)
        (["C02", "A01", "B03", "A01"], ["A01", "A03", "A03", "C02"]),
    ]
    pairs = [("P", "Q"), ("T", "P"), ("P", "T"), ("T", "T"), ("P", "P")]
    for auto in (True, False):
        for diti in (False, True) if tier != "quick" else (False,):
            for kind_t in ("trough", "vtrough"):
                for (s, d), (sw, dw), vols, pby in itertools.product(pairs, well_patterns, vol_patterns, ("auto", "source", "destination")):
                    if tier == "quick" and pby == "destination" and kind_t == "vtrough":
                        continue
                    lws = std_labware(kind_t)
                    rows = {"P": 4, "Q": 3, "T": 4}
                    sw2 = [w if ROWS.index(w[0]) < rows[s] else "A" + w[1:] for w in sw]
                    dw2 = [w if ROWS.index(w[0]) < rows[d] else "A" + w[1:] for w in dw]
                    v = [x if auto or x <= 950 else 950 for x in vols]
                    ops = [{"op": "aspirate", "lw": s, "wells": [sw2[0]], "volumes": 5, "label": "pre"},
                           {"op": "dispense", "lw": d, "wells": [dw2[0], dw2[1]], "volumes": [1, 2]},
                           {"op": "transfer", "src": s, "swells": sw2, "dst": d, "dwells": dw2, "volumes": v, "partition_by": pby,
                            "wash_scheme": [1, "flush", "reuse", 3][len(str(vols)) % 4], "label": "X" if pby == "source" else None},
                           {"op": "transfer", "src": s, "swells": sw2[0], "dst": d, "dwells": dw2[:2], "volumes": 7.5}]
                    yield {"labware": lws, "wl": {"max_volume": 950, "auto_split": auto, "diti_mode": diti}, "ops": ops}
    # device independent records and their failure modes
    for diti in (False, True):
        ops = [{"op": "set_diti", "index": 2}, {"op": "comment", "text": "a\n b \n\nc"}, {"op": "set_diti", "index": 1}, {"op": "commit"},
               {"op": "set_diti", "index": 3}, {"op": "wash", "scheme": 3}, {"op": "wash", "scheme": 5}, {"op": "decontaminate"}, {"op": "flush"},
               {"op": "comment", "text": "no;semicolon"}, {"op": "comment", "text": ""}, {"op": "wash", "scheme": 2.0}]
        yield {"labware": std_labware(), "wl": {"max_volume": 950, "auto_split": True, "diti_mode": diti}, "ops": ops}
    # distribute programs
    for kind_t in ("trough", "vtrough"):
        for dst, dwells in (("P", ["A01", "B01", "C01", "A02"]), ("P", ["D03", "A01", "B02"]), ("Q", [["A01", "A02"], ["B01", "B02"]]),
                            ("T", ["A02", "B02", "A03"]), ("T", ["C01", "A03"]), ("P", ["A01", "A01", "B01"])):
            for col in (0, 1, 2):
                for vol, md in ((40, 1), (400, 6), (1000, 2), (6000, 1), (950, 3)):
                    ops = [{"op": "distribute", "src": "T", "col": col, "dst": dst, "dwells": dwells, "volume": vol, "multi_disp": md, "label": "dist"},
                           {"op": "distribute", "src": "P", "col": 0, "dst": "Q", "dwells": ["A01"], "volume": 5},
                           {"op": "transfer", "src": "T", "swells": col_wells({"rows": 4}, col)[:3], "dst": "P", "dwells": ["A01", "B01", "C01"], "volumes": [1200, 5, 5]}]
                    yield {"labware": std_labware(kind_t, full=False), "wl": {"max_volume": 950, "auto_split": True, "diti_mode": False}, "ops": ops}


def rand_labware(rng):
    lws = []
    for name, kind in (("P", "plate"), ("Q", "plate"), ("T", rng.choice(["trough", "trough", "vtrough"])), ("L", rng.choice(["vtrough", "trough", "plate"]))):
        if name == "L" and rng.random() < 0.5:
            continue
        rows = rng.choice([1, 2, 3, 4, 8]) if kind == "plate" else rng.choice([1, 2, 4, 8])
        cols = rng.choice([1, 2, 3, 12]) if kind == "plate" else rng.choice([1, 2, 3])
        mx = rng.choice([300, 1000, 5000, 5000, 20000, 20000])
        mn = rng.choice([0, 0, 10, 20])
        nreal = (1 if kind != "plate" else rows) * cols

        def one():
            return rng.choice([0, mn, mx, round(rng.uniform(0, mx), 1)] + [mx / 2] * 8 + [mx * 0.8, mx * 0.25])
        if kind == "plate":
            init = [[one() for _ in range(cols)] for _ in range(rows)] if rng.random() < 0.8 else one()
        elif kind == "trough":
            init = [one() for _ in range(cols)]
        else:
            init = [[one() for _ in range(cols)]] if rng.random() < 0.8 else one()
        lws.append(lw_spec(kind, name, rows, cols, mn, mx, init))
    return lws


def rand_program(rng):
    lws = rand_labware(rng)
    byname = {s["name"]: s for s in lws}
    m = rng.choice([950, 950, 100, 50, 200.5, 33.3, 1000])
    wlo = {"max_volume": m, "auto_split": rng.random() < 0.65, "diti_mode": rng.random() < 0.25}
    ops = []

    def pool(s):
        w = wells_of(s)
        r = rng.random()
        if r < 0.3:
            return rng.sample(w, min(len(w), rng.randint(1, 3)))
        if r < 0.75:
            cs = {rng.randrange(s["cols"]), rng.randrange(s["cols"])}
            return [x for x in w if int(x[1:]) - 1 in cs]
        return w

    def vol(cap):
        r = rng.random()
        if r < 0.18:
            return 0
        if r < 0.21:
            return rng.choice([-1, -0.5, -20])
        if r < 0.45:
            return round(rng.choice([m, m + 0.01, 2 * m, 2.5 * m, m * 1.01, 3 * m + 1]), 2) if cap > 8 * m or r < 0.25 else round(cap / 20, 1)
        if r < 0.9:
            return round(rng.uniform(0.01, min(cap / 12, m)), rng.choice([0, 1, 2]))
        return round(rng.uniform(0, cap / 2), 1)

    def shape(lst):
        n = len(lst)
        if n >= 2 and rng.random() < 0.25:
            nr = rng.choice([k for k in range(1, n + 1) if n % k == 0])
            return [[lst[c * nr + r] for c in range(n // nr)] for r in range(nr)]
        return lst

    for _ in range(rng.choice([2, 3, 4, 5, 6, 8])):
        r = rng.random()
        if r < 0.5:
            s = rng.choice(lws)
            d = s if rng.random() < 0.3 else rng.choice(lws)
            n = rng.choice([1, 2, 3, 3, 4, 5, 6, 8])
            ps, pd = pool(s), pool(d)
            if s is d and rng.random() < 0.5:  # chain inside one column
                cw = col_wells(s, rng.randrange(s["cols"]))
                n = min(n, max(1, len(cw) - 1))
                sw, dw = cw[:n], cw[1:n + 1] or cw[:1]
                if rng.random() < 0.3:
                    sw, dw = sw[::-1], dw[::-1]
            else:
                sw, dw = [rng.choice(ps) for _ in range(n)], [rng.choice(pd) for _ in range(n)]
            vs = [vol(min(s["max"], d["max"])) for _ in range(len(sw))]
            if not wlo["auto_split"] and rng.random() < 0.8:
                vs = [v if v <= m else rng.choice([0, m, 1.5]) for v in vs]
            op = {"op": "transfer", "src": s["name"], "swells": shape(sw), "dst": d["name"], "dwells": shape(dw),
                  "volumes": vs[0] if len(set(vs)) == 1 and rng.random() < 0.5 else shape(vs),
                  "wash_scheme": rng.choice([1, 2, 3, 4, "flush", "reuse"]), "partition_by": rng.choice(["auto", "auto", "source", "destination"])}
            if rng.random() < 0.4:
                op["label"] = rng.choice(["tr", "", "two\nlines", "label 3"])
            if rng.random() < 0.25:
                op["kwargs"] = rng.choice([{"liquid_class": "LC"}, {"tip": rng.randint(1, 8)}, {"rack_id": "r", "rack_type": "t"}, {"tip": [1, 2]}])
            op["np"] = rng.random() < 0.5
            ops.append(op)
        elif r < 0.72:
            s = rng.choice(lws)
            n = rng.choice([1, 1, 2, 3, 4])
            ws = [rng.choice(pool(s)) for _ in range(n)]
            vs = [vol(s["max"]) for _ in range(n)]
            op = {"op": rng.choice(["aspirate", "dispense"]), "lw": s["name"], "wells": shape(ws) if n > 1 else rng.choice([ws, ws[0]]),
                  "volumes": vs[0] if rng.random() < 0.4 else shape(vs), "np": rng.random() < 0.5}
            if rng.random() < 0.4:
                op["label"] = rng.choice(["asp", "", "x\ny"])
            if rng.random() < 0.2:
                op["kwargs"] = rng.choice([{"liquid_class": "LC2"}, {"tip": rng.randint(1, 8)}])
            ops.append(op)
        elif r < 0.86:
            s = rng.choice([x for x in lws if x["kind"] != "plate"] * 4 + lws)
            d = rng.choice(lws)
            n = rng.choice([1, 2, 3, 4, 6])
            dw = [rng.choice(pool(d)) for _ in range(n)]
            if rng.random() < 0.7:
                dw = sorted(set(dw))
            ops.append({"op": "distribute", "src": s["name"], "col": rng.randrange(s["cols"]), "dst": d["name"], "dwells": shape(dw),
                        "volume": rng.choice([round(rng.uniform(1, min(m, d["max"] / 2)), 1), m, m + 1, 10, m / 2.5]),
                        "multi_disp": rng.choice([1, 2, 6, 12]), "diti_reuse": rng.choice([1, 2]), "label": rng.choice(["", "dist"]),
                        "liquid_class": rng.choice(["", "LCD"]), "direction": rng.choice(["left_to_right", "right_to_left"])})
        else:
            ops.append(rng.choice([{"op": "comment", "text": rng.choice(["hello", "a\nb", "", "bad;one", "  x  "])}, {"op": "wash", "scheme": rng.choice([1, 2, 3, 4, 5, 0])},
                                   {"op": "flush"}, {"op": "commit"}, {"op": "decontaminate"}, {"op": "set_diti", "index": rng.randint(0, 3)}]))
    return {"labware": lws, "wl": wlo, "ops": ops}


# ------------------------------------------------------------------ driver
def main():
    if len(sys.argv) >= 3 and sys.argv[1] == "--replay":
        path = sys.argv[2] if os.path.isabs(sys.argv[2]) or os.path.exists(sys.argv[2]) else os.path.join(VERIF, sys.argv[2])
        c = json.load(open(path))["bounded_replay"]["case"]
        probs = run_case(c)
        print(f"replay {PROP} program: {json.dumps(c)}")
        for q in probs:
            print("VIOLATION", q)
        print("still fails" if probs else "passes on this tree")
        sys.exit(1 if probs else 0)
    tier = sys.argv[1] if len(sys.argv) > 1 else "quick"
    seed = int(sys.argv[2]) if len(sys.argv) > 2 else 0
    budget = 14 if tier == "quick" else 220
    t0 = time.time()
    rng = random.Random(seed)
    seen, failures, classes, samples = set(), [], Counter(), []
    counts, nops, nrej = Counter(), 0, 0

    def feed(c, source):
        nonlocal nops
        k = json.dumps(c, sort_keys=True)
        if k in seen:
            return
        seen.add(k)
        counts[source] += 1
        nops += len(c["ops"])
        if len(samples) < 3 and len(seen) % 499 == 3:
            samples.append(c)
        for q in run_case(c):
            cls = classify(q)
            classes[cls] += 1
            if classes[cls] > 2 or len(failures) >= 12:
                continue
            rel = os.path.join("replays", PROP, f"bounded_{hashlib.sha1(k.encode()).hexdigest()[:10]}.json")
            os.makedirs(os.path.join(VERIF, "replays", PROP), exist_ok=True)
            with open(os.path.join(VERIF, rel), "w") as fh:
                json.dump({"property": PROP, "bounded_replay": {"script": "c16.py", "case": c}, "what": q}, fh, indent=1)
            failures.append({"what": q[:700], "replay": rel})

    for c in gen_enumerated(tier):
        feed(c, "enumerated")
        if time.time() - t0 > budget * 0.6:
            break
    while time.time() - t0 < budget:
        feed(rand_program(rng), "random")
    out = {"evaluations": len(seen), "distinct": len(seen),
           "rule": "a case is a program (labware set incl. plates, Trough and Labware(virtual_rows) troughs, worklist settings, 2-12 operations) run on "
                   "EvoWorklist, FluentWorklist and (per operation) BaseWorklist; enumerated: pre-history + 4-triple transfers over 5 labware pairs x 3 well "
                   "patterns x 8 volume patterns (split first / later column, zeros, negative, at-limit) x partition modes x auto_split, all device-independent "
                   "records, distribute grid; random: collision-biased programs with tight capacities so that volume violations occur; distinct = canonical JSON",
           "operations": nops, "samples": samples,
           "parts": [{"function": "EvoWorklist vs FluentWorklist vs BaseWorklist, operation programs [enumerated]", "kind": "bounded enumeration",
                      "bound": "3 labware (4x3, 3x4, trough 4x3), 3-12 operations", "evaluations": counts["enumerated"]},
                     {"function": "EvoWorklist vs FluentWorklist vs BaseWorklist, operation programs [random]", "kind": f"bounded seeded random (seed {seed})",
                      "bound": "3-4 labware with rows <= 8, columns <= 12, 2-8 operations, <= 8 triples per transfer", "evaluations": counts["random"]}],
           "failures": failures, "seconds": round(time.time() - t0, 1), "failure_classes": len(classes)}
    print(json.dumps(out))


if __name__ == "__main__":
    main()
