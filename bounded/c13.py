#!/usr/bin/env python
"""C13 bounded contract monitor: EvoWorklist.evo_aspirate / evo_dispense / evo_wash and evotools.commands.*

Independent oracles (own parser of the 'B;Aspirate(..)/B;Dispense(..)/B;Wash(..)' records, own decoder of the EVOware
well-selection string, own accept/reject specification, exact arithmetic with fractions.Fraction):
  A1 an accepted call appends exactly one B record (plus optional C;label lines), named after the operation, 20 fields
  A2 decoded with EVOware's rule (selected tips ascending serve selected wells ascending, volume of tip k = slot k):
     selected wells == given wells, selected tips == given tips, slot volume == given volume to two decimals,
     unselected slots are 0, bitmap header == labware geometry (virtual rows for troughs), one column only
  A3 the Labware tracking changed each real well by the sum of the given volumes (and by the decoded volumes up to the
     two-decimal rounding), all other wells untouched
  A4 liquid class, grid, zero-based site, arm are emitted as given (integers as plain integers)
  A5 calls with wells from several columns, wells/tips/volumes not pairing one-to-one in ascending order, repeated or
     invalid tips, out-of-range grid/site/arm/volume, volume above the worklist limit or beyond the labware limits are
     rejected (exception) and leave no B record; well-formed calls are NOT rejected
  W1 evo_wash (function and worklist method): 16 fields in the documented order, volumes to one decimal, zero-based
     sites, tip mask; every parameter range-checked (in-range accepted, one-beyond / wrong type rejected); defaults
Deliberately not generated (oddities of the unchanged tree, outside the literal text of the property): bool for int
parameters (grid=True is printed as 'True'), float arm (0.0 is printed as '0.0'), -0.0 volumes, max_volume=None passed to the
command functions (np.isnan(None) -> TypeError), liquid classes containing '"'.
"""
import collections
import hashlib
import itertools
import json
import math
import os
import random
import re
import sys
import time
import warnings
from fractions import Fraction

REPO = os.environ.get("PYVC_REPO", "/repo")
sys.path.insert(0, REPO)
import numpy as np  # noqa: E402

from robotools import EvoWorklist, Labware, Trough  # noqa: E402
from robotools.evotools import commands as CMD  # noqa: E402
from robotools.evotools.types import Tip  # noqa: E402

PROP = "C13"
VERIF = os.path.dirname(os.path.dirname(os.path.abspath(__file__)))
LETTERS = "ABCDEFGHIJKLMNOPQRSTUVWXYZ"
INT_RE = re.compile(r"^-?\d+$")
warnings.simplefilter("ignore")


def wid(r, c):
    return f"{LETTERS[r]}{c + 1:02d}"


def fl(v):
    return float(v) if isinstance(v, str) else v  # "nan" / "inf" / "-inf" are stored as strings in cases


def is_num(v):
    return isinstance(v, (int, float)) and not isinstance(v, bool)


def is_int(v, lo, hi):
    return isinstance(v, int) and not isinstance(v, bool) and lo <= v <= hi


def tip_num(tok):
    if isinstance(tok, str):
        return None if tok == "Any" else int(tok[1])
    return tok if is_int(tok, 1, 8) else None


def tip_obj(tok):
    return getattr(Tip, tok) if isinstance(tok, str) else tok


def flat_f(wells):
    """column-major flattening of str / 1-D / rectangular 2-D nested lists"""
    if isinstance(wells, str):
        return [wells]
    if wells and isinstance(wells[0], list):
        return [wells[i][j] for j in range(len(wells[0])) for i in range(len(wells))]
    return list(wells)


# ---------------------------------------------------------------- own record parser / decoder
def parse_record(rec):
    if not (isinstance(rec, str) and rec.startswith("B;") and rec.endswith(");") and "(" in rec):
        raise ValueError(f"not a B;Name(...); record: {rec!r}")
    name, rest = rec[2:-2].split("(", 1)
    fields, i = [], 0
    while i <= len(rest):
        if i < len(rest) and rest[i] == '"':
            j = rest.index('"', i + 1)
            fields.append(("q", rest[i + 1:j]))
            i = j + 1
        else:
            j = rest.find(",", i)
            j = len(rest) if j < 0 else j
            fields.append(("r", rest[i:j]))
            i = j
        if i < len(rest) and rest[i] != ",":
            raise ValueError(f"garbage after field {len(fields)} in {rec!r}")
        i += 1
    return name, fields


def raw_int(f, what):
    if f[0] != "r" or not INT_RE.match(f[1]):
        raise ValueError(f"{what} is not a plain integer: {f[1]!r}")
    return int(f[1])


def decode_selection(sel):
    """-> (cols, rows, [(r, c), ...] ascending in EVOware (column-major) order)"""
    cols, rows = int(sel[0:2], 16), int(sel[2:4], 16)
    body = sel[4:]
    if len(body) != -(-rows * cols // 7):
        raise ValueError(f"selection string has {len(body)} characters for {rows}x{cols} wells")
    picked = []
    for i, ch in enumerate(body):
        bits = ord(ch) - 48
        if not 0 <= bits < 128:
            raise ValueError(f"bad selection character {ch!r}")
        for b in range(7):
            if bits >> b & 1:
                n = i * 7 + b
                if n >= rows * cols:
                    raise ValueError("selection bit beyond the last well")
                picked.append((n % rows, n // rows))
    return cols, rows, picked


def decode_pipetting(rec):
    """-> dict(name, mask, tips, lc, grid, site0, arm, dims, per_well {well: Fraction}) following EVOware's pairing rule"""
    name, f = parse_record(rec)
    if len(f) != 20:
        raise ValueError(f"{len(f)} fields instead of 20")
    mask = raw_int(f[0], "tip mask")
    if not 0 <= mask < 256:
        raise ValueError(f"tip mask {mask} out of range")
    tips = [k for k in range(1, 9) if mask >> (k - 1) & 1]
    if f[1][0] != "q" or f[17][0] != "q":
        raise ValueError("liquid class / well selection not quoted")
    for k in range(10, 14):
        if f[k] != ("r", "0"):
            raise ValueError("volume slots 9-12 must be 0")
    if f[16] != ("r", "1") or f[18] != ("r", "0"):
        raise ValueError("tip spacing / loop options changed")
    cols, rows, picked = decode_selection(f[17][1])
    if len(picked) != len(tips):
        raise ValueError(f"{len(tips)} tips selected (mask {mask}) but {len(picked)} wells selected")
    if len({c for _, c in picked}) > 1:
        raise ValueError("wells of several columns selected")
    per_well, vols = {}, {}
    for k in range(1, 9):
        kind, txt = f[1 + k]
        if k in tips:
            if kind != "q":
                raise ValueError(f"selected tip {k} has no quoted volume (slot {txt!r})")
            vols[k] = Fraction(txt)
            if (vols[k] * 100).denominator != 1:
                raise ValueError(f"volume {txt!r} has more than two decimals")
        elif (kind, txt) != ("r", "0"):
            raise ValueError(f"unselected tip {k} carries volume {txt!r}")
    for k, (r, c) in zip(tips, picked):
        per_well[wid(r, c)] = vols[k]
    return dict(name=name, mask=mask, tips=tips, lc=f[1][1], grid=raw_int(f[14], "grid"), site0=raw_int(f[15], "site"),
                arm=raw_int(f[19], "arm"), dims=(rows, cols), per_well=per_well)


# ---------------------------------------------------------------- own accept / reject specification
def expect_ad(step, lab, before, limit, track):
    """-> ('reject', why) | ('either', why) | ('accept', wells, volumes, tip numbers)"""
    R, C = lab["rows"], lab["cols"]
    W, tips = flat_f(step["wells"]), step["tips"]
    if not isinstance(tips, list):
        return "reject", "tips missing"
    if any(not (isinstance(w, str) and len(w) == 3 and w[0] in LETTERS[:R] and w[1:].isdigit() and 1 <= int(w[1:]) <= C) for w in W):
        return "reject", "well not on the labware"
    if len(W) != len(tips):
        return "reject", "number of wells != number of tips"
    nums = [tip_num(t) for t in tips]
    if None in nums:
        return "reject", "invalid tip"
    if any(a >= b for a, b in zip(nums, nums[1:])):
        return "reject", "tips repeated or not ascending"
    if len({w[1:] for w in W}) > 1:
        return "reject", "wells from several columns"
    if any(a >= b for a, b in zip(W, W[1:])):
        return "reject", "wells repeated or not ascending"
    pos = step["pos"]
    if not (isinstance(pos, list) and len(pos) == 2 and is_int(pos[0], 1, 67) and is_int(pos[1], 1, 128)):
        return "reject", "grid/site out of range"
    if not is_int(step["arm"], 0, 1):
        return "reject", "arm out of range"
    if not isinstance(step["lc"], str) or ";" in step["lc"]:
        return "reject", "invalid liquid class"
    vols = step["volumes"]
    if isinstance(vols, list):
        if len(vols) != len(W):
            return "reject", "number of volumes != number of wells"
        vols = [fl(v) for v in vols]
    else:
        vols = [fl(vols)] * len(W)
    for v in vols:
        if not is_num(v) or math.isnan(v) or v < 0 or v > 7158278:
            return "reject", f"volume {v} out of range"
        if limit is not None and v > limit:
            return "reject", f"volume {v} above the limit {limit}"
    if not W:
        return "either", "nothing selected"
    if track:
        cur = dict(before)
        for w, v in zip(W, vols):
            key = (0 if lab["trough"] else LETTERS.index(w[0]), int(w[1:]) - 1)
            cur[key] = cur[key] - v if step["op"] == "aspirate" else cur[key] + v
            if (step["op"] == "aspirate" and cur[key] < lab["min"]) or (step["op"] == "dispense" and cur[key] > lab["max"]):
                return "reject", f"labware limit violated in {w}"
    return "accept", W, vols, nums


WASH_DEFAULTS = dict(arm=0, waste_vol=3.0, waste_delay=500, cleaner_vol=4.0, cleaner_delay=500, airgap=10, airgap_speed=70,
                     retract_speed=30, fastwash=1, low_volume=0)
WASH_INT_RANGES = dict(arm=(0, 1), waste_delay=(0, 1000), cleaner_delay=(0, 1000), airgap=(0, 100), airgap_speed=(1, 1000),
                       retract_speed=(1, 100), fastwash=(0, 1), low_volume=(0, 1))


def expect_wash(p):
    p = dict(WASH_DEFAULTS, **p)
    tips = p.get("tips")
    if not isinstance(tips, list):
        return "reject", "tips missing", p
    nums = [tip_num(t) for t in tips]
    if None in nums or len(set(nums)) != len(nums):
        return "reject", "invalid or repeated tips", p
    for loc in ("waste_location", "cleaner_location"):
        v = p.get(loc)
        if not (isinstance(v, list) and len(v) == 2 and is_int(v[0], 1, 67) and is_int(v[1], 1, 128)):
            return "reject", f"{loc} out of range", p
    for k, (lo, hi) in WASH_INT_RANGES.items():
        if not is_int(p[k], lo, hi):
            return "reject", f"{k} out of range", p
    for k in ("waste_vol", "cleaner_vol"):
        v = fl(p[k])
        if not is_num(v) or not 0 <= v <= 100:
            return "reject", f"{k} out of range", p
    return ("accept" if nums else "either"), "", p


def check_wash(case):
    kind, why, full = expect_wash(case["params"])
    kw = {k: (tuple(v) if k.endswith("location") and isinstance(v, list) else [tip_obj(t) for t in v] if k == "tips" and isinstance(v, list)
              else fl(v) if k.endswith("_vol") else v) for k, v in case["params"].items()}
    wl = EvoWorklist()
    try:
        rec = CMD.evo_wash(**kw) if case["via"] == "command" else (wl.evo_wash(**kw), wl[-1] if len(wl) == 1 else None)[1]
    except Exception as e:  # noqa
        if kind == "accept":
            return f"W1 valid evo_wash rejected: {type(e).__name__}: {e}"
        return "W1 rejected evo_wash left a record" if len(wl) else None
    if kind == "reject":
        return f"W1 evo_wash accepted although {why}: {rec}"
    try:
        name, f = parse_record(rec)
        if name != "Wash" or len(f) != 16:
            return f"W1 malformed wash record {rec}"
        mask = sum(1 << (tip_num(t) - 1) for t in full["tips"])
        want = [mask, full["waste_location"][0], full["waste_location"][1] - 1, full["cleaner_location"][0], full["cleaner_location"][1] - 1,
                "waste_vol", full["waste_delay"], "cleaner_vol", full["cleaner_delay"], full["airgap"], full["airgap_speed"],
                full["retract_speed"], full["fastwash"], full["low_volume"], 1000, full["arm"]]
        names = ["tip mask", "waste grid", "waste site", "cleaner grid", "cleaner site", "waste_vol", "waste_delay", "cleaner_vol", "cleaner_delay",
                 "airgap", "airgap_speed", "retract_speed", "fastwash", "low_volume", "constant 1000", "arm"]
        for i, (w, n) in enumerate(zip(want, names)):
            if isinstance(w, str):
                got, given = Fraction(f[i][1]), Fraction(fl(full[w]))
                if f[i][0] != "q" or (got * 10).denominator != 1 or abs(got - given) > Fraction(1, 20) + Fraction(1, 10**9):
                    return f"W1 field {i} ({n}) is {f[i][1]!r} for the given {full[w]}: {rec}"
            elif raw_int(f[i], n) != w:
                return f"W1 field {i} ({n}) is {f[i][1]} instead of {w}: {rec}"
    except ValueError as e:
        return f"W1 {e}: {rec}"
    return None


# ---------------------------------------------------------------- session = labware + worklist, steps checked one by one
class Session:
    def __init__(self, lab, wl_max):
        self.spec = lab
        R, C = lab["rows"], lab["cols"]
        if lab["trough"]:
            self.lab = Trough("T", R, C, min_volume=lab["min"], max_volume=lab["max"], initial_volumes=[lab["init"]] * C)
        else:
            self.lab = Labware("P", R, C, min_volume=lab["min"], max_volume=lab["max"], initial_volumes=lab["init"])
        self.wl = EvoWorklist(max_volume=wl_max) if wl_max is not None else EvoWorklist()
        self.wl_max = 950 if wl_max is None else wl_max

    def volumes(self):
        v = self.lab.volumes
        return {(r, c): float(v[r, c]) for r in range(v.shape[0]) for c in range(v.shape[1])}

    def do(self, step):
        """execute one step on the real code and judge it -> error text or None"""
        lab, wl = self.spec, self.wl
        track = step["via"] == "worklist"
        limit = self.wl_max if track else (950 if step.get("cmd_max", "default") == "default" else step["cmd_max"])
        before, n0 = self.volumes(), len(wl)
        exp = expect_ad(step, lab, before, limit, track)
        wells = step["wells"]
        as_ = step.get("wells_as", "list")
        if not isinstance(wells, str):
            wells = np.array(wells) if as_ == "array" else tuple(wells) if as_ == "tuple" else wells
        tips = [tip_obj(t) for t in step["tips"]] if isinstance(step["tips"], list) else step["tips"]
        vols = [fl(v) for v in step["volumes"]] if isinstance(step["volumes"], list) else fl(step["volumes"])
        pos = tuple(step["pos"]) if isinstance(step["pos"], list) else step["pos"]
        sign = -1 if step["op"] == "aspirate" else 1
        try:
            if track:
                fn = wl.evo_aspirate if sign < 0 else wl.evo_dispense
                fn(self.lab, wells, pos, tips, vols, step["lc"], arm=step["arm"], label=step.get("label"))
                new = list(wl[n0:])
                recs = [r for r in new if r.startswith("B;")]
                if len(recs) != 1 or new[-1] != recs[0] or any(not r.startswith("C;") for r in new[:-1]):
                    return f"A1 accepted call appended {new!r}"
                rec = recs[0]
            else:
                fn = CMD.evo_aspirate if sign < 0 else CMD.evo_dispense
                kw = {} if step.get("cmd_max", "default") == "default" else {"max_volume": step["cmd_max"]}
                rec = fn(n_rows=lab["rows"], n_columns=lab["cols"], wells=wells, labware_position=pos, volume=vols,
                         liquid_class=step["lc"], tips=tips, arm=step["arm"], **kw)
        except Exception as e:  # noqa
            if exp[0] == "accept":
                return f"A5 well-formed call rejected: {type(e).__name__}: {e}"
            left = [r for r in wl[n0:] if r.startswith("B;")]
            return f"A5 rejected call ({exp[1]}) left a command: {left}" if left else None
        if exp[0] == "reject":
            return f"A5 call accepted although {exp[1]}: {rec}"
        try:
            d = decode_pipetting(rec)
        except ValueError as e:
            return f"A2 record not decodable by EVOware's rule: {e}: {rec}"
        if d["name"] != ("Aspirate" if sign < 0 else "Dispense"):
            return f"A1 wrong command name: {rec}"
        if d["dims"] != (lab["rows"], lab["cols"]):
            return f"A2 selection header {d['dims']} != labware geometry {(lab['rows'], lab['cols'])}: {rec}"
        if exp[0] == "accept":
            _, W, V, nums = exp
            if (d["lc"], d["grid"], d["site0"], d["arm"]) != (step["lc"], pos[0], pos[1] - 1, step["arm"]):
                return f"A4 liquid class/grid/site/arm emitted as {(d['lc'], d['grid'], d['site0'], d['arm'])}: {rec}"
            if d["tips"] != nums or sorted(d["per_well"]) != sorted(W):
                return f"A2 decoded tips {d['tips']} wells {sorted(d['per_well'])} != given tips {nums} wells {W}: {rec}"
            for w, v in zip(W, V):
                if abs(d["per_well"][w] - Fraction(v)) > Fraction(1, 200) + Fraction(1, 10**9):
                    return f"A2 well {w} gets {float(d['per_well'][w])} by the command but {v} was given: {rec}"
        if track:
            after = self.volumes()
            dec, arg = collections.defaultdict(Fraction), collections.defaultdict(Fraction)
            cnt = collections.Counter()
            for w, v in d["per_well"].items():
                key = (0 if lab["trough"] else LETTERS.index(w[0]), int(w[1:]) - 1)
                dec[key] += v
                cnt[key] += 1
            if exp[0] == "accept":
                for w, v in zip(exp[1], exp[2]):
                    arg[(0 if lab["trough"] else LETTERS.index(w[0]), int(w[1:]) - 1)] += Fraction(v)
            for key in before:
                delta = sign * (Fraction(after[key]) - Fraction(before[key]))
                tol = Fraction(1, 10**6) * max(1, abs(Fraction(before[key])))
                if key not in dec and after[key] != before[key]:
                    return f"A3 well {wid(*key)} not addressed by the command but tracking changed it {before[key]} -> {after[key]}: {rec}"
                if abs(delta - dec[key]) > Fraction(cnt[key], 200) + tol:
                    return f"A3 tracking changed {wid(*key)} by {float(delta)} but the command moves {float(dec[key])}: {rec}"
                if exp[0] == "accept" and abs(delta - arg[key]) > tol:
                    return f"A3 tracking changed {wid(*key)} by {float(delta)} but {float(arg[key])} was requested"
        return None


def check_ad(case):
    s = Session(case["lab"], case.get("wl_max"))
    for i, step in enumerate(case["steps"]):
        err = s.do(step)
        if err:
            return f"step {i} ({step['op']} via {step['via']}): {err}"
    return None


def check(case):
    return check_wash(case) if case["kind"] == "wash" else check_ad(case)


# ---------------------------------------------------------------- generators
PLATE22 = {"trough": False, "rows": 2, "cols": 2, "min": 0, "max": 1000, "init": 100}
TROUGH22 = {"trough": True, "rows": 2, "cols": 2, "min": 0, "max": 1000, "init": 100}
BIG = {"trough": False, "rows": 8, "cols": 3, "min": 0, "max": 1e9, "init": 5e8}
TIP_TOKENS = [1, 2, 3, 4, 8, "T1", "T2", "T3", "T4", "T8", "Any", 0, 9]
GOOD_LC = ["Water", "Water free dispense", "DMSO_2,5%", "Ue-class (x)", ""]
LABS = [(False, 8, 12), (False, 16, 24), (False, 1, 1), (False, 1, 5), (False, 5, 1), (False, 2, 3), (False, 7, 5), (False, 26, 2),
        (False, 3, 9), (True, 8, 1), (True, 8, 4), (True, 4, 12), (True, 1, 3), (True, 16, 2), (True, 3, 3)]


def step(op, wells, tips, volumes, via="worklist", lc="Water", pos=(12, 3), arm=0, **kw):
    return dict(op=op, via=via, wells=wells, tips=tips, volumes=volumes, lc=lc, pos=list(pos) if pos is not None else None, arm=arm, **kw)


def gen_pairing():
    """small scope: every well list x every tip list of length 1..2 on a 2x2 plate (aspirate) and a 2x2 trough (dispense)"""
    wells = [wid(r, c) for c in range(2) for r in range(2)]
    for lab, op in ((PLATE22, "aspirate"), (TROUGH22, "dispense")):
        for n in (1, 2):
            for W in itertools.product(wells, repeat=n):
                for T in itertools.product(TIP_TOKENS, repeat=n):
                    yield {"kind": "ad", "lab": lab, "steps": [step(op, list(W), list(T), [1.5, 2.25][:n])]}


def gen_positions():
    for via in ("worklist", "command"):
        for g in range(-1, 70):
            yield {"kind": "ad", "lab": PLATE22, "steps": [step("aspirate", ["A01"], [1], 5, via=via, pos=(g, 1))]}
        for s in range(-1, 131):
            yield {"kind": "ad", "lab": PLATE22, "steps": [step("dispense", ["B02"], ["T8"], 5, via=via, pos=(67, s))]}
        for arm in (-1, 0, 1, 2, 3, None):
            yield {"kind": "ad", "lab": PLATE22, "steps": [step("dispense", ["A02", "B02"], [2, "T3"], [5, 6], via=via, arm=arm)]}
        for pos in (None, [1], [1, 2, 3], [5.0, 1], [5, 1.0], ["5", 1], [None, 1], [5, None]):
            yield {"kind": "ad", "lab": PLATE22, "steps": [dict(step("aspirate", "A01", [1], 5, via=via), pos=pos)]}
        for lc in GOOD_LC + [None, "a;b", ";", 5]:
            yield {"kind": "ad", "lab": PLATE22, "steps": [step("aspirate", ["A01", "B01"], [1, 2], 5, via=via, lc=lc)]}


def gen_volumes():
    up = math.inf
    for lim in (None, 200, 1000.5, 1e7):
        L = 950 if lim is None else lim
        vals = [0, 0.0, 1e-9, 0.004, 0.005, 0.00501, 0.015, 2.675, 1.005, 7, L - 0.006, L - 0.005, L - 0.004, math.nextafter(L, 0), L,
                math.nextafter(L, up), L + 0.004, L + 1, float(int(L)), -1e-9, -1, "nan", "inf", "-inf", 7158278, math.nextafter(7158278, up), 7158279]
        for v in vals:
            for op in ("aspirate", "dispense"):
                yield {"kind": "ad", "lab": BIG, "wl_max": lim, "steps": [step(op, ["B02"], [4], v), step(op, ["A03", "H03"], ["T2", 7], [v, 1.25])]}
                yield {"kind": "ad", "lab": BIG, "steps": [step(op, ["C01", "D01"], [1, 8], [3, v], via="command", cmd_max="default" if lim is None else lim)]}
    for n, m in itertools.product(range(0, 4), range(0, 4)):  # volume list length vs wells
        yield {"kind": "ad", "lab": BIG, "steps": [step("dispense", [wid(r, 1) for r in range(n)], list(range(1, n + 1)), [1.5] * m)]}
    for lab in (PLATE22, TROUGH22):  # labware limits: exactly reachable and one ulp beyond
        for v in (100, math.nextafter(100, up), 50, math.nextafter(50, up), 900, math.nextafter(900, up), 450, math.nextafter(450, up)):
            for op in ("aspirate", "dispense"):
                yield {"kind": "ad", "lab": lab, "steps": [step(op, ["A01"], [1], v)]}
                yield {"kind": "ad", "lab": lab, "steps": [step(op, ["A02", "B02"], [1, 2], v), step(op, ["A02", "B02"], [3, "T4"], [1, 0])]}


WASH_OK = dict(tips=[1, "T3"], waste_location=[52, 2], cleaner_location=[51, 1])


def gen_wash_edges():
    for via in ("worklist", "command"):
        yield {"kind": "wash", "via": via, "params": dict(WASH_OK)}
        for k, (lo, hi) in WASH_INT_RANGES.items():
            for v in (lo - 1, lo, lo + 1, hi - 1, hi, hi + 1, float(lo), None, str(lo)):
                if k == "arm" and isinstance(v, float):
                    continue  # arm=0.0 is accepted and printed as '0.0' (not generated, see module docstring)
                yield {"kind": "wash", "via": via, "params": dict(WASH_OK, **{k: v})}
        for k in ("waste_vol", "cleaner_vol"):
            for v in (0, 0.0, 0.04, 0.05, 0.06, 1, 12.34, 99.95, 99.96, 100, 100.0, math.nextafter(100, 200), 100.1, 101, -1e-9, -1, "nan", "inf", None):
                yield {"kind": "wash", "via": via, "params": dict(WASH_OK, **{k: v})}
        for k in ("waste_location", "cleaner_location"):
            for v in ([0, 1], [1, 1], [67, 128], [68, 1], [1, 0], [1, 129], [-1, 5], [5, -1], [5.0, 1], [5, 1.0], None, [5]):
                yield {"kind": "wash", "via": via, "params": dict(WASH_OK, **{k: v})}
        for n in (0, 1, 2):
            for T in itertools.product(TIP_TOKENS, repeat=n):
                yield {"kind": "wash", "via": via, "params": dict(WASH_OK, tips=list(T))}
        yield {"kind": "wash", "via": via, "params": dict(WASH_OK, tips=None)}
        yield {"kind": "wash", "via": via, "params": dict(WASH_OK, tips=[8, 7, 6, 5, 4, 3, 2, 1])}


def gen_wash_random(rng):
    def pick(lo, hi):
        return rng.choice([lo, hi, lo + 1, hi - 1, rng.randint(lo, hi), rng.randint(lo, hi)])
    nums = rng.sample(range(1, 9), rng.randint(1, 8))
    p = dict(tips=[n if rng.random() < .5 else f"T{n}" for n in nums], waste_location=[pick(1, 67), pick(1, 128)],
             cleaner_location=[pick(1, 67), pick(1, 128)])
    for k, (lo, hi) in WASH_INT_RANGES.items():
        if rng.random() < .8:
            p[k] = pick(lo, hi)
    for k in ("waste_vol", "cleaner_vol"):
        if rng.random() < .8:
            p[k] = rng.choice([rng.randint(0, 100), round(rng.uniform(0, 100), rng.randint(0, 4)), rng.choice([0.05, 0.15, 0.25, 99.95, 50.05])])
    if rng.random() < .35:  # break exactly one parameter
        k = rng.choice(list(WASH_INT_RANGES) + ["waste_vol", "cleaner_vol", "waste_location", "cleaner_location", "tips"])
        if k in WASH_INT_RANGES:
            lo, hi = WASH_INT_RANGES[k]
            p[k] = rng.choice([lo - 1, hi + 1, hi + rng.randint(1, 500), -rng.randint(1, 50), float(rng.randint(lo, hi)) if k != "arm" else 2, None])
        elif k.endswith("_vol"):
            p[k] = rng.choice([-0.1, 100.01, math.nextafter(100, 200), 1e3, "nan", None])
        elif k.endswith("location"):
            p[k] = rng.choice([[0, 1], [68, 5], [5, 0], [5, 129], [-2, 3], None])
        else:
            i = rng.randrange(len(nums))
            p[k] = p[k] + [rng.choice([nums[i], f"T{nums[i]}"])] if rng.random() < .6 else p[k] + [rng.choice(["Any", 0, 9, 16, -1])]
            rng.shuffle(p[k])
    return {"kind": "wash", "via": rng.choice(["worklist", "command"]), "params": p}


def vol_pick(rng, limit):
    t = rng.random()
    if t < .15:
        return rng.choice([0, 0.0, 1, 5, 10, 25])
    if t < .4:
        return round(rng.uniform(0, 40), 2)
    if t < .6:
        return rng.randint(0, 3999) / 100 + 0.005  # x.xx5: the rounding boundary
    if t < .7:
        return rng.choice([0.004, 0.005, 0.0051, 1e-7, 2.675, 1.005, 0.015])
    return rng.uniform(0, min(60, limit))


def gen_step(rng, lab, cur, limit):
    """one call, well-formed with prob ~.5, otherwise with exactly one (occasionally two) defects / unusual forms"""
    R, C = lab["rows"], lab["cols"]
    c = rng.randrange(C)
    k = rng.randint(1, min(8, R))
    rows = sorted(rng.sample(range(R), k)) if rng.random() < .7 else list(range(rng.randint(0, R - k), R))[:k]
    W = [wid(r, c) for r in rows]
    nums = sorted(rng.sample(range(1, 9), k))
    tips = [n if rng.random() < .5 else f"T{n}" for n in nums]
    vols = vol_pick(rng, limit) if rng.random() < .3 else [vol_pick(rng, limit) for _ in range(k)]
    op = rng.choice(["aspirate", "dispense"])
    st = step(op, W, tips, vols, via="worklist" if rng.random() < .85 else "command", lc=rng.choice(GOOD_LC),
              pos=(rng.choice([1, 2, 33, 66, 67, rng.randint(1, 67)]), rng.choice([1, 2, 64, 127, 128, rng.randint(1, 128)])), arm=rng.choice([0, 0, 1]))
    if rng.random() < .3:
        st["label"] = rng.choice(["step", "two\nlines", ""])
    for _ in range(rng.choice([0] * 10 + [1] * 9 + [2])):
        m = rng.choice(["shuffle", "dup_well", "other_col", "rev_tips", "dup_tip", "dup_tip", "any_tip", "bad_tip", "drop_tip", "extra_tip", "vol_len",
                        "vol_bad", "vol_limit", "pos_bad", "arm_bad", "lc_bad", "track_limit", "track_limit", "2d", "2d", "as", "str", "unknown_well"])
        W, tips = list(flat_f(st["wells"])), list(st["tips"])
        if len(W) != k or len(tips) != k:
            continue
        if m == "shuffle" and k > 1:
            rng.shuffle(W); st["wells"] = W
        elif m == "dup_well" and k > 1:
            i, j = rng.sample(range(k), 2); W[j] = W[i]; st["wells"] = W
        elif m == "other_col" and C > 1:
            W[rng.randrange(k)] = wid(rng.choice(rows), rng.choice([x for x in range(C) if x != c])); st["wells"] = W
        elif m == "rev_tips" and k > 1:
            st["tips"] = tips[::-1] if rng.random() < .5 else rng.sample(tips, k)
        elif m == "dup_tip" and k > 1:
            i, j = rng.sample(range(k), 2); n = tip_num(tips[i])
            if n is not None and len(tips) == k:
                tips[j] = rng.choice([n, f"T{n}"]); st["tips"] = tips
        elif m == "any_tip" and len(tips) == k:
            tips[rng.randrange(k)] = "Any"; st["tips"] = tips
        elif m == "bad_tip" and len(tips) == k:
            tips[rng.randrange(k)] = rng.choice([0, 9, 16, -1, 128, 1.0, None]); st["tips"] = tips
        elif m == "drop_tip":
            st["tips"] = tips[:-1]
        elif m == "extra_tip" and k < 8:
            st["tips"] = sorted(tips + [rng.choice([n for n in range(1, 9) if n not in nums])], key=lambda t: tip_num(t) or 0)
        elif m == "vol_len":
            st["volumes"] = [vol_pick(rng, limit) for _ in range(rng.choice([max(k - 1, 1), k + 1, 1]))]
        elif m in ("vol_bad", "vol_limit"):
            v = rng.choice([-1e-9, -5, "nan", "inf", math.nextafter(limit, math.inf), limit + 1]) if m == "vol_bad" else rng.choice([limit, math.nextafter(limit, 0)])
            st["volumes"] = v if rng.random() < .3 else [v if i == 0 else vol_pick(rng, limit) for i in rng.sample(range(k), k)]
        elif m == "pos_bad":
            st["pos"] = rng.choice([[0, 1], [68, 1], [-1, 5], [5, 0], [5, 129], [5, -3], [5.0, 2], [5, 2.0], None, ["5", 1]])
        elif m == "arm_bad":
            st["arm"] = rng.choice([-1, 2, 3, None])
        elif m == "lc_bad":
            st["lc"] = rng.choice([None, "a;b", 5])
        elif m == "track_limit":  # volume that brings the first well exactly to / one ulp beyond the labware limit
            key = (0 if lab["trough"] else rows[0], c)
            room = cur[key] - lab["min"] if op == "aspirate" else lab["max"] - cur[key]
            if 0 <= room <= limit:
                v = rng.choice([room, math.nextafter(room, math.inf), math.nextafter(room, 0) if room > 0 else 0.0])
                st["wells"], st["tips"], st["volumes"] = W[:1], tips[:1], rng.choice([v, [v]])
        elif m == "2d" and not isinstance(st["wells"], str):
            t = rng.random()
            if t < .3:
                st["wells"] = [[w] for w in W]
            elif t < .6:
                st["wells"] = [W]
            elif len(W) % 2 == 0:
                h = len(W) // 2
                st["wells"] = [[W[2 * j + i] for j in range(h)] for i in range(2)] if rng.random() < .5 else [W[:h], W[h:]]
            if rng.random() < .5:
                st["wells_as"] = "array"
        elif m == "as" and not (st["wells"] and isinstance(st["wells"][0], list)):
            st["wells_as"] = rng.choice(["array", "tuple"])
        elif m == "str" and len(W) == 1:
            st["wells"] = W[0]
        elif m == "unknown_well":
            W[rng.randrange(k)] = rng.choice([wid(min(R, 25), c), f"A{C + 1:02d}", "A1", "a01"]); st["wells"] = W
    return st


def gen_session(rng):
    trough, R, C = rng.choice(LABS)
    wl_max = rng.choice([None, None, 950, 200, 1000.5, 1e7])
    lim = 950 if wl_max is None else wl_max
    mn = rng.choice([0, 0, 10, 2.5])
    mx = rng.choice([1000, 1000, 300.5, 1e9])
    init = rng.choice([mn, mx, (mn + mx) / 2, round(rng.uniform(mn, mx), 3), mn + 100.0 if mn + 100 <= mx else mx])
    lab = {"trough": trough, "rows": R, "cols": C, "min": mn, "max": mx, "init": init}
    return lab, wl_max, lim


# ---------------------------------------------------------------- harness
def key_of(case):
    return json.dumps(case, sort_keys=True, default=str)


def write_replay(case, what):
    short = hashlib.sha1(key_of(case).encode()).hexdigest()[:10]
    rel = os.path.join("replays", PROP, f"bounded_{short}.json")
    os.makedirs(os.path.join(VERIF, "replays", PROP), exist_ok=True)
    with open(os.path.join(VERIF, rel), "w") as fh:
        json.dump({"property": PROP, "bounded_replay": {"script": "c13.py", "case": case}, "what": what}, fh, indent=1)
    return rel


def replay(path):
    if not os.path.isabs(path) and not os.path.exists(path):
        path = os.path.join(VERIF, path)
    with open(path) as fh:
        case = json.load(fh)["bounded_replay"]["case"]
    what = check(case)
    print("case:", json.dumps(case))
    print("observed:", what or "property holds on this case")
    return 1 if what else 0


def main():
    if sys.argv[1] == "--replay":
        sys.exit(replay(sys.argv[2]))
    tier, seed = sys.argv[1], int(sys.argv[2])
    budget = 14 if tier == "quick" else 200
    t0 = time.time()
    rng = random.Random(seed)
    seen, failures, fail_kinds, samples = set(), [], collections.Counter(), []
    parts = collections.OrderedDict()

    def record(case, what, part, bound, n):
        p = parts.setdefault(part, {"function": part, "kind": "bounded enumeration / seeded random", "bound": bound, "evaluations": 0})
        p["evaluations"] += n
        k = key_of(case)
        new = k not in seen
        seen.add(k)
        if what and new:
            cat = re.sub(r"^step \d+ \(\w+ via \w+\): ", "", what)[:22]
            fail_kinds[cat] += 1
            if fail_kinds[cat] <= 3 and len(failures) < 12:
                failures.append({"what": f"{case['kind']}: {what}"[:400], "replay": write_replay(case, what)})

    def sweep(gen, part, bound):
        for case in gen:
            record(case, check(case), part, bound, len(case.get("steps", [1])))

    sweep(gen_positions(), "evo_aspirate/evo_dispense grid, site, arm, liquid class", "grid -1..69, site -1..130, arm -1..3/None, malformed positions, liquid classes; worklist method and command function")
    sweep(gen_volumes(), "evo_aspirate/evo_dispense volume limits", "0, rounding boundaries, limit-0.006..limit+1 incl. one ulp below/above for worklist limits default/200/1000.5/1e7, 7158278(+ulp,+1), negative, nan, inf; volume-list lengths 0..3 x wells 0..3; labware min/max exactly reached and one ulp beyond on plate and trough")
    sweep(gen_wash_edges(), "evo_wash parameter ranges", "each parameter at lo-1, lo, lo+1, hi-1, hi, hi+1, float, None, str with the others fixed; all tip lists of length 0..2 over 13 tip tokens; function and worklist method")
    sweep(gen_pairing(), "evo_aspirate/evo_dispense wells x tips pairing (small scope)", "all well lists x all tip lists of length 1..2 (13 tip tokens: ints, Tip members, Any, 0, 9) on a 2x2 plate (aspirate) and a 2-virtual-row x 2 trough (dispense)")
    i = 0
    while time.time() - t0 < budget:
        i += 1
        if i % 4 == 0:
            for _ in range(5):
                case = gen_wash_random(rng)
                record(case, check(case), "evo_wash (random)", "random in-range tuples (boundaries favoured, defaults omitted at random) with at most one broken parameter; time budget", 1)
        else:
            lab, wl_max, lim = gen_session(rng)
            case = {"kind": "ad", "lab": lab, "wl_max": wl_max, "steps": []}
            s, what = Session(lab, wl_max), None
            for j in range(rng.choice([1, 2, 3, 4, 6])):  # steps are generated against the live labware state
                st = gen_step(rng, lab, s.volumes(), lim)
                case["steps"].append(st)
                err = s.do(st)
                if err:
                    what = f"step {j} ({st['op']} via {st['via']}): {err}"
                    break
            record(case, what, "evo_aspirate/evo_dispense sessions (random)", "1..6 calls on one labware (15 geometries: plates 1x1..16x24, 26x2, troughs 1..16 virtual rows) with live volume tracking; ~50% of calls carry one defect or unusual form (shuffled/repeated wells, other column, reversed/repeated/invalid tips incl. int vs Tip of the same tip, length mismatches, limit volumes, 2-D / ndarray / tuple / str wells); time budget", len(case["steps"]))
        if len(samples) < 4 and i % 5 == 1:
            samples.append(case)
    print(json.dumps({
        "evaluations": sum(p["evaluations"] for p in parts.values()), "distinct": len(seen),
        "rule": "a case is (labware spec, worklist limit, list of calls with all arguments) or one evo_wash parameter set; evaluations count executed calls; distinct = distinct canonical JSON of the case",
        "samples": samples, "parts": list(parts.values()), "failures": failures}, default=str))


if __name__ == "__main__":
    main()
