#!/usr/bin/env python
"""Bounded contract monitor for C14 (DilutionPlan is self-consistent and executable as planned).

Plan level (every returned plan): whole-microlitre transfers with min_transfer <= v <= vmax[column]; every column
prepared exactly once from the stock or from a column prepared earlier; step counters; budget of every source column
(known finding: skipped, together with the execution, for plans that overdraw); reported x / xmin / xmax / v_stock /
v_diluent equal the values implied by the instructions in exact Fraction arithmetic; targets follow the requested
linear / log spacing and the transfers are the rounded / ceiled ideal volumes; only ValueError may be raised and
the documented invalid requests must raise it.
Execution level (to_worklist on generously sized labware, both devices): no exception; the tracked composition and an
independent Fraction interpreter of the emitted A/D records both give exactly the reported concentrations; volumes
left in every well; stock consumption == v_stock; diluent consumption <= v_diluent; destination plate filled.
"""
import hashlib
import json
import logging
import math
import os
import random
import sys
import time
import warnings
from fractions import Fraction as Fr

sys.path.insert(0, os.environ.get("PYVC_REPO", "/repo"))
import numpy as np  # noqa: E402

warnings.simplefilter("ignore")
logging.disable(logging.CRITICAL)
np.seterr(all="ignore")

from robotools import DilutionPlan, EvoWorklist, FluentWorklist, Labware, Trough  # noqa: E402

PROP = "C14"
VERIF = os.path.dirname(os.path.dirname(os.path.abspath(__file__)))
REPLAYS = os.path.join(VERIF, "replays", PROP)
ROWS = "ABCDEFGHIJKLMNOPQRSTUVWXYZ"


def close(a, b, rel=1e-9, ab=1e-9):
    a, b = float(a), float(b)
    return math.isfinite(a) and math.isfinite(b) and abs(a - b) <= ab + rel * max(abs(a), abs(b))


# --------------------------------------------------------------------------------------------- plan level oracle
def vmax_list(p):
    v = p["vmax"]
    return list(v) if isinstance(v, list) else [v] * p["C"]


def must_raise(p):
    """documented invalid requests"""
    if p["stock"] < p["xmax"]:
        return "stock < xmax"
    if p["mode"] not in ("log", "linear"):
        return "unknown mode"
    if isinstance(p["vmax"], list) and len(p["vmax"]) not in (1, p["C"]):
        return "vmax of wrong length"
    nums = [p["xmin"], p["xmax"], p["stock"], p["min_transfer"]] + vmax_list(p)
    if any(isinstance(x, float) and math.isnan(x) for x in nums):
        return "a parameter is NaN (no plan with whole-microlitre volumes exists)"
    if p["mode"] == "log" and p["xmin"] < 0:
        return "log spacing down to a negative concentration"
    return None


def make_plan(p):
    """-> (plan | None, problems)"""
    try:
        plan = DilutionPlan(**p)
    except ValueError:
        return None, []
    except Exception as ex:  # noqa
        return None, [f"{type(ex).__name__} instead of ValueError: {ex}"]
    why = must_raise(p)
    if why:
        return plan, [f"a plan was returned although {why}"]
    return plan, []


def ideal_target(p, r, c):
    R, C = p["R"], p["C"]
    N, i = R * C, c * R + r
    t = i / (N - 1) if N > 1 else 0.0
    if p["mode"] == "linear":
        return p["xmax"] + (p["xmin"] - p["xmax"]) * t
    return math.exp(math.log(p["xmax"]) + (math.log(p["xmin"]) - math.log(p["xmax"])) * t)


def check_plan(p, plan):
    """-> (problems, info) ; info: exact concentrations, draws, whether the known budget finding applies"""
    bad = []
    R, C, mt = p["R"], p["C"], p["min_transfer"]
    vm = vmax_list(p)
    ins = list(plan.instructions)
    info = {"overdraw": False, "fanout": 0, "conc": None, "drawn": None}
    if len(ins) != C or sorted(int(i[0]) for i in ins) != list(range(C)):
        return [f"partial / malformed plan: columns {[i[0] for i in ins]} for C={C}"], info
    if (plan.R, plan.C, plan.N) != (R, C, R * C):
        bad.append("R/C/N attributes wrong")
    if [float(x) for x in plan.vmax] != [float(x) for x in vm]:
        bad.append(f"plan.vmax {list(plan.vmax)} != requested {vm}")
    conc, steps, drawn = {}, {}, {c: [Fr(0)] * R for c in range(C)}
    v_stock = Fr(0)
    x = np.asarray(plan.x, dtype=float)
    if x.shape != (R, C):
        return bad + [f"x has shape {x.shape}"], info
    nsrc = {}
    for c, dsteps, src, v in ins:
        c = int(c)
        v = np.asarray(v, dtype=float)
        if v.shape != (R,) or not np.all(np.isfinite(v)):
            bad.append(f"column {c}: transfer volumes {v} malformed")
            return bad, info
        if np.any(v != np.round(v)):
            bad.append(f"column {c}: transfer volumes not whole microlitres: {v.tolist()}")
        if np.any(v < mt):
            bad.append(f"column {c}: transfer {v.tolist()} below min_transfer {mt}")
        if np.any(v > vm[c]):
            bad.append(f"column {c}: transfer {v.tolist()} above vmax {vm[c]} of the column")
        fv = [Fr(float(t)) for t in v]
        if isinstance(src, str):
            if src != "stock":
                bad.append(f"column {c}: unknown source {src!r}")
                return bad, info
            sc, st = [Fr(p["stock"])] * R, 0
            v_stock += sum(fv)
        else:
            src = int(src)
            if src not in conc:
                bad.append(f"column {c}: prepared from column {src} which is not prepared earlier")
                return bad, info
            sc, st = conc[src], steps[src] + 1
            drawn[src] = [a + b for a, b in zip(drawn[src], fv)]
            nsrc[src] = nsrc.get(src, 0) + 1
        if int(dsteps) != st:
            bad.append(f"column {c}: dilution step counter {dsteps}, implied {st}")
        conc[c] = [fv[r] * sc[r] / Fr(vm[c]) for r in range(R)]
        steps[c] = st
        for r in range(R):
            if not close(x[r, c], conc[c][r], ab=0):
                bad.append(f"x[{r},{c}]={x[r, c]!r} but the instructions imply {float(conc[c][r])!r}")
                break
            # spacing of the targets and rounding of the transfer volume (round from stock, ceil from a column)
            ideal = ideal_target(p, r, c)
            if not close(np.asarray(plan.ideal_x)[r, c], ideal, rel=1e-9, ab=0):
                bad.append(f"ideal_x[{r},{c}]={np.asarray(plan.ideal_x)[r, c]!r}, {p['mode']} spacing gives {ideal!r}")
                break
            q = vm[c] * ideal / float(sc[r])
            lo, hi = (q - 0.5, q + 0.5) if st == 0 else (q, q + 1)
            if not (lo - 1e-6 * max(1, q) <= v[r] <= hi + 1e-6 * max(1, q)):
                bad.append(f"column {c} row {r}: transfer {v[r]} is not the {'rounded' if st == 0 else 'ceiled'} ideal volume {q!r}")
                break
    allx = [conc[c][r] for c in range(C) for r in range(R)]
    if not close(plan.xmin, min(allx), ab=0) or not close(plan.xmax, max(allx), ab=0):
        bad.append(f"xmin/xmax {plan.xmin}/{plan.xmax} != implied {float(min(allx))}/{float(max(allx))}")
    if not close(plan.v_stock, v_stock, ab=1e-9):
        bad.append(f"v_stock {plan.v_stock} != sum of stock transfers {float(v_stock)}")
    v_dil = R * sum(Fr(t) for t in vm) - v_stock
    if not close(plan.v_diluent, v_dil, ab=1e-6):
        bad.append(f"v_diluent {plan.v_diluent} != R*sum(vmax)-v_stock = {float(v_dil)}")
    if int(plan.max_steps) != max(steps.values()):
        bad.append(f"max_steps {plan.max_steps} != {max(steps.values())}")
    over = [(s, r) for s in range(C) for r in range(R) if drawn[s][r] > Fr(vm[s])]
    info.update(overdraw=bool(over), fanout=max(nsrc.values(), default=0), conc=conc, drawn=drawn)
    # budget clause: known, accepted finding (known_findings.json, C14) -> never reported
    return bad, info


# ------------------------------------------------------------------------------------------ execution level oracle
def well_of(dev, lab, pos):
    """own position -> (row, col) mapping; lab = dict(rows, cols, trough)"""
    if lab["trough"] and dev == "fluent":
        return 0, pos - 1
    n = lab["rows"]
    r, c = (pos - 1) % n, (pos - 1) // n
    return (0 if lab["trough"] else r), c


def interpret(records, dev, labs, state):
    """Fraction interpreter of A/D records. state[name][(r,c)] = [volume, stock_amount]"""
    tip = None
    for rec in records:
        f = rec.split(";")
        if f[0] in ("A", "D"):
            lab = labs[f[1]]
            idx = well_of(dev, lab, int(f[4]))
            vol = Fr(f[6])
            cell = state[f[1]][idx]
            if f[0] == "A":
                if vol > cell[0] or cell[0] == 0:
                    raise ValueError(f"record {rec!r} aspirates more than the well holds ({float(cell[0])})")
                part = cell[1] * vol / cell[0]
                cell[0] -= vol
                cell[1] -= part
                tip = (vol, part)
            else:
                if tip is None or tip[0] != vol:
                    raise ValueError(f"record {rec!r} dispenses without a matching aspirate")
                cell[0] += vol
                cell[1] += tip[1]
                tip = None
        elif f[0] in ("W", "W1", "W2", "W3", "W4", "WD", "F", "B", "C", "S"):
            continue
        else:
            raise ValueError(f"unexpected record {rec!r}")


def run_exec(p, e, plan, info):
    bad = []
    R, C = p["R"], p["C"]
    vm = vmax_list(p)
    dev = e["dev"]
    WL = EvoWorklist if dev == "evo" else FluentWorklist
    wl = WL(max_volume=e["wl_max"])
    total_dil = R * sum(Fr(t) for t in vm) - sum(sum(info_v) for info_v in e["_allv"])
    v_stock = Fr(float(plan.v_stock))
    need_s, need_d = float(v_stock) + e["slack"], float(total_dil) + e["slack"]
    tmin = e["trough_min"]
    # stock / diluent troughs
    if e["same_trough"]:
        init = [0.0] * 3
        init[0], init[2] = tmin + need_s, (tmin + need_d) or 1.0
        T = Trough("T", e["s_rows"], 3, min_volume=tmin, max_volume=1e7, initial_volumes=init, column_names=["S", None, "D"])
        stock_l, dil_l, sc, dc = T, T, 0, 2
        tspec = {"T": dict(rows=e["s_rows"], cols=3, trough=True)}
        tinit = {"T": {(0, 0): init[0], (0, 1): 0.0, (0, 2): init[2]}}
    else:
        sc, dc = e["s_col"], e["d_col"]
        si = [0.0] * (sc + 1)
        si[sc] = tmin + need_s
        di = [0.0] * (dc + 1)
        di[dc] = (tmin + need_d) or 1.0
        stock_l = Trough("St", e["s_rows"], sc + 1, min_volume=tmin, max_volume=1e7, initial_volumes=si, column_names=[None] * sc + ["S"])
        dil_l = Trough("Di", e["d_rows"], dc + 1, min_volume=tmin, max_volume=1e7, initial_volumes=di, column_names=[None] * dc + ["D"])
        tspec = {"St": dict(rows=e["s_rows"], cols=sc + 1, trough=True), "Di": dict(rows=e["d_rows"], cols=dc + 1, trough=True)}
        tinit = {"St": {(0, c): si[c] for c in range(sc + 1)}, "Di": {(0, c): di[c] for c in range(dc + 1)}}
    pr, pc = R + e["extra_rows"], C + e["extra_cols"]
    plate = Labware("DP", pr, pc, min_volume=0, max_volume=max(vm) * 1.5 + 1)
    labs = dict(tspec, DP=dict(rows=pr, cols=pc, trough=False))
    dest, v_dest = None, None
    if e["v_dest"]:
        v_dest = e["v_dest"]
        dest = Labware("DST", pr, pc, min_volume=0, max_volume=v_dest + 1)
        labs["DST"] = dict(rows=pr, cols=pc, trough=False)
    kw = dict(worklist=wl, stock=stock_l, stock_column=sc, diluent=dil_l, diluent_column=dc, dilution_plate=plate,
              mix_threshold=e["mix_threshold"], mix_wash=e["mix_wash"], mix_repeat=e["mix_repeat"], mix_volume=e["mix_volume"])
    if dest is not None:
        kw.update(destination_plate=dest, v_destination=v_dest)
    try:
        plan.to_worklist(**kw)
    except Exception as ex:  # noqa
        return [f"to_worklist ({dev}, wl.max_volume={e['wl_max']}) raised {type(ex).__name__}: {ex}"]
    conc, drawn = info["conc"], info["drawn"]
    # --- tracked state of the real labware
    vols = plate.volumes
    for r in range(pr):
        for c in range(pc):
            inside = r < R and c < C
            exp_v = (Fr(vm[c]) - drawn[c][r] - (Fr(v_dest) if dest is not None else 0)) if inside else Fr(0)
            if not close(vols[r, c], exp_v, ab=1e-6):
                bad.append(f"dilution plate volume [{r},{c}] = {vols[r, c]!r}, expected {float(exp_v)!r}")
                return bad
            for lw in ([plate, dest] if dest is not None else [plate]):
                fr = {k: float(a[r, c]) for k, a in lw.composition.items()}
                if not inside:
                    if any(f != 0 for f in fr.values()):
                        bad.append(f"{lw.name}[{r},{c}] outside the plan has composition {fr}")
                        return bad
                    continue
                got = fr.get("S", 0.0) * p["stock"]
                tot = sum(fr.values())
                if not all(math.isfinite(f) and -1e-12 <= f <= 1 + 1e-9 for f in fr.values()) or not close(tot, 1, ab=1e-9):
                    bad.append(f"{lw.name}[{r},{c}]: fractions {fr} not finite / in [0,1] / summing to 1")
                    return bad
                if set(k for k, f in fr.items() if f > 0) - {"S", "D"}:
                    bad.append(f"{lw.name}[{r},{c}]: unexpected components {fr}")
                    return bad
                if not close(got, conc[c][r], rel=1e-9, ab=1e-12 * p["stock"]) or not close(got, plan.x[r, c], rel=1e-9, ab=1e-12 * p["stock"]):
                    bad.append(f"{lw.name}[{r},{c}]: tracked concentration {got!r}, reported x {plan.x[r, c]!r}, implied {float(conc[c][r])!r}")
                    return bad
            if dest is not None and not close(dest.volumes[r, c], v_dest if inside else 0, ab=1e-6):
                bad.append(f"destination volume [{r},{c}] = {dest.volumes[r, c]!r}, expected {v_dest if inside else 0}")
                return bad
    used_s = Fr(tinit[stock_l.name][(0, sc)]) - Fr(float(stock_l.volumes[0, sc]))
    used_d = Fr(tinit[dil_l.name][(0, dc)]) - Fr(float(dil_l.volumes[0, dc]))
    if not close(used_s, v_stock, ab=1e-6):
        bad.append(f"stock consumed {float(used_s)} != v_stock {float(v_stock)}")
    if float(used_d) > float(plan.v_diluent) + 1e-6 or not close(used_d, total_dil, ab=1e-6):
        bad.append(f"diluent consumed {float(used_d)}; v_diluent {plan.v_diluent}; fill-ups add up to {float(total_dil)}")
    for lw in {id(stock_l): stock_l, id(dil_l): dil_l}.values():
        for c in range(lw.n_columns):
            if (lw.name, c) not in {(stock_l.name, sc), (dil_l.name, dc)} and lw.volumes[0, c] != tinit[lw.name][(0, c)]:
                bad.append(f"unrelated trough column {lw.name}[{c}] changed")
    if bad:
        return bad
    # --- independent interpretation of the emitted records
    state = {n: {(r, c): [Fr(0), Fr(0)] for r in range(1 if s["trough"] else s["rows"]) for c in range(s["cols"])} for n, s in labs.items()}
    for n, d in tinit.items():
        for idx, v in d.items():
            state[n][idx] = [Fr(v), Fr(v) if (n, idx[1]) == (stock_l.name, sc) else Fr(0)]
    try:
        interpret(list(wl), dev, labs, state)
    except ValueError as ex:
        return [f"records not executable: {ex}"]
    exact = all(Fr(t).denominator in (1, 2, 4, 5, 10, 20, 25, 50, 100) for t in vm)  # record volumes have 2 decimals
    for r in range(R):
        for c in range(C):
            v, a = state["DP"][(r, c)]
            exp_v = Fr(vm[c]) - drawn[c][r] - (Fr(v_dest) if dest is not None else 0)
            got = a / v * Fr(p["stock"]) if v else None
            if exp_v == 0:  # the column was used up completely by the later columns: nothing left to measure
                ok = v == 0 if exact else close(v, 0, ab=0.02)
            elif exact:
                ok = v == exp_v and got == conc[c][r]
            else:
                ok = close(v, exp_v, ab=0.02) and got is not None and close(got, conc[c][r], rel=1e-3)
            if not ok:
                return [f"records give well [{r},{c}] volume {float(v)} conc {None if got is None else float(got)}; plan implies {float(exp_v)} / {float(conc[c][r])}"]
            if dest is not None:
                v2, a2 = state["DST"][(r, c)]
                if v2 != Fr(str(v_dest)) or (exact and a2 / v2 * Fr(p["stock"]) != conc[c][r]):
                    return [f"records give destination [{r},{c}] volume {float(v2)} conc {float(a2 / v2 * Fr(p['stock']))}"]
    return bad


def all_transfers(plan):
    return [[Fr(float(t)) for t in np.asarray(v, dtype=float)] for _, _, _, v in plan.instructions]


def run_case(case):
    """-> (problems, tags)"""
    p = case["plan"]
    plan, bad = make_plan(p)
    tags = {"planned": plan is not None, "known": False, "executed": False, "fanout": 0}
    if plan is None or bad:
        return bad, tags
    bad, info = check_plan(p, plan)
    tags["fanout"] = info["fanout"]
    if info["overdraw"]:
        tags["known"] = True  # known finding C14: budget clause + execution skipped for this plan
        return bad, tags
    if bad or not case.get("exec"):
        return bad, tags
    e = dict(case["exec"])
    e["_allv"] = all_transfers(plan)
    if e.get("v_dest"):
        room = min(float(Fr(vmax_list(p)[c]) - info["drawn"][c][r]) for c in range(p["C"]) for r in range(p["R"]))
        if room < e["v_dest"]:
            e["v_dest"] = None
    tags["executed"] = True
    return run_exec(p, e, plan, info), tags


# ----------------------------------------------------------------------------------------------------- generators
def nice(x):
    return float(f"{x:.3g}")


def gen_plan(rng):
    mode = rng.choice(["log", "log", "linear"])
    R = rng.choice([1, 1, 2, 3, 4, 4, 6, 8, 8, 12, 16])
    C = rng.choice([1, 2, 3, 4, 6, 8, 10, 12, 12, 16, 24])
    xmax = nice(10 ** rng.uniform(-1, 3))
    if mode == "log":
        xmin = nice(xmax / 10 ** rng.uniform(0.3, 4.5))
    else:
        xmin = nice(xmax * rng.choice([0.01, 0.05, 0.1, 0.3, 0.5, 0.9, 0.93]))
    stock = nice(xmax * rng.choice([1, 1, 1, 1.2, 1.5, 2, 5, 10, 70]))
    pool = [30, 50, 100, 100, 150, 200, 250, 500, 1000, 1000, 1500, 950.5, 120.25]
    k = rng.random()
    if k < 0.6:
        vmax = rng.choice(pool)
    elif k < 0.8:
        vmax = [rng.choice(pool) for _ in range(C)]
    elif k < 0.9:
        a, b = rng.sample(pool, 2)
        vmax = [a if c % 2 == 0 else b for c in range(C)]
    else:
        a, b = sorted(rng.sample(pool, 2))
        vmax = [b if c < C // 2 else a for c in range(C)]
    mt = rng.choice([1, 1, 2, 5, 10, 10, 15, 20, 20, 25, 30, 50, 100])
    return dict(xmin=xmin, xmax=xmax, R=R, C=C, stock=stock, mode=mode, vmax=vmax, min_transfer=mt)


def gen_exec(rng, p):
    R = p["R"]
    vm = vmax_list(p)
    return dict(
        dev=rng.choice(["evo", "fluent"]),
        wl_max=rng.choice([950, 950, 1000, 200, 100, 50, 37.5]),
        s_rows=rng.choice([1, 2, R, 8, 16]), d_rows=rng.choice([1, 3, R, 8]),
        s_col=rng.choice([0, 0, 1, 2]), d_col=rng.choice([0, 0, 1]),
        same_trough=rng.random() < 0.25,
        trough_min=rng.choice([0, 0, 1000, 2500.5]), slack=rng.choice([0, 0, 10, 5000]) if all(float(t).is_integer() for t in vm) else 10,
        extra_rows=rng.choice([0, 0, 1, 2]) if R < 25 else 0, extra_cols=rng.choice([0, 0, 1, 3]),
        v_dest=rng.choice([None, None, 1, 5, 10, 12.5, 20]),
        mix_threshold=rng.choice([0.05, 0.05, 0, 0.3, 1.0]), mix_repeat=rng.choice([0, 1, 2, 2, 3]),
        mix_volume=rng.choice([0.8, 0.8, 0.5, 0.33, 1.0]), mix_wash=rng.choice([1, 2, 3, "flush", "reuse"]),
    )


def boundary_variants(p, plan):
    """re-plan with min_transfer / vmax pushed onto the transfer volumes the planner just produced"""
    vals = set()
    for _, st, _, v in plan.instructions:
        v = np.asarray(v, dtype=float)
        vals.update({float(v.min()), float(v.max()), float(v[-1]), float(v.min()) + 1, float(v.max()) + 1})
    out = []
    for m in sorted(vals):
        if m >= 1 and m != p["min_transfer"]:
            out.append(dict(p, min_transfer=int(m)))
    return out


def grid_plans():
    """small-scope sweep around realistic 24/48/96/384-well series (the shapes used in the docs and tests)"""
    for mode in ("log", "linear"):
        for R, C in ((1, 1), (1, 4), (2, 3), (4, 6), (4, 12), (8, 12), (6, 8), (16, 24), (3, 24), (10, 1)):
            for xmin, xmax, stock in ((0.01, 30, 30), (0.05, 30, 30), (0.001, 30, 30), (0.01, 10, 20), (1, 10, 20), (0.3, 30, 50), (13, 14, 1000), (100.0, 1000, 10000)):
                for vmax in (100, 1000, 950, 30):
                    for mt in (1, 10, 20, 30, 50):
                        yield dict(xmin=xmin, xmax=xmax, R=R, C=C, stock=stock, mode=mode, vmax=vmax, min_transfer=mt)
    for vmax in ([1000, 500, 1500], [100, 30, 100], [30, 100, 30]):
        for mode in ("log", "linear"):
            for mt in (1, 5, 20):
                for xmin, xmax, stock in ((0.01, 10, 20), (13, 14, 1000), (1, 10, 10), (5, 10, 10)):
                    for R in (1, 4):
                        yield dict(xmin=xmin, xmax=xmax, R=R, C=3, stock=stock, mode=mode, vmax=vmax, min_transfer=mt)


INVALID = [
    dict(xmin=1, xmax=10, R=2, C=3, stock=9.99, mode="log", vmax=100, min_transfer=1),
    dict(xmin=1, xmax=10, R=2, C=3, stock=math.nextafter(10, 0), mode="linear", vmax=100, min_transfer=1),
    dict(xmin=1, xmax=10, R=2, C=3, stock=20, mode="lin", vmax=100, min_transfer=1),
    dict(xmin=1, xmax=10, R=2, C=3, stock=20, mode="LOG", vmax=100, min_transfer=1),
    dict(xmin=1, xmax=10, R=2, C=3, stock=20, mode="log", vmax=[100, 100], min_transfer=1),
    dict(xmin=1, xmax=10, R=2, C=3, stock=20, mode="log", vmax=[100, 100, 100, 100], min_transfer=1),
    dict(xmin=1, xmax=10, R=2, C=1, stock=20, mode="log", vmax=[100, 100], min_transfer=1),
    # requests that cannot be met because a number is not one: a plan must not come back with NaN volumes
    dict(xmin=float("nan"), xmax=10, R=2, C=3, stock=20, mode="log", vmax=100, min_transfer=1),
    dict(xmin=1, xmax=float("nan"), R=2, C=3, stock=20, mode="linear", vmax=100, min_transfer=1),
    dict(xmin=1, xmax=10, R=2, C=3, stock=float("nan"), mode="log", vmax=100, min_transfer=1),
    dict(xmin=1, xmax=10, R=2, C=3, stock=20, mode="log", vmax=float("nan"), min_transfer=1),
    dict(xmin=1, xmax=10, R=2, C=3, stock=20, mode="linear", vmax=[100, float("nan"), 100], min_transfer=1),
    dict(xmin=1, xmax=10, R=2, C=3, stock=20, mode="log", vmax=100, min_transfer=float("nan")),
    dict(xmin=-1, xmax=10, R=2, C=3, stock=20, mode="log", vmax=100, min_transfer=1),
    dict(xmin=-0.5, xmax=9, R=8, C=4, stock=90, mode="log", vmax=[1000, 100, 1000, 1000], min_transfer=10),
]


# --------------------------------------------------------------------------------------------------------- driver
def key_of(case):
    return hashlib.sha1(json.dumps(case, sort_keys=True).encode()).hexdigest()[:12]


def write_replay(case, what):
    os.makedirs(REPLAYS, exist_ok=True)
    path = os.path.join(REPLAYS, f"bounded_{key_of(case)}.json")
    with open(path, "w") as f:
        json.dump({"property": PROP, "bounded_replay": {"script": "c14.py", "case": case}, "what": what}, f, indent=1)
    return os.path.relpath(path, VERIF)


def main(tier, seed):
    t0 = time.time()
    budget = 15 if tier == "quick" else 240
    seen, failures, samples = set(), [], []
    cnt = {"plan": 0, "exec": 0, "known": 0, "refused": 0, "fanout_exec": 0, "invalid": 0}

    def do(case):
        k = key_of(case)
        if k in seen:
            return None
        seen.add(k)
        bad, tags = run_case(case)
        cnt["plan"] += 1
        cnt["exec"] += tags["executed"]
        cnt["known"] += tags["known"]
        cnt["refused"] += not tags["planned"]
        cnt["fanout_exec"] += tags["executed"] and tags["fanout"] > 1
        if bad and len(failures) < 25:
            what = f"DilutionPlan({case['plan']})" + (f" exec {case['exec']}" if case.get("exec") and tags["executed"] else "") + f": {bad[0]}"
            failures.append({"what": what[:600], "replay": write_replay(case, bad[0])})
        if tags["planned"] and len(samples) < 4 and (tags["executed"] or len(samples) < 2):
            samples.append(case)
        return tags

    for p in INVALID:
        do({"plan": p})
        cnt["invalid"] += 1
    # 1. grid sweep (plan level), every 7th executable plan and every fan-out plan is also executed
    rng = random.Random(f"{seed}:grid")
    for i, p in enumerate(grid_plans()):
        if time.time() - t0 > budget * 0.45:
            break
        tags = do({"plan": p})
        if tags and tags["planned"] and not tags["known"] and (tags["fanout"] > 1 and rng.random() < 0.3 or i % 23 == 0) and p["R"] * p["C"] <= 96:
            do({"plan": p, "exec": gen_exec(rng, p)})
    # 2. seeded random plans + boundary pushing + executions
    i = 0
    while time.time() - t0 < budget:
        rng = random.Random(f"{seed}:{i}")
        i += 1
        p = gen_plan(rng)
        plan, _ = make_plan(p)
        tags = do({"plan": p})
        if plan is None or tags is None:
            continue
        for q in boundary_variants(p, plan)[: 6 if tier == "quick" else 12]:
            t2 = do({"plan": q})
            if t2 and t2["planned"] and not t2["known"] and t2["fanout"] > 1 and rng.random() < 0.15 and q["R"] * q["C"] <= 96:
                do({"plan": q, "exec": gen_exec(rng, q)})
        big = p["R"] * p["C"] > 96
        if not tags["known"] and rng.random() < (0.03 if big else 0.5 if tags["fanout"] > 1 else 0.25):
            do({"plan": p, "exec": gen_exec(rng, p)})
    out = {
        "evaluations": cnt["plan"],
        "distinct": len(seen),
        "rule": "case = DilutionPlan keyword set (+ optional execution configuration); distinct = distinct JSON of the case; "
                "grid sweep + random.Random(seed:i) parameter sets + re-planning with min_transfer pushed onto produced transfer volumes; "
                f"{cnt['refused']} refused (ValueError), {cnt['known']} skipped for budget+execution (known finding C14), "
                f"{cnt['exec']} executed with to_worklist ({cnt['fanout_exec']} with fan-out)",
        "samples": samples[:4],
        "parts": [
            {"function": "DilutionPlan.__init__", "kind": "bounded enumeration + seeded random", "bound": "R<=16, C<=24, both modes, scalar/vector vmax, min_transfer 1..100", "evaluations": cnt["plan"] - cnt["exec"]},
            {"function": "DilutionPlan.to_worklist (Evo+Fluent) + composition tracking + record interpreter", "kind": "bounded seeded random", "bound": "R*C<=96 mostly, <=384 rarely; wl.max_volume 37.5..1000", "evaluations": cnt["exec"]},
        ],
        "failures": failures,
        "seconds": round(time.time() - t0, 1),
    }
    print(json.dumps(out))
    return 0


def replay(path):
    with open(path if os.path.exists(path) else os.path.join(VERIF, path)) as f:
        case = json.load(f)["bounded_replay"]["case"]
    bad, tags = run_case(case)
    print(f"case: {json.dumps(case)}")
    print(f"tags: {tags}")
    for b in bad:
        print("VIOLATION:", b)
    print("still fails" if bad else "passes")
    return 1 if bad else 0


if __name__ == "__main__":
    if len(sys.argv) >= 3 and sys.argv[1] == "--replay":
        sys.exit(replay(sys.argv[2]))
    sys.exit(main(sys.argv[1] if len(sys.argv) > 1 else "quick", int(sys.argv[2]) if len(sys.argv) > 2 else 0))
