#!/usr/bin/env python
"""Bounded contract monitor for C17: saving writes exactly the records, one per line (CRLF, Latin-1, no trailing
line break), replacing earlier content; non-.gwl names are refused; `with` starts empty and auto-saves; str() shows
the records.

A case is a little script: pre-existing files, a worklist (BaseWorklist / EvoWorklist / FluentWorklist, with or
without a file path given as str or Path), steps before / inside zero or more `with` blocks / after.  Steps either
produce records (raw appends with Latin-1 text, every record type of the API) or modify the list (del, clear) or save
explicitly.  Oracle (independent of save()): after every save / with-exit the BYTES of the file must equal
b"\\r\\n".join(latin-1 of each record at that moment); decoding + splitting at CRLF returns the record list; the
directory tree contains exactly the files of the model (pre-existing ones untouched, refused names not created);
refused names raise and change nothing; inside `with` the list starts empty; str()/repr() are the LF-joined records.
"""
import hashlib
import itertools
import json
import os
import random
import shutil
import sys
import tempfile
import time
import warnings
from pathlib import Path

PROP = "C17"
VERIF = os.path.dirname(os.path.dirname(os.path.abspath(__file__)))
REPO = os.environ.get("PYVC_REPO", "/repo")
if REPO not in sys.path:
    sys.path.insert(0, REPO)
warnings.simplefilter("ignore")
import logging  # noqa: E402

logging.disable(logging.CRITICAL)
from robotools import BaseWorklist, EvoWorklist, FluentWorklist, Labware, Trough  # noqa: E402

CLS = {"Base": BaseWorklist, "Evo": EvoWorklist, "Fluent": FluentWorklist}
RULE = ("one case = (device, constructor path or none, pre-existing files, steps before / in `with` blocks / after), deduplicated by "
        "canonical JSON. Exhaustive: all record lists of length 0..3 over {F;, C;µL, W1;, B;} x 6 kinds of pre-existing file "
        "(none, empty, shorter, longer, same length, trailing CRLF) x path as str/Path x 7 save modes (save, with, with+exception, "
        "save twice growing/shrinking, re-entered with, with + explicit save, save to two files); all file-name variants (12 accepted, "
        "16 refused) x save/with; seeded random scripts over every record type with Latin-1 text")


TMPBASE = "/dev/shm" if os.path.isdir("/dev/shm") and os.access("/dev/shm", os.W_OK) else None   # tmpfs if available (speed only)


class Marker(Exception):
    pass


# ---------------------------------------------------------------- interpreter of record-producing steps
def produce(wl, device, step):
    op = step[0]
    if op == "append":
        wl.append(step[1])
    elif op == "comment":
        wl.comment(step[1])
    elif op == "wash":
        wl.wash(step[1])
    elif op == "decon":
        wl.decontaminate()
    elif op == "flush":
        wl.flush()
    elif op == "commit":
        wl.commit()
    elif op == "set_diti":
        wl.commit()
        wl.set_diti(step[1])
    elif op == "aw":
        wl.aspirate_well(step[1], step[2], step[3], liquid_class=step[4], rack_id="id1", rack_type="96 Well µ", tip=step[5])
    elif op == "dw":
        wl.dispense_well(step[1], step[2], step[3], liquid_class=step[4], tube_id="tübe", forced_rack_type="forced", tip=step[5])
    elif op == "rd":
        wl.reagent_distribution("Trög", 1, 8, "Plate", step[1], step[2], volume=step[3], exclude_wells=step[4], liquid_class="Wäter",
                                diti_reuse=2, multi_disp=3, direction="right_to_left" if step[5] else "left_to_right")
    elif op == "lab" and device != "Base":
        a = Labware("A", 3, 4, min_volume=10, max_volume=5000, initial_volumes=3000)
        b = Labware("B", 3, 4, min_volume=0, max_volume=5000)
        t = Trough("T", 4, 2, min_volume=100, max_volume=50000, initial_volumes=[20000, 10000], column_names=["µ-buffer", "wäter"])
        wl.aspirate(a, ["A01", "B01"], [20, 30.5], label=step[1])
        wl.dispense(b, ["A01", "B01"], [20, 30.5], label=step[1])
        wl.transfer(a, ["A02", "B02", "C02"], b, ["A03", "B03", "C04"], [10, 0, step[2]], label=step[1], wash_scheme=step[3])
        wl.transfer(t, ["A01", "B01", "C01"], b, ["A02", "B02", "C02"], 50, wash_scheme="flush")
        wl.distribute(t, 1, b, ["A01", "C01", "B03"], volume=25, label=step[1])
    elif op == "evo" and device == "Evo":
        a = Labware("A", 8, 12, min_volume=10, max_volume=5000, initial_volumes=3000)
        wl.evo_aspirate(a, ["A01", "B01"], (38, 2), [1, 2], step[1], "Water", label="evo µ")
        wl.evo_dispense(a, ["C02", "D02"], (38, 2), [1, 2], step[1], "Water")
        wl.evo_wash(tips=[1, 2, 3], waste_location=(52, 1), cleaner_location=(52, 0))
    elif op == "del":
        del wl[max(0, len(wl) - step[1]):]
    elif op == "clear":
        wl.clear()
    elif op == "insert":
        wl.insert(min(step[1], len(wl)), step[2])


def accepted(name):
    return os.path.basename(name).lower().endswith(".gwl")


def expected_bytes(records):
    return b"\r\n".join(r.encode("latin-1") for r in records)


# ---------------------------------------------------------------- running one case
def run_case(case):
    E = []

    def need(cond, tag, msg):
        if not cond:
            E.append((tag, msg))
    root = tempfile.mkdtemp(prefix="c17_", dir=TMPBASE)
    try:
        files = {}                                    # the model of the directory: relative name -> bytes
        for name, text in (case.get("pre") or {}).items():
            p = os.path.join(root, name)
            os.makedirs(os.path.dirname(p), exist_ok=True)
            with open(p, "wb") as fh:
                fh.write(text.encode("latin-1"))
            files[name] = text.encode("latin-1")
        for d in case.get("dirs") or []:
            os.makedirs(os.path.join(root, d), exist_ok=True)

        def as_path(name, kind):
            p = os.path.join(root, name)
            return Path(p) if kind == "Path" else p

        def check_file(name, records, where):
            p = os.path.join(root, name)
            if not os.path.isfile(p):
                need(False, f"{where}-missing", f"{where}: no file {name!r} was written for {len(records)} records")
                return
            with open(p, "rb") as fh:
                data = fh.read()
            exp = expected_bytes(records)
            files[name] = data
            if data != exp:
                kind = "residue/length" if len(data) != len(exp) and data[:len(exp)] == exp else "content"
                need(False, f"{where}-bytes", f"{where}: file {name!r} holds {data[:80]!r} ({len(data)} bytes), expected {exp[:80]!r} ({len(exp)} bytes) [{kind}]")
                return
            back = data.decode("latin-1").split("\r\n") if records else []
            need(back == list(records), f"{where}-readback", f"{where}: reading back gives {back[:4]} instead of {list(records)[:4]}")

        device = case["device"]
        ctor = case.get("ctor")
        wl = CLS[device](as_path(ctor["name"], ctor["kind"])) if ctor else CLS[device]()
        if ctor:
            need(wl.filepath == Path(os.path.join(root, ctor["name"])), "filepath", f"filepath property is {wl.filepath!r}")

        def run_steps(steps, where):
            for step in steps:
                if step[0] == "save":
                    before = list(wl)
                    try:
                        wl.save(as_path(step[1], step[2]))
                        raised = None
                    except Exception as e:  # noqa
                        raised = e
                    need(list(wl) == before, "save-mutates", f"{where}: save changed the worklist")
                    if accepted(step[1]):
                        need(raised is None, "save-raised", f"{where}: save to {step[1]!r} raised {type(raised).__name__}: {raised}")
                        if raised is None:
                            check_file(step[1], before, f"{where} save({step[2]})")
                    else:
                        need(raised is not None, "name-accepted", f"{where}: save accepted the file name {step[1]!r} (no .gwl extension)")
                else:
                    try:
                        produce(wl, device, step)
                    except Exception:  # noqa  (record producers are not the subject of this property)
                        pass

        run_steps(case.get("before") or [], "before")
        for i, block in enumerate(case.get("blocks") or []):
            where = f"with#{i + 1}"
            snapshot, propagated, exit_error, entered_len = None, False, None, None
            try:
                with wl as w:
                    entered_len = len(wl)
                    need(w is wl, "enter-identity", f"{where}: __enter__ did not return the worklist")
                    run_steps(block["body"], where)
                    snapshot = list(wl)
                    if block.get("raise"):
                        raise Marker()
            except Marker:
                propagated = True
            except Exception as e:  # noqa
                exit_error = e
            need(entered_len == 0, "enter-not-empty", f"{where}: the block started with {entered_len} records")
            if ctor and accepted(ctor["name"]):
                need(exit_error is None, "exit-raised", f"{where}: leaving the block raised {type(exit_error).__name__}: {exit_error}")
                need(not block.get("raise") or propagated, "exception-swallowed", f"{where}: the exception raised in the block did not propagate")
                if exit_error is None and snapshot is not None:
                    need(list(wl) == snapshot, "exit-mutates", f"{where}: leaving the block changed the records")
                    check_file(ctor["name"], snapshot, f"{where} auto-save")
            elif ctor:
                need(exit_error is not None, "name-accepted", f"{where}: auto-save accepted the file name {ctor['name']!r} (no .gwl extension)")
            else:
                need(exit_error is None and (propagated or not block.get("raise")), "exit-raised", f"{where}: block without path raised {exit_error!r}")
        run_steps(case.get("after") or [], "after")
        recs = list(wl)
        need(str(wl) == "\n".join(recs) and repr(wl) == "\n".join(recs), "str", f"str()/repr() differ from the records: {str(wl)[:60]!r}")
        need(not recs or str(wl).split("\n") == recs, "str", "str() does not split back into the records")
        # the directory holds exactly the files of the model
        actual = {}
        for dp, _dn, fn in os.walk(root):
            for f in fn:
                with open(os.path.join(dp, f), "rb") as fh:
                    actual[os.path.relpath(os.path.join(dp, f), root)] = fh.read()
        extra = sorted(set(actual) - set(files))
        gone = sorted(set(files) - set(actual))
        changed = sorted(k for k in set(files) & set(actual) if files[k] != actual[k])
        need(not extra, "unexpected-file", f"files that should not exist: {extra}")
        need(not gone, "file-removed", f"files that disappeared: {gone}")
        need(not changed, "file-changed", f"files whose content changed without an accepted save: {changed}")
    finally:
        shutil.rmtree(root, ignore_errors=True)
    return E


# ---------------------------------------------------------------- generators
GOOD_NAMES = ["out.gwl", "OUT.GWL", "Out.Gwl", "a.b.gwl", ".gwl", "with space.gwl", "µ-tränsfer.gwl", "x.gwl.gwl", "x.txt.gwl",
              "sub/out.gwl", "sub.gwl/in.gwl", "sub/deep/o.gwl"]
BAD_NAMES = ["out.txt", "out", "out.gwl.txt", "out.gwlx", "out.gwl.bak", "gwl", "out.gwl ", "outgwl", "out.gw", "out.gwl~", "out.gwl.",
             "sub.gwl/out.txt", "sub.gwl/out", "out.GWL.csv", ".gwl.swp", "out_gwl"]
DIRS = ["sub", "sub.gwl", "sub/deep"]
ALPHA = ["F;", "C;µL", "W1;", "B;"]
LATIN = ["µL", "37 °C", "äöüß ÄÖÜ", "½ × 2", "ÿþ", "a b", "café", "§ 1", "plain ascii", "x" * 300,
         "tab\there", "± 5 %", "a\u0085b", "¡hola!", "line1\nline2 µ\n\n  line3  ", "win\r\nline é", "", "   ", "µ"]


def pre_variants(records):
    new = "\r\n".join(records)
    return [("none", None), ("empty", ""), ("shorter", new[:-1] if len(new) > 1 else ""), ("longer", new + "\r\nF;\r\nC;old " + "Z" * 40),
            ("same-length", "#" * len(new)), ("trailing", new + "\r\n"), ("utf8", "ï»¿C;Âµ\r\n" * 3)]


def appends(records):
    return [["append", r] for r in records]


def gen_exhaustive(tier):
    devs = itertools.cycle(["Base", "Evo", "Fluent"])
    maxlen = 3 if tier == "quick" else 4
    for n in range(maxlen + 1):
        for records in itertools.product(ALPHA, repeat=n):
            records = list(records)
            for (pk, pre), kind in itertools.product(pre_variants(records), ("str", "Path")):
                if tier == "quick" and pk == "utf8" and n > 1:
                    continue
                base = {"device": next(devs), "pre": {"out.gwl": pre} if pre is not None else {}}
                ctor = {"name": "out.gwl", "kind": kind}
                yield dict(base, before=appends(records) + [["save", "out.gwl", kind]])
                yield dict(base, ctor=ctor, blocks=[{"body": appends(records)}])
                yield dict(base, ctor=ctor, blocks=[{"body": appends(records), "raise": True}])
                yield dict(base, ctor=ctor, before=appends(["F;", "C;stale"]), blocks=[{"body": appends(records)}])
                yield dict(base, before=appends(records + ["C;more", "B;"]) + [["save", "out.gwl", kind], ["del", 2], ["save", "out.gwl", kind]])
                yield dict(base, before=appends(records) + [["save", "out.gwl", kind]] + appends(["C;more ä"]) + [["save", "out.gwl", kind]])
                yield dict(base, ctor=ctor, blocks=[{"body": appends(records + ["W2;", "C;first block"])}, {"body": appends(records)}])
                yield dict(base, ctor=ctor, blocks=[{"body": appends(records) + [["save", "copy.gwl", "str" if kind == "Path" else "Path"]]}])
                yield dict(base, before=appends(records) + [["save", "out.gwl", kind], ["save", "second.gwl", kind]], pre=dict(base["pre"], **{"second.gwl": "old"}))
                yield dict(base, before=appends(records) + [["save", "out.gwl", kind], ["clear"], ["save", "out.gwl", kind]])


def gen_names(tier):
    recsets = [[], ["F;"], ["C;µ", "W1;", "B;"]]
    for name, kind, recs, dev in itertools.product(GOOD_NAMES + BAD_NAMES, ("str", "Path"), recsets, ("Base", "Evo", "Fluent")):
        if tier == "quick" and dev != ("Base", "Evo", "Fluent")[(len(name) + len(recs)) % 3]:
            continue
        for pre in (None, "old content\r\nF;\r\nF;\r\nF;\r\nF;", "o"):
            base = {"device": dev, "dirs": DIRS, "pre": {"other.gwl": "keep me", "out.txt": "keep"}}
            if pre is not None:
                base["pre"][name] = pre
            yield dict(base, before=appends(recs) + [["save", name, kind]])
            yield dict(base, ctor={"name": name, "kind": kind}, blocks=[{"body": appends(recs)}])
            yield dict(base, ctor={"name": name, "kind": kind}, blocks=[{"body": appends(recs), "raise": True}])
    # no path: nothing may be written
    for dev, recs in itertools.product(("Base", "Evo", "Fluent"), recsets):
        yield {"device": dev, "pre": {"out.gwl": "old"}, "blocks": [{"body": appends(recs)}, {"body": appends(recs), "raise": True}], "before": appends(["F;"])}


def rand_step(rng, device):
    k = rng.random()
    t = rng.choice(LATIN)
    if k < 0.22:
        return ["comment", t if rng.random() < 0.7 else f"{rng.choice(LATIN)}\n{t}"]
    if k < 0.36:
        return ["append", rng.choice(["F;", "B;", "W;", "WD;", "S;3", "C;" + t.replace("\n", " ").replace("\r", " "), "A;Pläte;;;1;;10.00;;;;", "D;P;;;96;;7158278.00;LC µ;;255;",
                                      "R;T;;;1;8;P;;;1;96;50;;1;1;0;2;3", "", " ", ";", "C;", "W4;"])]
    if k < 0.44:
        return ["wash", rng.choice([1, 2, 3, 4])]
    if k < 0.50:
        return [rng.choice(["decon", "flush", "commit"])]
    if k < 0.54:
        return ["set_diti", rng.randint(1, 5)]
    if k < 0.64:
        return [rng.choice(["aw", "dw"]), rng.choice(["Plate", "Pläte µ", "R" * 32]), rng.randint(1, 96), rng.choice([0, 0.004, 10, 33.333, 949.995, 950]),
                rng.choice(["", "Water", "Wässer free"]), rng.choice([1, 8, [1, 2, 3], [8, 8]])]
    if k < 0.70:
        a = rng.randint(1, 90)
        return ["rd", a, a + 6, rng.choice([1, 50, 316.5]), sorted(rng.sample(range(a, a + 7), rng.randint(0, 3))), rng.random() < 0.5]
    if k < 0.78:
        return ["lab", rng.choice([None, "läbel", "two\nlines µ"]), rng.choice([0, 50, 1200, 2500.5]), rng.choice([1, 3, "flush", "reuse"])]
    if k < 0.83:
        return ["evo", rng.choice([10, 25.5, [10, 20]])]
    if k < 0.90:
        return ["del", rng.randint(1, 4)]
    if k < 0.93:
        return ["clear"]
    return ["insert", rng.randint(0, 5), rng.choice(["C;inserted µ", "B;", "F;"])]


def gen_random(tier, seed):
    rng = random.Random(seed)
    for _ in range(5000 if tier == "quick" else 60000):
        device = rng.choice(["Base", "Evo", "Fluent"])
        names = rng.sample(GOOD_NAMES, 2) + ([rng.choice(BAD_NAMES)] if rng.random() < 0.2 else [])
        case = {"device": device, "dirs": DIRS, "pre": {}}
        for n in names + ["other.gwl"]:
            if rng.random() < 0.6:
                case["pre"][n] = rng.choice(["", "x", "old\r\n", "C;old µ\r\nF;" * rng.randint(1, 200), "ï»¿utf8 Âµ", "F;\nF;\n"])

        def steps(n, saves=True):
            out = []
            for _i in range(n):
                out.append(rand_step(rng, device))
                if saves and rng.random() < 0.2:
                    out.append(["save", rng.choice(names), rng.choice(["str", "Path"])])
            return out
        if rng.random() < 0.7:
            case["ctor"] = {"name": names[-1] if len(names) == 3 and rng.random() < 0.5 else names[0], "kind": rng.choice(["str", "Path"])}
        case["before"] = steps(rng.choice([0, 0, 1, 3, 6]))
        case["blocks"] = [{"body": steps(rng.choice([0, 0, 1, 2, 5, 12]), saves=rng.random() < 0.5), **({"raise": True} if rng.random() < 0.2 else {})}
                          for _b in range(rng.choice([0, 1, 1, 2, 3]))]
        case["after"] = steps(rng.choice([0, 0, 2, 4])) + ([["save", rng.choice(names), rng.choice(["str", "Path"])]] if rng.random() < 0.5 else [])
        yield case


def gen_long(tier):
    """long worklists: the string conversion and the file must still carry every record"""
    # powers of two and their neighbours (block-wise / buffered writers), round decimal sizes
    sizes = ((64, 127, 128, 256, 511, 512, 513, 999, 1000, 1001, 1024, 1500, 1536, 2048, 4096, 4097) if tier == "quick" else
             (63, 64, 65, 127, 128, 129, 255, 256, 257, 511, 512, 513, 999, 1000, 1001, 1023, 1024, 1025, 1500, 1536, 2048, 4095, 4096, 4097,
              8192, 10000, 10001, 16384, 32768, 65536, 65537))
    for i, n in enumerate(sizes):
        recs = [f"C;line {k} \xb5" if k % 97 == 0 else ("W1;" if k % 2 else "B;") for k in range(n)]
        dev = ["Base", "Evo", "Fluent"][i % 3]
        yield {"device": dev, "pre": {}, "before": appends(recs) + [["save", "out.gwl", "str"]]}
        yield {"device": dev, "pre": {"out.gwl": "old\r\n" * (2 * n)}, "ctor": {"name": "out.gwl", "kind": "Path"}, "blocks": [{"body": appends(recs)}]}


def generate(tier, seed):
    for name, gen in (("long worklists", gen_long(tier)), ("file names", gen_names(tier)), ("small-scope exhaustive", gen_exhaustive(tier)), ("random scripts", gen_random(tier, seed))):
        for case in gen:
            yield name, case


BOUNDS = {"long worklists": "record lists of 64..4097 (thorough 63..65537) records incl. powers of two and their neighbours, saved explicitly and through a with block over a longer old file; str()/repr() compared record by record",
          "file names": "12 accepted + 16 refused names (case, dots, sub-directories named *.gwl, trailing characters) x str/Path x 3 record lists x {none, longer, shorter} pre-existing x {save, with, with+exception} x device (quick: one device per name)",
          "small-scope exhaustive": "all record lists of length 0..3 (thorough 0..4) over 4 records x 7 pre-existing variants x str/Path x 10 save histories",
          "random scripts": "seeded random (quick 5000, thorough 60000) scripts: <= 6 steps before, <= 3 with-blocks of <= 12 steps, <= 4 steps after, explicit saves with p=0.2 per step, all record types incl. transfer/distribute/evo commands, Latin-1 comments/labels"}


# ---------------------------------------------------------------- driver
def canonical(case):
    return json.dumps(case, sort_keys=True)


def write_replay(case, what):
    short = hashlib.sha1(canonical(case).encode()).hexdigest()[:10]
    rel = os.path.join("replays", PROP, f"bounded_{short}.json")
    os.makedirs(os.path.join(VERIF, "replays", PROP), exist_ok=True)
    with open(os.path.join(VERIF, rel), "w") as fh:
        json.dump({"property": PROP, "bounded_replay": {"script": f"{PROP.lower()}.py", "case": case}, "what": what}, fh, indent=1)
    return rel


def replay(path):
    if not os.path.isabs(path) and not os.path.exists(path):
        path = os.path.join(VERIF, path)
    with open(path) as fh:
        case = json.load(fh)["bounded_replay"]["case"]
    print("case:", canonical(case)[:2000])
    errs = run_case(case)
    for tag, msg in errs:
        print(f"FAIL [{tag}] {msg}")
    if not errs:
        print("PASS: files, refusals and string conversion agree with the model")
    return 1 if errs else 0


def main(argv):
    if argv and argv[0] == "--replay":
        return replay(argv[1])
    tier = argv[0] if argv else "quick"
    seed = int(argv[1]) if len(argv) > 1 else 0
    budget = 16 if tier == "quick" else 270
    t0 = time.time()
    seen, parts, failures, tags, samples, nfail, sampled = set(), {}, [], set(), [], 0, {}
    for part, case in generate(tier, seed):
        if time.time() - t0 > budget:
            break
        key = canonical(case)
        if key in seen:
            continue
        seen.add(key)
        parts[part] = parts.get(part, 0) + 1
        errs = run_case(case)
        if sampled.get(part, 0) < 2 and parts[part] % 89 == 30 and len(key) < 600:
            sampled[part] = sampled.get(part, 0) + 1
            samples.append(case)
        if errs:
            nfail += 1
            tag = errs[0][0]
            if tag not in tags and len(failures) < 12:
                tags.add(tag)
                what = f"{errs[0][1]} | case {key[:200]}"[:500]
                failures.append({"what": what, "replay": write_replay(case, what)})
    out = {"evaluations": len(seen), "distinct": len(seen), "rule": RULE, "samples": samples[:5],
           "parts": [{"function": f"BaseWorklist.save / __enter__ / __exit__ / __str__: {p}", "kind": "bounded seeded random" if "random" in p else "bounded enumeration",
                      "bound": BOUNDS[p], "evaluations": n} for p, n in parts.items()],
           "failures": failures, "failing_cases": nfail, "seconds": round(time.time() - t0, 1)}
    print(json.dumps(out))
    return 0


if __name__ == "__main__":
    sys.exit(main(sys.argv[1:]))
