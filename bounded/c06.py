#!/usr/bin/env python
"""Bounded contract monitor for C06: large-volume handling (splitting complete, bounded, minimal).

Oracles (all independent of robotools, exact arithmetic with fractions.Fraction):
  helper     partition_volume(v, max_volume): v == 0 -> []; else exactly max(1, ceil(v / max_volume)) steps, every step
             0 < s <= max_volume, steps add up to v.
  transfer   Evo/FluentWorklist(auto_split=True).transfer of a vector of volumes: never refused, per (src, dst) pair exactly
             n(v) A/D pairs (own .gwl parser), every record volume <= max_volume, record volumes add up to v, nothing emitted
             for v == 0, labware volumes follow.
  nosplit    auto_split=False: transfer / aspirate / dispense of a step > max_volume raise InvalidOperationError, a step
             <= max_volume (exactly at the limit included) is emitted as exactly one record.
  rd         reagent_distribution / distribute: the multi-dispense field of the R record is an integer literal k >= 1 with
             k * volume <= max_volume; k == requested when that fits, else the largest k that fits; volume > max_volume refused.

Domain note: for max_volume that is a dyadic rational (integers, x.5, x.25, x.125 ...) all multiples k*max_volume are exact
floats and every oracle is applied exactly, including one-ulp neighbours of the multiples.  For other max_volume (33.3, 200.7,
0.1 ...) volumes within 1e-9 (relative) of a multiple of max_volume are checked with a 1e-9 tolerance in the helper and are
not used end-to-end (float round-off of k*max_volume itself, not a property of the splitting rule).
"""
import hashlib
import json
import logging
import math
import os
import random
import sys
import time
import warnings
from fractions import Fraction as F

REPO = os.environ.get("PYVC_REPO", "/repo")
sys.path.insert(0, REPO)
VERIF = os.path.dirname(os.path.dirname(os.path.abspath(__file__)))
PROP = "C06"

import numpy  # noqa: E402
import numpy as np  # noqa: E402
import robotools  # noqa: E402
from robotools import EvoWorklist, FluentWorklist, Labware, Trough  # noqa: E402
from robotools.worklists.exceptions import InvalidOperationError  # noqa: E402
from robotools.worklists.utils import partition_volume  # noqa: E402

assert os.path.realpath(robotools.__file__).startswith(os.path.realpath(REPO) + os.sep), robotools.__file__
logging.disable(logging.CRITICAL)
warnings.simplefilter("ignore")

DEVICES = {"evo": EvoWorklist, "fluent": FluentWorklist}
BIG = 1e13
HALF_CENT = F(51, 10000)  # records carry two decimals


# ------------------------------------------------------------------ independent helpers
def is_dyadic(m):
    return F(m).denominator <= 64 and F(m) < 2**30


def near_multiple(v, m):
    q = F(v) / F(m)
    k = round(q)
    return k >= 1 and q != k and abs(q - k) <= F(1, 10**9) * max(1, q) or (q == k and k >= 3 and not is_dyadic(m))


def safe(v, m):
    """Nudge a volume out of the round-off zone of a non-dyadic max_volume (see domain note)."""
    while not is_dyadic(m) and v > 0 and near_multiple(v, m):
        v = v * 1.03 + 0.001
    return v


def nsteps(v, m):
    """The number of steps the property demands (exact)."""
    if v == 0:
        return 0
    return max(1, math.ceil(F(v) / F(m)))


def parse(rec):
    """Own parser of one .gwl record -> (type, fields)."""
    f = rec.split(";")
    t = f[0]
    if t in ("A", "D"):
        if len(f) != 11:
            raise ValueError(f"A/D record with {len(f)} fields: {rec}")
        return t, {"rack": f[1], "pos": int(f[4]), "vol": F(f[6]), "vol_s": f[6], "lc": f[7], "tip": f[9]}
    if t == "R":
        if len(f) < 16:
            raise ValueError(f"R record with {len(f)} fields: {rec}")
        return t, {"src": f[1], "s0": f[4], "s1": f[5], "dst": f[6], "d0": f[9], "d1": f[10], "vol_s": f[11],
                   "lc": f[12], "diti": f[13], "multi": f[14], "dir": f[15], "excl": f[16:]}
    return t, {}


def plate_pos(rows, well):
    return 1 + (int(well[1:]) - 1) * rows + "ABCDEFGHIJKLMNOPQRSTUVWXYZ".index(well[0])


# ------------------------------------------------------------------ checks (return list of problem strings)
def check_helper(c):
    v, m = c["v"], c["max"]
    try:
        # integral volumes are also handed over as Python int / numpy integer / element of an int array ("as")
        arg = {"int": lambda: int(v), "npint": lambda: np.int64(int(v)), "nparr": lambda: np.array([int(v)])[0]}.get(c.get("as"), lambda: float(v))()
        r = partition_volume(arg, max_volume=m)
    except Exception as e:  # noqa
        return [f"partition_volume({v!r}, max_volume={m!r}) raised {type(e).__name__}: {e}"]
    r = [float(s) for s in r]
    n = nsteps(v, m)
    tol = near_multiple(v, m) and not is_dyadic(m)
    p = []
    if tol:
        if abs(len(r) - n) > 1:
            p.append(f"{len(r)} steps, expected about {n}")
        for s in r:
            if not (-1e-9 * m <= s <= m * (1 + 1e-9)):
                p.append(f"step {s!r} outside (0, {m!r}] beyond tolerance")
                break
    else:
        if len(r) != n:
            p.append(f"{len(r)} steps, expected max(1, ceil(v/max)) = {n}")
        for s in r:
            if not (0 < s <= m):
                p.append(f"step {s!r} not in (0, {m!r}]")
                break
    if r and abs(sum(F(s) for s in r) - F(v)) > F(v) * F(1, 10**9):
        p.append(f"steps add up to {float(sum(F(s) for s in r))!r}, not {v!r}")
    return [f"partition_volume({v!r}, max_volume={m!r}) -> {r[:3]}..{r[-1:]}: " + "; ".join(p)] if p else []


def src_need(c):
    return float(sum(F(v) for v in c["vols"])) * 1.01 + 10


def mk_labware(c, n):
    big = c.get("cap", BIG)
    need = src_need(c)
    if c.get("trough"):
        src = Trough("S", max(n, 2), 1, min_volume=0, max_volume=big, initial_volumes=need)
    else:
        src = Labware("S", n, 2, min_volume=0, max_volume=big, initial_volumes=need)
    dst = Labware("D", n, 2, min_volume=0, max_volume=big)
    return src, dst


def check_transfer(c):
    """auto_split=True, vector of volumes, row i of column 1 -> row i of column 1 (or trough -> plate)."""
    vols, m = c["vols"], c["max"]
    n = len(vols)
    src, dst = mk_labware(c, n)
    if c.get("reassign"):
        # the limits are public attributes: a worklist whose max_volume / auto_split were set after construction (tip size
        # changed mid-worklist) must split by the limits that are in force when the transfer is made
        wl = DEVICES[c["device"]](max_volume=c["reassign"], auto_split=False, diti_mode=c.get("diti", False))
        wl.max_volume, wl.auto_split = m, True
    else:
        wl = DEVICES[c["device"]](max_volume=m, auto_split=True, diti_mode=c.get("diti", False))
    wells = [f"{'ABCDEFGH'[i]}01" for i in range(n)]
    v_arg = vols[0] if n == 1 and c.get("scalar") else vols
    if c.get("as") == "int":
        v_arg = int(v_arg) if not isinstance(v_arg, list) else [int(x) for x in v_arg]
    elif c.get("as") in ("npint", "nparr"):
        v_arg = np.int64(int(v_arg)) if not isinstance(v_arg, list) else np.array([int(x) for x in v_arg])
    try:
        wl.transfer(src, wells[0] if n == 1 else wells, dst, wells[0] if n == 1 else wells, v_arg,
                    wash_scheme=c.get("wash", 1), partition_by=c.get("partition_by", "auto"))
    except Exception as e:  # noqa
        return [f"{c['device']} transfer(auto_split=True, max_volume={m!r}) of {vols!r} refused: {type(e).__name__}: {e}"]
    p = []
    per = {i: [] for i in range(n)}
    last_a = None
    for rec in wl:
        t, f = parse(rec)
        if t == "A":
            last_a = f
        elif t == "D":
            if last_a is None or last_a["vol_s"] != f["vol_s"]:
                p.append(f"D record {rec} does not follow an A record of the same volume")
                break
            i = f["pos"] - 1  # destination plate, column 1 -> position = row + 1
            if f["rack"] != "D" or not (0 <= i < n) or plate_pos(n, wells[i]) != f["pos"]:
                p.append(f"unexpected destination in {rec}")
                break
            per[i].append(f["vol"])
            last_a = None
    for i, v in enumerate(vols):
        k = nsteps(v, m)
        got = per[i]
        if len(got) != k:
            p.append(f"volume {v!r}: {len(got)} aspirate/dispense pairs, expected {k}")
            continue
        if any(g > F(m) + HALF_CENT or g < 0 for g in got):
            p.append(f"volume {v!r}: a step of {float(max(got))} exceeds max_volume {m!r}")
        if abs(sum(got) - F(v)) > HALF_CENT * max(1, k) + F(v) * F(1, 10**9):
            p.append(f"volume {v!r}: emitted steps add up to {float(sum(got))}")
        if abs(F(float(dst.volumes[i, 0])) - F(v)) > F(1, 10**6) * max(1, F(v)):
            p.append(f"volume {v!r}: destination well holds {dst.volumes[i, 0]!r}")
    extra = sum(max(0, nsteps(v, m) - 1) for v in vols)
    want_label = f"{extra} LVH steps" if extra else None
    for lw in (src, dst):
        if len(lw.history) != 2 or lw.history[-1][0] != want_label:
            p.append(f"history of {lw.name} has labels {[h[0] for h in lw.history]}, expected ['initial', {want_label!r}] ({extra} extra large-volume steps)")
            break
    total0 = F(src_need(c)) * (1 if c.get("trough") else 2 * n)
    if abs(F(float(src.volumes.sum())) + F(float(dst.volumes.sum())) - total0) > F(1, 10**6) * total0:
        p.append("liquid not conserved")
    return [f"{c['device']} transfer(auto_split=True, max_volume={m!r}) of {vols!r}: " + "; ".join(p[:3])] if p else []


def check_nosplit(c):
    """auto_split=False: a step above max_volume must raise InvalidOperationError, at/below must give one record."""
    v, m, op = c["v"], c["max"], c["op"]
    big = BIG
    src = Labware("S", 2, 2, min_volume=0, max_volume=big, initial_volumes=float(v) * 2 + 10)
    dst = Labware("D", 2, 2, min_volume=0, max_volume=big)
    if c.get("reassign"):
        wl = DEVICES[c["device"]](max_volume=c["reassign"], auto_split=not c.get("auto_split", False))
        wl.max_volume, wl.auto_split = m, c.get("auto_split", False)
    else:
        wl = DEVICES[c["device"]](max_volume=m, auto_split=c.get("auto_split", False))
    exc = None
    try:
        if op == "transfer":
            wl.transfer(src, "A01", dst, "B02", v, wash_scheme=c.get("wash", 1))
        elif op == "transfer_vec":
            wl.transfer(src, ["A01", "B01"], dst, ["A02", "B02"], [min(1.0, m), v])
        elif op == "aspirate":
            wl.aspirate(src, "A01", v)
        elif op == "dispense":
            wl.dispense(dst, "A01", v)
        elif op == "aspirate_well":
            wl.aspirate_well("S", 1, v)
        elif op == "dispense_well":
            wl.dispense_well("S", 1, v)
    except Exception as e:  # noqa
        exc = e
    too_big = F(v) > F(m)
    head = f"{c['device']} {op}({v!r}) with max_volume={m!r}, auto_split={c.get('auto_split', False)}"
    if too_big:
        if not isinstance(exc, InvalidOperationError):
            return [f"{head}: step above max_volume not refused with InvalidOperationError (got {type(exc).__name__ if exc else 'no error'}; records {list(wl)[-3:]})"]
        big_recs = [r for r in wl if r[0] in "AD" and parse(r)[1]["vol"] > F(m) + HALF_CENT]
        if big_recs:
            return [f"{head}: record above max_volume emitted: {big_recs[0]}"]
        return []
    if exc is not None:
        return [f"{head}: step within max_volume refused: {type(exc).__name__}: {exc}"]
    recs = [parse(r)[1] for r in wl if r[0] in "AD"]
    pos = 1 if v > 0 else 0
    want = {"transfer": 2 * pos, "transfer_vec": 2 + 2 * pos, "aspirate": pos, "dispense": pos}.get(op, 1)
    if len(recs) != want or (recs and (pos or op.endswith("_well")) and abs(recs[-1]["vol"] - F(v)) > HALF_CENT):
        return [f"{head}: expected {want} A/D records ending with volume {float(v):.2f}: {list(wl)}"]
    return []


def check_rd(c):
    """reagent distribution: planned multi-dispenses fit into max_volume."""
    vol, m, md = c["volume"], c["max"], c["multi_disp"]
    wl = DEVICES[c["device"]](max_volume=m)
    exc = None
    try:
        if c["via"] == "distribute":
            src = Trough("T", 8, 2, min_volume=0, max_volume=BIG, initial_volumes=[float(vol) * 20 + 10] * 2)
            dst = Labware("D", 4, 3, min_volume=0, max_volume=BIG)
            wl.distribute(src, c.get("col", 0), dst, c.get("wells", ["A01", "B01", "C01", "A02"]), volume=vol, multi_disp=md)
        else:
            wl.reagent_distribution("T", 1, 8, "D", 1, 12, volume=vol, multi_disp=md)
    except Exception as e:  # noqa
        exc = e
    head = f"{c['device']} {c['via']}(volume={vol!r}, multi_disp={md}) with max_volume={m!r}"
    if F(vol) > F(m):
        if not isinstance(exc, InvalidOperationError):
            return [f"{head}: volume above max_volume not refused with InvalidOperationError ({type(exc).__name__ if exc else list(wl)})"]
        if any(r.startswith("R;") for r in wl):
            return [f"{head}: refused but R record emitted"]
        return []
    if exc is not None:
        return [f"{head}: refused: {type(exc).__name__}: {exc}"]
    rs = [parse(r)[1] for r in wl if r.startswith("R;")]
    if len(rs) != 1:
        return [f"{head}: {len(rs)} R records"]
    ms = rs[0]["multi"]
    if not (ms.isdigit() and ms.isascii()):
        return [f"{head}: multi-dispense field {ms!r} is not an integer literal"]
    k = int(ms)
    p = []
    if k < 1:
        p.append(f"multi_disp {k} < 1")
    if k * F(vol) > F(m) * (1 + F(1, 10**9)):
        p.append(f"plans {k} multi-dispenses = {float(k * F(vol))} uL per aspiration > max_volume")
    if md * F(vol) <= F(m):
        if k != md:
            p.append(f"requested multi_disp {md} fits but {k} was planned")
    elif (k + 1) * F(vol) < F(m) * (1 - F(1, 10**9)) or k > md:
        p.append(f"planned {k}, although {math.floor(F(m) / F(vol))} fit")
    if F(rs[0]["vol_s"]) != F(vol) and abs(F(rs[0]["vol_s"]) - F(vol)) > F(1, 10**9):
        p.append(f"volume field {rs[0]['vol_s']}")
    return [f"{head}: " + "; ".join(p) + f" ({[r for r in wl if r[0] == 'R'][0]})"] if p else []


CHECKS = {"helper": check_helper, "transfer": check_transfer, "nosplit": check_nosplit, "rd": check_rd}


def run_case(c):
    try:
        return CHECKS[c["kind"]](c)
    except Exception as e:  # noqa  (oracle could not interpret the output -> that is a failure of the output grammar)
        return [f"{c['kind']} case {json.dumps(c)[:200]}: oracle could not interpret result: {type(e).__name__}: {e}"]


# ------------------------------------------------------------------ generators
DYADIC = [950, 1000, 950.5, 200.5, 100, 50, 10, 7, 3, 1, 0.5, 0.25, 1.5, 2.5, 7.5, 33.25, 1234.5, 0.125, 0.75, 4096, 999.875, 5000]
OTHER = [33.3, 200.7, 950.1, 0.1, 0.3, 12345.678, 1 / 3, 19.99, 0.07]


def around(b):
    """boundary volumes around b"""
    up, dn = math.nextafter(b, math.inf), math.nextafter(b, 0)
    return [b, up, dn, math.nextafter(up, math.inf), math.nextafter(dn, 0), b + 0.01, b - 0.01, b + 0.5, b - 0.5, b + 1, b - 1]


def gen_enumerated(tier):
    ks = list(range(1, 13)) + [16, 25, 64, 100] if tier == "quick" else list(range(1, 41)) + [64, 100, 128, 1000]
    for m in DYADIC + OTHER:
        vs = [0, 0.0, 0.01, m / 2, m / 3, 1e-9]
        for k in ks:
            vs += around(k * m)
            vs.append(float(F(m) * k))
        seen = set()
        for v in vs:
            if v < 0 or v in seen or v > 5e6:
                continue
            seen.add(v)
            yield {"kind": "helper", "v": v, "max": m}
    # integral volumes in integer representations against non-integer limits (the step vector must not inherit an integer type)
    for m in [x for x in DYADIC + OTHER if float(x) != int(x)]:
        for k in ks[:14]:
            for v in {math.floor(k * m), math.floor(k * m) - 1, math.ceil(k * m), k * math.floor(m) + 1}:
                if v > 0 and (is_dyadic(m) or not near_multiple(v, m)):
                    for rep in ("int", "npint", "nparr"):
                        yield {"kind": "helper", "v": v, "max": m, "as": rep}
        for dev in DEVICES:
            for k in (2, 3, 5):
                v = math.floor(k * m)
                if v > 0 and (is_dyadic(m) or not near_multiple(v, m)):
                    for rep in ("int", "npint"):
                        yield {"kind": "transfer", "device": dev, "vols": [v], "max": m, "scalar": True, "as": rep}
                        yield {"kind": "transfer", "device": dev, "vols": [v, max(1, v - 1)], "max": m, "as": rep}
    # end-to-end on both devices at the same boundaries (smaller k range)
    for dev in DEVICES:
        for m in DYADIC + OTHER:
            for k in [1, 2, 3, 4, 7] if tier == "quick" else [1, 2, 3, 4, 5, 6, 7, 8, 9, 12, 16, 33]:
                for v in around(k * m)[:8]:
                    if v <= 0 or v > 7e6 or (not is_dyadic(m) and near_multiple(v, m)):
                        continue
                    yield {"kind": "transfer", "device": dev, "vols": [v], "max": m, "scalar": True}
            for v in [0, m, m / 2, math.nextafter(m, math.inf), math.nextafter(m, 0), 2 * m, min(m * 2.5, 7e6)]:
                for op in ["transfer", "transfer_vec", "aspirate", "dispense", "aspirate_well", "dispense_well"]:
                    if v <= 7e6:
                        yield {"kind": "nosplit", "device": dev, "v": v, "max": m, "op": op}
                        if op not in ("transfer", "transfer_vec"):
                            yield {"kind": "nosplit", "device": dev, "v": v, "max": m, "op": op, "auto_split": True}
            yield {"kind": "transfer", "device": dev, "vols": [0, safe(2 * m + 0.5, m), 0.0], "max": m}
            if is_dyadic(m):
                for other in (m * 4, m / 2):  # limits reassigned after construction (smaller and larger tips)
                    yield {"kind": "transfer", "device": dev, "vols": [m, safe(3 * m, m), m / 2], "max": m, "reassign": other}
                    yield {"kind": "nosplit", "device": dev, "v": 2 * m, "max": m, "op": "transfer", "reassign": other}
                    yield {"kind": "nosplit", "device": dev, "v": m, "max": m, "op": "transfer", "reassign": other}
            yield {"kind": "transfer", "device": dev, "vols": [m, safe(3 * m, m), safe(math.nextafter(2 * m, math.inf), m)], "max": m,
                   "trough": True, "wash": "reuse"}
        # reagent distribution grid
        for m in [950, 1000, 950.5, 100, 33.3, 200.7, 7, 0.5]:
            for vol in sorted({m / d for d in (1, 1.5, 2, 2.5, 2.7, 3, 3.5, 4, 6, 7.9)} | {m, m * 0.35, m * 0.4, m * 0.6, m * 0.51, m * 0.49,
                                                                                          math.nextafter(m, math.inf), m * 1.5, float(int(m * 0.37) or 1)}):
                for md in [1, 2, 3, 6, 12]:
                    for via in ("reagent_distribution", "distribute"):
                        yield {"kind": "rd", "device": dev, "volume": vol, "max": m, "multi_disp": md, "via": via}


def gen_random(rng):
    while True:
        kind = rng.choice(["helper", "helper", "transfer", "transfer", "nosplit", "rd"])
        dy = rng.random() < 0.7
        if dy:
            m = rng.choice([rng.choice(DYADIC), rng.randint(1, 3000), rng.randint(1, 8000) / 8, rng.randint(1, 400) / 4])
        else:
            m = rng.choice([rng.choice(OTHER), round(rng.uniform(0.05, 2000), rng.randint(1, 3)), rng.uniform(0.01, 3000)])

        def vol():
            k = rng.choice([1, 1, 2, 2, 3, 4, 5, rng.randint(1, 60), rng.randint(1, 2000) if m > 5 else rng.randint(1, 200)])
            b = float(F(m) * k) if rng.random() < 0.3 else k * m
            r = rng.random()
            if r < 0.5:
                v = rng.choice(around(b))
            elif r < 0.6:
                v = rng.choice([0, 0.0, 0.01, m / 2])
            elif r < 0.8:
                v = round(rng.uniform(0, b + m), rng.randint(0, 3))
            else:
                v = rng.uniform(0, b + m)
            return v if 0 <= v <= 5e6 else m

        dev = rng.choice(list(DEVICES))
        if kind == "helper":
            yield {"kind": "helper", "v": vol(), "max": m}
        elif kind == "transfer":
            vols = [vol() for _ in range(rng.choice([1, 1, 2, 3, 5]))]
            vols = [safe(v, m) if v <= 2e5 else m / 2 for v in vols]
            c = {"kind": "transfer", "device": dev, "vols": vols, "max": m, "wash": rng.choice([1, 2, 3, 4, "flush", "reuse"]),
                 "partition_by": rng.choice(["auto", "source", "destination"]), "trough": rng.random() < 0.3, "diti": rng.random() < 0.2}
            if len(vols) == 1 and rng.random() < 0.5:
                c["scalar"] = True
            yield c
        elif kind == "nosplit":
            v = rng.choice([m, math.nextafter(m, math.inf), math.nextafter(m, 0), m + 0.01, m * rng.uniform(0, 3), vol()])
            if v > 7e6:
                continue
            op = rng.choice(["transfer", "transfer_vec", "aspirate", "dispense", "aspirate_well", "dispense_well"])
            yield {"kind": "nosplit", "device": dev, "v": v, "max": m, "op": op, "auto_split": op[0] != "t" and rng.random() < 0.5}
        else:
            r = rng.random()
            d = rng.choice([1, 2, 3, 4, 5, 8])
            volume = m / d if r < 0.2 else (m / (d + rng.choice([0.5, 0.51, 0.49, 0.7, 0.3, 0.9]))) if r < 0.6 else round(rng.uniform(m / 20, m * 1.2), 2) or m
            if rng.random() < 0.5 and volume >= 1:
                volume = int(volume)
            if volume <= 0 or volume > 7e6:
                continue
            yield {"kind": "rd", "device": dev, "volume": volume, "max": m, "multi_disp": rng.randint(1, 12),
                   "via": rng.choice(["reagent_distribution", "distribute"]), "col": rng.randint(0, 1),
                   "wells": rng.choice([["A01"], ["A01", "B01", "C01", "A02"], ["D03", "A01", "B02"], [["A01", "A02"], ["B01", "B02"]]])}


# ------------------------------------------------------------------ driver
def key_of(c):
    return json.dumps(c, sort_keys=True)


def main():
    if len(sys.argv) >= 3 and sys.argv[1] == "--replay":
        path = sys.argv[2] if os.path.isabs(sys.argv[2]) or os.path.exists(sys.argv[2]) else os.path.join(VERIF, sys.argv[2])
        rp = json.load(open(path))
        case = rp["bounded_replay"]["case"]
        probs = run_case(case)
        print(f"replay {PROP} case: {json.dumps(case)}")
        for q in probs:
            print("VIOLATION", q)
        print("still fails" if probs else "passes on this tree")
        sys.exit(1 if probs else 0)
    tier = sys.argv[1] if len(sys.argv) > 1 else "quick"
    seed = int(sys.argv[2]) if len(sys.argv) > 2 else 0
    budget = 13 if tier == "quick" else 200
    t0 = time.time()
    rng = random.Random(seed)
    seen, failures, fail_kinds = set(), [], {}
    parts = {}
    samples = []
    evaluations = 0

    def feed(c, source):
        nonlocal evaluations
        k = key_of(c)
        if k in seen:
            return
        seen.add(k)
        evaluations += 1
        d = parts.setdefault((c["kind"], source), 0)
        parts[(c["kind"], source)] = d + 1
        if len(samples) < 5 and evaluations % 3001 == 1:
            samples.append(c)
        for q in run_case(c):
            fk = (c["kind"], c.get("device"), c.get("op") or c.get("via"))
            fail_kinds[fk] = fail_kinds.get(fk, 0) + 1
            if fail_kinds[fk] > 2 or len(failures) >= 12:
                continue
            short = hashlib.sha1(k.encode()).hexdigest()[:10]
            rel = os.path.join("replays", PROP, f"bounded_{short}.json")
            os.makedirs(os.path.join(VERIF, "replays", PROP), exist_ok=True)
            with open(os.path.join(VERIF, rel), "w") as fh:
                json.dump({"property": PROP, "bounded_replay": {"script": "c06.py", "case": c}, "what": q}, fh, indent=1)
            failures.append({"what": q[:400], "replay": rel})

    for c in gen_enumerated(tier):
        feed(c, "enumerated")
        if time.time() - t0 > budget * 0.6:
            break
    g = gen_random(rng)
    n_rand = 0
    while time.time() - t0 < budget and n_rand < (10**7):
        feed(next(g), "random")
        n_rand += 1
    bounds = {"helper": "max_volume in 22 dyadic + 9 non-dyadic values (+ random), v around k*max_volume for k <= 1000 incl. one/two ulp neighbours, v <= 5e6",
              "transfer": "1-5 volumes per call, both devices, v <= 2e5 (random) / k <= 33 (enumerated), plates and trough sources, all wash schemes and partition modes",
              "nosplit": "auto_split=False, v in {0, max/2, max-ulp, max, max+ulp, 2max, ...}, transfer / aspirate / dispense / *_well, both devices",
              "rd": "volume/max_volume ratios on a grid incl. fractional parts >= .5, multi_disp 1..12, low-level and distribute, both devices"}
    out = {"evaluations": evaluations, "distinct": len(seen),
           "rule": "a case is (kind, device, volumes, max_volume, options); enumerated boundary grid (k*max_volume and its ulp/0.01/0.5 neighbours, "
                   "dyadic and non-dyadic max_volume) + seeded random cases; distinct = distinct canonical JSON of the case; "
                   "v == 0 cases are kept (they check that nothing is emitted)",
           "samples": samples[:5],
           "parts": [{"function": {"helper": "robotools.worklists.utils.partition_volume", "transfer": "Evo/FluentWorklist.transfer (auto_split=True)",
                                   "nosplit": "Evo/FluentWorklist transfer/aspirate/dispense (auto_split=False)",
                                   "rd": "BaseWorklist.reagent_distribution / distribute"}[k] + f" [{src}]",
                      "kind": "bounded " + ("enumeration" if src == "enumerated" else f"seeded random (seed {seed})"), "bound": bounds[k], "evaluations": n}
                     for (k, src), n in sorted(parts.items())],
           "failures": failures, "seconds": round(time.time() - t0, 1), "failure_classes": len(fail_kinds)}
    print(json.dumps(out))


if __name__ == "__main__":
    main()
