#!/usr/bin/env python
"""C12 bounded contract monitor: the EVO well-selection string is a faithful, decodable bitmap.

Code under test (robotools/evotools/commands.py, robotools/evotools/utils.py):
  evo_get_selection(rows, cols, selected)            the selection string itself
  evo_make_selection_array(rows, columns, wells)     well IDs -> 0/1 array that feeds it
  evo_aspirate / evo_dispense (+ EvoWorklist.evo_*)  the string as it ends up inside a 'B;Aspirate(...)' record

Oracles (own code only, written from the property statement; nothing of robotools is used to compute expectations):
  D1 header    characters 0-1 are two upper-case hex digits = number of columns, characters 2-3 = number of rows
  D2 length    the string has exactly 4 + ceil(R*C/7) characters
  D3 alphabet  every body character has a code in 48 .. 48+127 (7 payload bits, offset 48)
  D4 wells     bit b of body character k is well number 7k+b in column-major order (column = n // R, row = n % R);
               the decoded set of wells is exactly the selected set
  D5 padding   bits for well numbers >= R*C are zero
  D6 exact     the string equals the one an own big-integer encoder produces (so the string is a function of
               (R, C, selection) only: not of dtype, memory layout, integer type of rows/cols, earlier calls)
  D7 distinct  within a call sequence and across the exhaustive enumerations, different (geometry, selection) pairs never
               give the same string (also implied by D1+D4, checked explicitly to report collisions as such)
  A1 array     evo_make_selection_array returns a fresh R x C array with exactly 1 at the named wells and 0 elsewhere, for
               lists / tuples / 1-D / 2-D / Fortran-ordered / object arrays of IDs, repeated IDs, any order, a bare string;
               it does not modify its argument, and a result mutated by the caller does not influence the next call
  I1 inputs    evo_get_selection does not modify the array it is given

A *case* is a list of steps executed in order in one process (most cases have one step).  If a case fails, it is re-run after
reloading the modules under test; when it only fails after earlier calls (shared state / memoisation), the shortest suffix of
the recent call history that reproduces the failure is put in front of it, so that the replay file is self-contained.

SUSPECTED DEFECTS ON THE UNCHANGED TREE
  none for this property (quick and thorough tiers report zero failures on /repo).
  Side observation, outside the property and not exercised here: evo_make_selection_array is annotated Iterable[str] but refuses
  one-shot iterators / generators (KeyError) and sets (TypeError) because it goes through numpy.asarray; no wrong string results.

Hex digits are required in upper case (as EVOware writes them and as the reference implementation of the manual prints them).
Dimensions beyond 26 x 48 (up to 255, the limit of two hex digits) are exercised for evo_get_selection only (no well IDs exist).
"""
import collections
import hashlib
import importlib
import json
import logging
import os
import random
import sys
import time
import warnings

REPO = os.environ.get("PYVC_REPO", "/repo")
sys.path.insert(0, REPO)
import numpy as np  # noqa: E402

import robotools  # noqa: E402
import robotools.evotools.commands as CMD  # noqa: E402

assert os.path.realpath(robotools.__file__).startswith(os.path.realpath(REPO) + os.sep), robotools.__file__
logging.disable(logging.CRITICAL)
warnings.simplefilter("ignore")

PROP = "C12"
VERIF = os.path.dirname(os.path.dirname(os.path.abspath(__file__)))
LETTERS = "ABCDEFGHIJKLMNOPQRSTUVWXYZ"
MAXR, MAXC = 26, 48
HEXDIGITS = "0123456789ABCDEF"
RELOAD = ("robotools.transform", "robotools.evotools.utils", "robotools.evotools.commands")


# ---------------------------------------------------------------- independent reference (from the property statement)
def wid(r, c):
    return f"{LETTERS[r]}{c + 1:02d}"


def well_rc(well):
    return LETTERS.index(well[0]), int(well[1:]) - 1


def name_of(R, i):
    """well number (column-major) -> ID; row letters only exist up to Z"""
    r, c = i % R, i // R
    return wid(r, c) if r < 26 and c < 99 else f"r{r}c{c}"


def bits_of(bm):
    out = []
    while bm:
        low = bm & -bm
        out.append(low.bit_length() - 1)
        bm ^= low
    return out


def bm_of(idx):
    bm = 0
    for i in idx:
        bm |= 1 << i
    return bm


def ngroups(R, C):
    return -(-(R * C) // 7)


def reference(R, C, bm):
    """own encoder: 2 hex digits columns, 2 hex digits rows, then 7 wells per character, LSB first, offset 48"""
    return (HEXDIGITS[C >> 4] + HEXDIGITS[C & 15] + HEXDIGITS[R >> 4] + HEXDIGITS[R & 15]
            + bytes([48 + ((bm >> (7 * g)) & 127) for g in range(ngroups(R, C))]).decode("latin-1"))


def hex2(s):
    if len(s) != 2 or s[0] not in HEXDIGITS or s[1] not in HEXDIGITS:
        return None
    return HEXDIGITS.index(s[0]) * 16 + HEXDIGITS.index(s[1])


def names(R, idx, k=6):
    idx = list(idx)
    return "[" + ", ".join(name_of(R, i) for i in idx[:k]) + (f", ... {len(idx)} wells" if len(idx) > k else "") + "]"


CHECKS = [0]


def check_string(s, R, C, bm):
    """decode `s` by the EVOware rule and compare with geometry R x C and selection bitmap `bm` -> list of (tag, text)"""
    if not isinstance(s, str):
        return [("type", f"result is {type(s).__name__}, not str")]
    CHECKS[0] += 1
    if s == reference(R, C, bm) and CHECKS[0] % 8:
        return []  # D6 holds; the decoder below (D1-D5) additionally runs on every 8th string and on every mismatch
    N = R * C
    p = []
    want_len = 4 + ngroups(R, C)
    if len(s) != want_len:
        p.append(("length", f"string has {len(s)} characters, expected 4 + ceil({N}/7) = {want_len}"))
    if len(s) < 4:
        return p + [("header", "no 4-character header")]
    dc, dr = hex2(s[0:2]), hex2(s[2:4])
    if dc != C or dr != R:
        p.append(("header", f"header {s[:4]!a} decodes to {dr} rows x {dc} columns"))
    got = 0
    for k, ch in enumerate(s[4:]):
        v = ord(ch) - 48
        if not 0 <= v <= 127:
            p.append(("alphabet", f"body character {k} has code {ord(ch)} outside 48..175"))
            break
        got |= v << (7 * k)
    else:
        if got >> N:
            p.append(("padding", f"bits beyond well number {N - 1} are set (well numbers {bits_of(got >> N << N)[:5]})"))
        got &= (1 << N) - 1
        if got != bm:
            missing, extra = bits_of(bm & ~got), bits_of(got & ~bm)
            p.append(("wells", f"decodes to {bin(got).count('1')} wells instead of {bin(bm).count('1')}: "
                               f"missing {names(R, missing)}, unexpected {names(R, extra)}"))
    if not p and s != reference(R, C, bm):
        p.append(("exact", f"differs from the reference string {reference(R, C, bm)!a}"))
    return p


# ---------------------------------------------------------------- building arguments (own code)
DTYPES = {"f64": np.float64, "f32": np.float32, "bool": np.bool_, "i64": np.int64, "i32": np.int32, "u8": np.uint8,
          "i8": np.int8, "u64": np.uint64, "f16": np.float16}
INTS = {"int": int, "i64": np.int64, "i32": np.int32, "i16": np.int16, "u16": np.uint16, "u32": np.uint32, "u64": np.uint64}
REPS = list(DTYPES) + ["F", "T", "strided", "ro", "boolF", "offset"]


def make_array(R, C, bm, rep):
    """R x C array with 1 at the selected wells; `rep` chooses dtype / memory layout"""
    a = np.zeros((R, C), dtype=DTYPES.get(rep, np.bool_ if rep == "boolF" else np.float64))
    for i in bits_of(bm):
        a[i % R, i // R] = 1
    if rep in ("F", "boolF"):
        a = np.asfortranarray(a)
    elif rep == "T":
        a = np.array(a.T, order="C").T  # transposed view of a C x R array
    elif rep == "strided":
        big = np.full((2 * R, 3 * C), 1.0)
        big[::2, 1::3] = a
        a = big[::2, 1::3]
    elif rep == "offset":
        big = np.full((R + 2, C + 3), 1.0)
        big[1:R + 1, 2:C + 2] = a
        a = big[1:R + 1, 2:C + 2]
    elif rep == "ro":
        a.setflags(write=False)
    return a


def make_wells(wells, form):
    if form == "list":
        return list(wells)
    if form == "tuple":
        return tuple(wells)
    if form == "str":
        return wells[0]
    if form == "npstr":
        return [np.str_(w) for w in wells]
    if form == "obj":
        return np.array(list(wells), dtype=object)
    arr = np.array(list(wells), dtype=str) if len(wells) else np.array([], dtype="<U3")
    if form == "array":
        return arr
    if form == "col2d":
        return arr.reshape(-1, 1)
    if form == "row2d":
        return arr.reshape(1, -1)
    if form in ("2d", "2dF"):
        a2 = arr.reshape(2, -1) if len(wells) % 2 == 0 and len(wells) else arr.reshape(1, -1)
        return np.asfortranarray(a2) if form == "2dF" else a2
    raise ValueError(form)


def make_tips(tips):
    return [getattr(CMD.Tip, t) if isinstance(t, str) else t for t in tips]


# ---------------------------------------------------------------- steps
def describe(st):
    R, C = st["R"], st["C"]
    if st["f"] == "sel":
        bm = int(st["sel"], 16)
        return (f"evo_get_selection({st.get('ints', 'int')}({R}), {st.get('ints', 'int')}({C}), <{st.get('rep', 'f64')} array "
                f"selecting {names(R, bits_of(bm))}>)")
    if st["f"] == "mk":
        return f"evo_make_selection_array({R}, {C}, <{st.get('form', 'list')}> {st['wells'][:8]}{'...' if len(st['wells']) > 8 else ''})"
    return (f"{'EvoWorklist.' if st.get('via') == 'wl' else ''}evo_{'aspirate' if st['f'] == 'asp' else 'dispense'}"
            f"({R} x {C}, wells=<{st.get('form', 'list')}> {st['wells']}, tips={st['tips']})")


def code_of(cmd, name, arm):
    """own parser: the selection string is the last quoted argument of the B; record"""
    head, tail = f"B;{name}(", f'",0,{arm});'
    if not isinstance(cmd, str) or not cmd.startswith(head) or not cmd.endswith(tail):
        raise ValueError(f"record does not look like {head}...{tail}: {cmd!a}")
    inner = cmd[len(head):-len(tail)]
    return inner[inner.rindex('"') + 1:]


def run_step(st):
    """-> (problems [(tag, text)], output string or None, (R, C, bitmap))"""
    R, C = st["R"], st["C"]
    f = st["f"]
    if f == "sel":
        bm = int(st["sel"], 16)
        arr = make_array(R, C, bm, st.get("rep", "f64"))
        keep = arr.tobytes()
        it = INTS[st.get("ints", "int")]
        try:
            s = CMD.evo_get_selection(it(R), it(C), arr)
        except Exception as e:  # noqa
            return [("exception", f"raised {type(e).__name__}: {e}")], None, (R, C, bm)
        p = check_string(s, R, C, bm)
        if arr.shape != (R, C) or arr.tobytes() != keep:
            p.append(("input-mutated", "the selection array passed in was modified"))
        return p, s, (R, C, bm)
    wells = st["wells"]
    bm = bm_of(well_rc(w)[1] * R + well_rc(w)[0] for w in wells)
    if f == "mk":
        p = []
        arg = make_wells(wells, st.get("form", "list"))
        keep = list(np.asarray(arg).flatten()) if not isinstance(arg, str) else arg
        it = INTS[st.get("ints", "int")]
        s = None
        for rnd in range(2 if st.get("mutate") else 1):
            try:
                out = CMD.evo_make_selection_array(it(R), it(C), arg)
            except Exception as e:  # noqa
                return p + [("exception", f"raised {type(e).__name__}: {e}")], None, (R, C, bm)
            tag = "" if rnd == 0 else " (second call, after the caller overwrote the first result)"
            if not isinstance(out, np.ndarray) or out.shape != (R, C):
                return p + [("array", f"result is not an array of shape ({R}, {C}): {getattr(out, 'shape', type(out).__name__)}{tag}")], None, (R, C, bm)
            got, bad = 0, None
            for r in range(R):
                for c in range(C):
                    v = out[r, c]
                    if v == 1:
                        got |= 1 << (c * R + r)
                    elif v != 0:
                        bad = (r, c, v)
            if bad:
                p.append(("array", f"entry {wid(bad[0], bad[1])} is {bad[2]!r}, neither 0 nor 1{tag}"))
            if got != bm:
                p.append(("array", f"array marks {names(R, bits_of(got))}, expected {names(R, bits_of(bm))}{tag}"))
            now = list(np.asarray(arg).flatten()) if not isinstance(arg, str) else arg
            if now != keep:
                p.append(("input-mutated", "the wells argument was modified"))
            try:
                s = CMD.evo_get_selection(R, C, out)
            except Exception as e:  # noqa
                return p + [("exception", f"evo_get_selection on the returned array raised {type(e).__name__}: {e}")], None, (R, C, bm)
            p += [(t, x + tag) for t, x in check_string(s, R, C, bm)]
            if st.get("mutate") and out.flags.writeable:
                out[...] = 1 - out if st["mutate"] == "invert" else 1
        return p, s, (R, C, bm)
    # asp / disp
    name = "Aspirate" if f == "asp" else "Dispense"
    arm = st.get("arm", 0)
    arg = make_wells(wells, st.get("form", "list"))
    tips = make_tips(st["tips"])
    pos = tuple(st.get("pos", (38, 2)))
    vol = st.get("vol", 10.0)
    try:
        if st.get("via") == "wl":
            lw = robotools.Labware("P", R, C, min_volume=0, max_volume=2000, initial_volumes=1000)
            wl = robotools.EvoWorklist()
            getattr(wl, "evo_aspirate" if f == "asp" else "evo_dispense")(lw, arg, pos, tips, vol, "LC", arm=arm)
            cmd = wl[-1]
        else:
            fn = CMD.evo_aspirate if f == "asp" else CMD.evo_dispense
            cmd = fn(n_rows=R, n_columns=C, wells=arg, labware_position=pos, volume=vol, liquid_class="LC", tips=tips, arm=arm)
        s = code_of(cmd, name, arm)
    except Exception as e:  # noqa
        return [("exception", f"raised {type(e).__name__}: {e}")], None, (R, C, bm)
    return check_string(s, R, C, bm), s, (R, C, bm)


LAST = [None]


def run_steps(steps):
    """run the steps in order; -> list of (tag, one-line text)"""
    probs, outs = [], {}
    n = len(steps)
    for k, st in enumerate(steps):
        try:
            p, s, geo = run_step(st)
        except Exception as e:  # noqa  (oracle could not interpret the output)
            p, s, geo = [("oracle", f"oracle could not interpret the result: {type(e).__name__}: {e}")], None, None
        where = "" if n == 1 else f"call #{k + 1} of {n} in one process: "
        if p:
            probs.append((st["f"] + ":" + p[0][0], f"{where}{describe(st)} -> {s!a}: " + "; ".join(x for _, x in p[:3])))
        LAST[0] = s
        if s is not None and geo is not None:
            if s in outs and outs[s][0] != geo:
                o = outs[s]
                probs.append((st["f"] + ":distinct", f"{where}{describe(st)} gives the same string {s!a} as call #{o[1] + 1} "
                                                     f"({describe(steps[o[1]])})"))
            outs.setdefault(s, (geo, k))
    return probs


def fresh():
    """forget module-level state of the code under test"""
    for name in RELOAD:
        if name in sys.modules:
            importlib.reload(sys.modules[name])


# ---------------------------------------------------------------- generators
def sel_step(R, C, bm, rep="f64", ints="int"):
    st = {"f": "sel", "R": R, "C": C, "sel": format(bm, "x")}
    if rep != "f64":
        st["rep"] = rep
    if ints != "int":
        st["ints"] = ints
    return st


def boundary_indices(R, C, few=False):
    N = R * C
    last = 7 * ((N - 1) // 7)
    if few:
        cand = {0, 6, 7, R - 1, R, 62, 63, 64, 127, 128, N - 1, N - 7, N - 8, last - 1, last, N // 2}
        for c in range(1, C):
            if (c * R) % 7 == 0:
                cand.update((c * R - 1, c * R))
                if len(cand) > 19:
                    break
        return sorted(i for i in cand if 0 <= i < N)
    cand = {0, 1, 5, 6, 7, 8, 13, 14, R - 1, R, R + 1, 2 * R - 1, 2 * R, 31, 32, 33, 62, 63, 64, 65, 127, 128, 255, 256, 511, 512,
            1023, 1024, N - R - 1, N - R, N - 1, N - 2, N - 7, N - 8, last - 1, last, N // 2}
    for c in range(1, C):
        if (c * R) % 7 == 0:  # a column starts exactly at a group boundary
            cand.update((c * R - 1, c * R, c * R + R - 1))
            if len(cand) > 60:
                break
    return sorted(i for i in cand if 0 <= i < N)


def geometries():
    return [(R, C) for R in range(1, MAXR + 1) for C in range(1, MAXC + 1)]


STANDARD = [(2, 3), (3, 4), (4, 6), (6, 8), (8, 12), (16, 24), (26, 48), (1, 48), (26, 1), (8, 1), (1, 8), (1, 7), (7, 1), (2, 7),
            (7, 2), (7, 12), (14, 3), (21, 2), (9, 7), (8, 8), (8, 9), (9, 8), (1, 1), (8, 4), (5, 13), (13, 5), (3, 21), (26, 47), (25, 48)]


def factorizations(n):
    return [(r, n // r) for r in range(1, MAXR + 1) if n % r == 0 and n // r <= MAXC]


def rowmajor_bm(R, C, flat):
    """bitmap (column-major well numbers) of the R x C selection whose ROW-major flattening is the 0/1 list `flat`"""
    return bm_of(c * R + r for r in range(R) for c in range(C) if flat[r * C + c])


def rand_bm(rng, R, C):
    N = R * C
    mode = rng.choice(["one", "two", "few", "few", "half", "half", "dense", "cols", "rows", "stride7", "prefix", "suffix", "edges",
                       "after_empty", "sparse", "empty", "full"])
    full = (1 << N) - 1
    if mode == "empty":
        return 0
    if mode == "full":
        return full
    if mode in ("one", "two", "few"):
        return bm_of(rng.randrange(N) for _ in range({"one": 1, "two": 2, "few": rng.randint(3, 8)}[mode]))
    if mode == "half":
        return rng.getrandbits(N)
    if mode == "sparse":
        return rng.getrandbits(N) & rng.getrandbits(N) & rng.getrandbits(N)
    if mode == "dense":
        return full & ~bm_of(rng.randrange(N) for _ in range(rng.randint(1, 4)))
    if mode == "cols":
        return bm_of(c * R + r for c in range(C) if rng.random() < .3 for r in range(R))
    if mode == "rows":
        return bm_of(c * R + r for r in range(R) if rng.random() < .3 for c in range(C))
    if mode == "stride7":
        return bm_of(range(rng.randrange(7), N, rng.choice([7, 7, 14, 8, 6, R])))
    if mode == "prefix":
        return (1 << rng.randint(0, N)) - 1
    if mode == "suffix":
        return full & ~((1 << rng.randint(0, N)) - 1)
    if mode == "edges":
        return bm_of(i for g in range(0, N, 7) if rng.random() < .5 for i in (g - 1, g) if 0 <= i < N)
    # after_empty: wells only in columns that follow one or more empty columns
    c0 = rng.randrange(C)
    return bm_of(c * R + r for c in range(c0, min(C, c0 + rng.choice([1, 1, 2]))) for r in range(R) if rng.random() < .5)


def rand_geometry(rng):
    t = rng.random()
    if t < .25:
        return rng.choice(STANDARD)
    if t < .4:  # number of wells a multiple of 7
        g = rng.choice([(r, c) for r in (7, 14, 21) for c in range(1, MAXC + 1)] + [(r, c) for c in (7, 14, 21, 28, 35, 42) for r in range(1, MAXR + 1)])
        return g
    if t < .55:
        return rng.randint(1, 8), rng.randint(1, 12)
    return rng.randint(1, MAXR), rng.randint(1, MAXC)


def column_wells(rng, R, C, k=None):
    """ascending wells of one column, at most 8 (one per tip)"""
    c = rng.choice([0, C - 1, rng.randrange(C)])
    k = k or rng.randint(1, min(8, R))
    rows = sorted(rng.sample(range(R), k))
    return [wid(r, c) for r in rows]


def tips_for(rng, k):
    t = sorted(rng.sample(range(1, 9), k))
    return [f"T{x}" if rng.random() < .4 else x for x in t]


def gen_sequences(rng, tier):
    """targeted call sequences: arguments that could be confused by a memo / shared buffer"""
    ns = [6, 8, 12, 14, 16, 24, 28, 48, 56, 96] if tier == "quick" else [n for n in range(2, 130) if len(factorizations(n)) > 1] + [192, 384, 1248 // 2]
    for n in ns:
        fz = factorizations(n)
        if len(fz) < 2:
            continue
        pats = [[0] * n, [1] * n, [1] + [0] * (n - 1), [0] * (n - 1) + [1], [i % 2 for i in range(n)],
                [rng.randint(0, 1) for _ in range(n)], [int(rng.random() < .15) for _ in range(n)]]
        for flat in pats:
            # the same bytes (row-major content) for every shape with n wells, forwards and backwards
            steps = [sel_step(R, C, rowmajor_bm(R, C, flat), rep) for (R, C) in fz for rep in ("f64",)]
            yield steps
            yield steps[::-1]
            yield [sel_step(R, C, rowmajor_bm(R, C, flat), "bool") for (R, C) in fz][::-1]
            # the same column-major content (same well numbers) for every shape
            bm = bm_of(i for i in range(n) if flat[i])
            yield [sel_step(R, C, bm, rng.choice(["f64", "F", "bool"])) for (R, C) in fz]
    # the same well names on different plates
    for wells in (["A01"], ["A01", "B01"], ["B02"], ["A01", "B02", "C03"], ["H01"], ["A08"], ["H12"], ["A09"], ["H08"], ["C04", "D04"]):
        plates = [(8, 12), (12, 8), (16, 24), (24, 16), (8, 13), (9, 12), (26, 48), (12, 12)]
        plates = [(R, C) for (R, C) in plates if all(well_rc(w)[0] < R and well_rc(w)[1] < C for w in wells)]
        rng.shuffle(plates)
        for form in ("list", "array"):
            yield [{"f": "mk", "R": R, "C": C, "wells": wells, "form": form} for (R, C) in plates]
        yield [sel_step(R, C, bm_of(well_rc(w)[1] * R + well_rc(w)[0] for w in wells)) for (R, C) in plates]
        col = all(w[1:] == wells[0][1:] for w in wells)
        if col:
            for via in ("cmd", "wl"):
                yield [{"f": rng.choice(["asp", "disp"]), "R": R, "C": C, "wells": wells, "tips": tips_for(rng, len(wells)), "via": via}
                       for (R, C) in plates]
    # same plate: a selection, a one-bit neighbour, the selection again, in several representations; rows/cols swapped
    for (R, C) in STANDARD:
        N = R * C
        for _ in range(2 if tier == "quick" else 6):
            bm = rand_bm(rng, R, C)
            i = rng.randrange(N)
            reps = [rng.choice(REPS) for _ in range(4)]
            ints = [rng.choice(list(INTS)) for _ in range(4)]
            yield [sel_step(R, C, bm, reps[0], ints[0]), sel_step(R, C, bm ^ (1 << i), reps[1], ints[1]),
                   sel_step(R, C, bm, reps[2], ints[2]), sel_step(C, R, bm, reps[3], ints[3])]
            yield [sel_step(R, C, bm, r, t) for r, t in (("f64", "int"), ("bool", "i64"), ("u8", "int"), ("i8", "i32"), ("F", "int"), ("T", "u16"))]
        # tips 4 then Tip.T3 (value 4), wells of an earlier call on another column
        if R >= 2:
            w1, w2 = [wid(0, 0), wid(1, 0)], [wid(0, C - 1), wid(1, C - 1)]
            yield [{"f": "asp", "R": R, "C": C, "wells": w1, "tips": [3, 4]}, {"f": "asp", "R": R, "C": C, "wells": w2, "tips": ["T3", "T4"]},
                   {"f": "disp", "R": R, "C": C, "wells": w1, "tips": [3, "T4"]}, {"f": "disp", "R": R, "C": C, "wells": w2[:1], "tips": [4]},
                   {"f": "asp", "R": R, "C": C, "wells": w2[:1], "tips": ["T3"], "form": "str"}]
        ws = [wid(rng.randrange(R), rng.randrange(C)) for _ in range(3)]
        yield [{"f": "mk", "R": R, "C": C, "wells": ws, "mutate": "ones"}, {"f": "mk", "R": R, "C": C, "wells": ws[:1], "mutate": "invert"},
               {"f": "mk", "R": R, "C": C, "wells": ws}, {"f": "mk", "R": R, "C": C, "wells": []}, {"f": "mk", "R": R, "C": C, "wells": ws[::-1] + ws}]


def gen_random_case(rng):
    R, C = rand_geometry(rng)
    t = rng.random()
    if t < .5:
        return [sel_step(R, C, rand_bm(rng, R, C), rng.choice(["f64", "f64", "bool"] + REPS), rng.choice(["int", "int", "int"] + list(INTS)))]
    if t < .65:
        k = rng.choice([0, 1, 1, 2, 3, 8, rng.randint(0, min(R * C, 40))])
        wells = [name_of(R, rng.randrange(R * C)) for _ in range(k)]
        form = rng.choice(["list", "tuple", "array", "npstr", "obj", "col2d", "row2d", "2d", "2dF"] + (["str"] if k == 1 else []))
        st = {"f": "mk", "R": R, "C": C, "wells": wells, "form": form}
        if rng.random() < .3:
            st["mutate"] = rng.choice(["ones", "invert"])
        if rng.random() < .2:
            st["ints"] = rng.choice(list(INTS))
        return [st]
    if t < .8:
        wells = column_wells(rng, R, C)
        st = {"f": rng.choice(["asp", "disp"]), "R": R, "C": C, "wells": wells, "tips": tips_for(rng, len(wells)),
              "form": rng.choice(["list", "tuple", "array", "col2d"] + (["str"] if len(wells) == 1 else [])), "via": "wl" if rng.random() < (.4 if R * C <= 150 else .03) else "cmd"}
        if rng.random() < .3:
            st["arm"] = 1
        if rng.random() < .3:
            st["pos"] = [rng.randint(1, 67), rng.randint(1, 128)]
        return [st]
    # a short sequence around one selection: other shapes with the same number of wells, neighbours, other representations
    bm = rand_bm(rng, R, C)
    steps = [sel_step(R, C, bm, rng.choice(REPS))]
    for _ in range(rng.randint(1, 4)):
        m = rng.random()
        if m < .35:
            R2, C2 = rng.choice(factorizations(R * C))
            steps.append(sel_step(R2, C2, bm if rng.random() < .5 else rowmajor_bm(R2, C2, [int(bool(bm >> ((i % C) * R + i // C) & 1)) for i in range(R * C)]),
                                  rng.choice(["f64", "bool", "F"])))
        elif m < .6:
            steps.append(sel_step(R, C, bm ^ (1 << rng.randrange(R * C)), rng.choice(REPS)))
        elif m < .8:
            steps.append(sel_step(R, C, bm, rng.choice(REPS), rng.choice(list(INTS))))
        else:
            R2, C2 = rand_geometry(rng)
            steps.append(sel_step(R2, C2, bm & ((1 << (R2 * C2)) - 1), rng.choice(REPS)))
    return steps


# ---------------------------------------------------------------- harness
def key_of(steps):
    if len(steps) == 1 and steps[0]["f"] == "sel":
        st = steps[0]
        return f"{st['R']}x{st['C']}:{st['sel']}:{st.get('rep', '')}:{st.get('ints', '')}"
    return json.dumps(steps, sort_keys=True)


def write_replay(steps, what):
    short = hashlib.sha1(json.dumps(steps, sort_keys=True).encode()).hexdigest()[:10]
    rel = os.path.join("replays", PROP, f"bounded_{short}.json")
    os.makedirs(os.path.join(VERIF, "replays", PROP), exist_ok=True)
    with open(os.path.join(VERIF, rel), "w") as fh:
        json.dump({"property": PROP, "bounded_replay": {"script": "c12.py", "case": {"steps": steps}}, "what": what}, fh, indent=1)
    return rel


def replay(path):
    if not os.path.isabs(path) and not os.path.exists(path):
        path = os.path.join(VERIF, path)
    with open(path) as fh:
        steps = json.load(fh)["bounded_replay"]["case"]["steps"]
    probs = run_steps(steps)
    print(f"replay {PROP} case: {len(steps)} call(s) in one process, last: {describe(steps[-1])}")
    for _, q in probs:
        print("VIOLATION", q)
    print("still fails" if probs else "property holds on this case (passes on this tree)")
    return 1 if probs else 0


def main():
    if len(sys.argv) >= 3 and sys.argv[1] == "--replay":
        sys.exit(replay(sys.argv[2]))
    tier = sys.argv[1] if len(sys.argv) > 1 else "quick"
    seed = int(sys.argv[2]) if len(sys.argv) > 2 else 0
    quick = tier == "quick"
    budget = 15 if quick else 210
    t0 = time.time()
    rng = random.Random(seed)
    seen, failures, fail_kinds, samples = set(), [], collections.Counter(), []
    parts = collections.OrderedDict()
    history = collections.deque(maxlen=256)
    first_by_n, last_by_n = {}, {}  # number of wells -> first / most recent calls with that many wells (likeliest to be confused)
    strings = {}  # output string -> (R, C, bitmap) for the exhaustive parts (explicit D7)
    counters = {"evaluations": 0, "triaged": 0}

    def triage(steps, what):
        """make the failing case self-contained: find out whether it needs earlier calls of this process"""
        if counters["triaged"] >= 14 or time.time() - t0 > 2 * budget:
            return None
        counters["triaged"] += 1
        hist = list(history)[-512:]  # replaying the whole call history of the process for every candidate prefix costs minutes
        N = steps[-1]["R"] * steps[-1]["C"]
        same_n = first_by_n.get(N, []) + [st for st in last_by_n.get(N, []) if st not in first_by_n.get(N, [])]
        for pre in ([], hist[-1:], hist[-2:], hist[-4:], same_n, hist[-16:], hist[-64:], hist, same_n + hist):
            fresh()
            if run_steps(pre + steps):
                return pre + steps
        return None

    def feed(steps, part, bound, track=False):
        if failures and time.time() - t0 > 3 * budget:
            return  # this tree already has its (replayable) violations: do not spend the full enumeration on it
        k = key_of(steps)
        if k in seen:
            return
        seen.add(k)
        counters["evaluations"] += 1
        p = parts.setdefault(part, {"function": part, "kind": "bounded enumeration" if "random" not in part else f"bounded seeded random (seed {seed})",
                                    "bound": bound, "evaluations": 0, "seconds": 0.0})
        p["evaluations"] += 1
        t1 = time.time()
        if len(samples) < 5 and counters["evaluations"] in (7, 40011, 150003, 190001, 230007):
            samples.append(steps)
        probs = run_steps(steps)
        if track and not probs:  # explicit distinctness across cases (single sel step)
            st = steps[0]
            s = LAST[0]  # the checked output (D1-D6 passed)
            me = (st["R"], st["C"], st["sel"])
            other = strings.setdefault(s, me)
            if other != me:
                other = sel_step(other[0], other[1], int(other[2], 16))
                steps = [other, st]
                probs = run_steps(steps) or [("sel:distinct", f"{describe(other)} and {describe(st)} give the same string {s!a}")]
        for cls, q in probs[:1]:
            fail_kinds[cls] += 1
            if fail_kinds[cls] > 2 or len(failures) >= 12:
                continue
            full = triage(steps, q)
            if full is None:
                full = steps
                q = "[depends on earlier calls in the same process; not reproduced from the recorded call history, the replay may pass] " + q
            elif len(full) != len(steps):
                q = f"[only after {len(full) - len(steps)} earlier call(s) in the same process] " + q
            failures.append({"what": q[:500], "replay": write_replay(full, q)})
        history.extend(steps)
        for st in steps:
            n_ = st["R"] * st["C"]
            fb = first_by_n.setdefault(n_, [])
            if len(fb) < 8:
                fb.append(st)
            else:
                last_by_n.setdefault(n_, collections.deque(maxlen=8)).append(st)
        p["seconds"] += time.time() - t1

    def left(frac):
        return time.time() - t0 < budget * frac

    geos = sorted(geometries(), key=lambda g: (g[0] * g[1], g))
    lim = 64 if quick else 10**9
    # P3 dimensions up to 255 (two hex digits)
    dims = [1, 2, 9, 10, 11, 15, 16, 17, 26, 27, 31, 32, 48, 49, 99, 100, 127, 128, 129, 159, 160, 161, 175, 176, 199, 200, 239, 240, 254, 255]
    for a in dims:
        for b in (1, 2, 3, 7):
            for (R, C) in ((a, b), (b, a)):
                N = R * C
                for bm in (0, (1 << N) - 1, 1, 1 << (N - 1), 1 << (N // 2)):
                    feed([sel_step(R, C, bm)], "evo_get_selection [dimensions up to 255]",
                         "rows or cols in 30 values 1..255 (hex digit boundaries) x the other in {1,2,3,7}; empty, full, first, last, middle well; 255x255, 255x48, 26x255 corner cases")
    for (R, C) in ((255, 255), (255, 48), (26, 255), (160, 160))[:1 if quick else 4]:
        N = R * C
        for bm in (1 << (N - 1), rng.getrandbits(N), (1 << N) - 1, 0)[:2 if quick else 4]:
            feed([sel_step(R, C, bm)], "evo_get_selection [dimensions up to 255]", "see first case")
    # P4 representations of the selection array and of rows/cols
    rep_geos = [g for g in geos if g[0] * g[1] <= (20 if quick else 60)] + STANDARD
    for (R, C) in rep_geos:
        N = R * C
        for bm in (0, (1 << N) - 1, 1 << (N - 1), rng.getrandbits(N), rand_bm(rng, R, C)):
            for rep in REPS:
                feed([sel_step(R, C, bm, rep, rng.choice(list(INTS)))], "evo_get_selection [dtype / layout / integer type]",
                     f"{len(rep_geos)} geometries x 5 selections x 15 array forms (float64/32/16, bool, (u)int8/32/64, Fortran order, transposed view, "
                     "strided and offset views, read-only) x rows/cols as int / numpy int16..64, uint16..64; input array must stay unchanged")
        if not left(.35):
            break
    # P5 evo_make_selection_array
    mk_geos = [g for g in geos if g[0] * g[1] <= (24 if quick else 96)] + STANDARD
    for (R, C) in mk_geos:
        N = R * C
        bmk = "single wells (all forms incl. bare string), empty, full plate (row- and column-major order), reversed, repeated IDs, random subsets; 9 argument forms; result fed to evo_get_selection; caller-mutated results"
        for i in (range(N) if N <= 24 else boundary_indices(R, C)[:12]):
            feed([{"f": "mk", "R": R, "C": C, "wells": [name_of(R, i)], "form": ["str", "list", "array", "tuple"][i % 4]}], "evo_make_selection_array [forms]", bmk)
        allw = [name_of(R, i) for i in range(N)]
        roww = [wid(r, c) for r in range(R) for c in range(C)]
        sub = [w for w in allw if rng.random() < .4]
        for wells, form in (([], "list"), ([], "array"), (allw, "array"), (roww, "list"), (allw[::-1], "tuple"), (sub, "2d"), (sub + sub[:3], "list"),
                            (sub[::-1], "2dF"), (sub, "obj"), (sub[:5], "npstr"), (sub, "col2d"), (sub, "row2d")):
            feed([{"f": "mk", "R": R, "C": C, "wells": wells, "form": form}], "evo_make_selection_array [forms]", bmk)
        feed([{"f": "mk", "R": R, "C": C, "wells": sub, "form": "list", "mutate": "ones"}], "evo_make_selection_array [forms]", bmk)
        if not left(.5):
            break
    # P6 selection string inside the Aspirate / Dispense records
    for (R, C) in geos:
        b6 = "every geometry: first / last / random column x top well, bottom well, lowest block of up to 8 wells, random rows; every single-column subset (<= 8 wells) for <= 14 wells; ints and Tip members; command function and EvoWorklist method"
        cols = sorted({0, C - 1, rng.randrange(C)}) if not quick or R * C <= 100 else [rng.choice([0, C - 1, rng.randrange(C)])]
        for c in cols:
            k = min(8, R)
            sets = [[0], [R - 1], list(range(R - k, R)), sorted(rng.sample(range(R), rng.randint(1, k)))]
            if quick and R * C > 100:
                sets = sets[2:]
            if R <= 8 and R * C <= 14:
                sets = [[r for r in range(R) if m >> r & 1] for m in range(1, 1 << R) if bin(m).count("1") <= 8]
            for rows in sets:
                wells = [wid(r, c) for r in rows]
                feed([{"f": rng.choice(["asp", "disp"]), "R": R, "C": C, "wells": wells, "tips": tips_for(rng, len(wells)),
                       "form": rng.choice(["list", "tuple", "array"]), "via": "wl" if rng.random() < (.25 if R * C <= 150 else .02) else "cmd"}], "evo_aspirate / evo_dispense [code string in the record]", b6)
        if not left(.6):
            break
    # P7 targeted call sequences
    for steps in gen_sequences(rng, tier):
        feed(steps, "call sequences in one process [targeted]",
             "same row-major bytes / same well numbers / same well names on every shape with the same number of wells (forwards, backwards), one-bit "
             "neighbours, swapped dimensions, 6 representations of one selection, tips 4 vs Tip.T3, caller-mutated results; all outputs pairwise distinct")
        if not left(.65):
            break
    # P1 every subset of every geometry with at most 14 wells
    small = [(R, C) for (R, C) in geometries() if R * C <= 14]
    for (R, C) in sorted(small, key=lambda g: (g[0] * g[1], g)):
        for bm in range(1 << (R * C)):
            feed([sel_step(R, C, bm)], "evo_get_selection [exhaustive, <= 14 wells]",
                 f"all {len(small)} geometries with rows*cols <= 14, every subset of wells (2^(R*C) each), float 0/1 array; strings pairwise distinct", track=True)
    # P2 every geometry: empty, full, single wells, complements of single wells
    for (R, C) in geos:
        N = R * C
        fullbm = (1 << N) - 1
        b2 = f"all {len(geos)} geometries 1..26 x 1..48: empty, full, single wells (every well for geometries up to {'64 wells and 29 standard / 7-multiple plates' if quick else '1248 wells (time permitting)'}, else {'~20' if quick else '~40'} group/column/word-boundary wells), complements of boundary single wells"
        feed([sel_step(R, C, 0)], "evo_get_selection [all geometries: empty/full/single]", b2)
        feed([sel_step(R, C, fullbm)], "evo_get_selection [all geometries: empty/full/single]", b2)
        bidx = boundary_indices(R, C, few=quick)
        every = (N <= lim or (R, C) in STANDARD) and (left(.8) or N <= 30)
        for i in (range(N) if every else bidx):
            feed([sel_step(R, C, 1 << i)], "evo_get_selection [all geometries: empty/full/single]", b2)
        for i in ([0, 6, 7, 62, 63, 64, N - 1, 7 * ((N - 1) // 7)] if quick else bidx):
            if 0 <= i < N:
                feed([sel_step(R, C, fullbm ^ (1 << i))], "evo_get_selection [all geometries: empty/full/single]", b2)
    # P2b every pair of wells of some standard plates (thorough tier)
    if not quick:
        for (R, C) in ((2, 3), (2, 7), (7, 2), (3, 4), (4, 6), (6, 8), (1, 48), (8, 12), (7, 12), (14, 3), (26, 2), (16, 24)):
            N = R * C
            for i in range(N):
                for j in range(i + 1, N):
                    feed([sel_step(R, C, (1 << i) | (1 << j))], "evo_get_selection [every pair of wells, standard plates]",
                         "every 2-well selection of 2x3, 2x7, 7x2, 3x4, 4x6, 6x8, 1x48, 8x12, 7x12, 14x3, 26x2, 16x24 (time permitting)")
                if not left(.85):
                    break
    # P8 seeded random cases until the budget is used
    n = 0
    while left(1.0) and n < 10**7:
        for _ in range(25):
            n += 1
            steps = gen_random_case(rng)
            feed(steps, "random cases [single calls and short sequences]",
                 "geometry uniform in 1..26 x 1..48 biased to standard plates, 7-multiples and small plates; 17 selection shapes (1-8 wells, half, dense, whole "
                 "columns/rows, stride 7, prefix/suffix, group edges, after empty columns); all array forms; make_selection_array and aspirate/dispense; sequences of 2-5 calls")
    for p in parts.values():
        p["seconds"] = round(p["seconds"], 1)
    print(json.dumps({
        "evaluations": counters["evaluations"], "distinct": len(seen),
        "rule": "a case is a list of calls (function, rows, cols, selection as hex bitmap of column-major well numbers or well IDs, array form, integer type) "
                "run in order in one process; each output is decoded by an own EVOware decoder and compared with an own encoder; distinct = distinct "
                "canonical key of the case; empty selections are kept (header, length and zero body are checked)",
        "samples": samples[:5], "parts": list(parts.values()), "failures": failures,
        "seconds": round(time.time() - t0, 1), "failure_classes": len(fail_kinds)}))


if __name__ == "__main__":
    main()
