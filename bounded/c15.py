#!/usr/bin/env python
"""C15 bounded contract monitor: WellShifter / WellRotator / WellRandomizer (robotools/transform.py).

Oracles use only own index arithmetic on well IDs (row letter + 2-digit column):
  S1 WellShifter(A, B, anchor) is refused iff the anchor is not on B or A does not fit (ra+dr > rb or ca+dc > cb)
  S2 shift maps (r, c) -> (r+dr, c+dc) element-wise, keeps the input shape (0-d, 1-D, 2-D), unshift(shift(x)) == x
     and shift(unshift(y)) == y on the image
  R1 rotate_cw maps (r, c) of R x C to (c, R-1-r) of C x R; rotate_ccw to (C-1-c, r); shapes kept; both are bijections
  R2 cw / ccw of the transposed rotator are the inverses; two cw = point reflection; four cw = identity
  Z1 randomize_wells is a permutation of the plate, keeps the input shape, keeps row (mode row) / column (mode column)
  Z2 derandomize o randomize = randomize o derandomize = id, also across two instances built with the same seed
     (the mapping is fully determined by (shape, seed, mode) - independent of instance and of numpy's global RNG)
  Z3 an unknown mode is refused
"""
import collections
import hashlib
import json
import os
import random
import sys
import time

REPO = os.environ.get("PYVC_REPO", "/repo")
sys.path.insert(0, REPO)
import numpy as np  # noqa: E402

from robotools.transform import WellRandomizer, WellRotator, WellShifter  # noqa: E402

PROP = "C15"
VERIF = os.path.dirname(os.path.dirname(os.path.abspath(__file__)))
LETTERS = "ABCDEFGHIJKLMNOPQRSTUVWXYZ"


def wid(r, c):
    return f"{LETTERS[r]}{c + 1:02d}"


def rc(well):
    return LETTERS.index(well[0]), int(well[1:]) - 1


def plate(R, C):
    return [[wid(r, c) for c in range(C)] for r in range(R)]


def shape_of(x):
    if isinstance(x, str):
        return ()
    if len(x) and isinstance(x[0], list):
        return (len(x), len(x[0]))
    return (len(x),)


def flat(x):
    if isinstance(x, str):
        return [x]
    if len(x) and isinstance(x[0], list):
        return [w for row in x for w in row]
    return list(x)


def apply(fn, sub, as_array, f):
    """call transform `fn` on `sub`; compare with own element-wise map f. -> error text or None"""
    arg = sub
    if as_array:
        arg = np.array(sub)
        if as_array == "F" and arg.ndim == 2:
            arg = np.array([list(col) for col in zip(*sub)]).T if arg.size else np.asfortranarray(arg)  # same content, column-major memory layout (a transposed view)
    out = fn(arg)
    if not isinstance(out, np.ndarray) or tuple(out.shape) != shape_of(sub):
        return f"shape not preserved: input {shape_of(sub)} -> output {getattr(out, 'shape', type(out).__name__)}"
    got, want = [str(w) for w in out.flatten()], [f(w) for w in flat(sub)]
    if got != want:
        i = next(i for i, (a, b) in enumerate(zip(got, want)) if a != b)
        return f"well {flat(sub)[i]} mapped to {got[i]}, expected {want[i]}"
    return None


# ---------------------------------------------------------------- oracles
def check_shift(case):
    (ra, ca), (rb, cb), anchor = case["A"], case["B"], case["anchor"]
    on_b = len(anchor) == 3 and anchor[0] in LETTERS[:rb] and anchor[1:].isdigit() and 1 <= int(anchor[1:]) <= cb
    fits = False
    if on_b:
        dr, dc = rc(anchor)
        fits = ra + dr <= rb and ca + dc <= cb
    try:
        sh = WellShifter((ra, ca), (rb, cb), anchor)
    except Exception as e:  # noqa
        return f"S1 fitting shift A={ra}x{ca} B={rb}x{cb} anchor {anchor} refused: {type(e).__name__}" if fits else None
    if not fits:
        return f"S1 non-fitting shift accepted: A={ra}x{ca} onto B={rb}x{cb} anchored at {anchor}"
    fwd = lambda w: wid(rc(w)[0] + dr, rc(w)[1] + dc)  # noqa: E731
    bwd = lambda w: wid(rc(w)[0] - dr, rc(w)[1] - dc)  # noqa: E731
    for sub in [plate(ra, ca)] + case.get("subs", []):
        for arr in (False, True, "F"):
            try:
                err = apply(sh.shift, sub, arr, fwd)
                img = [fwd(w) for w in flat(sub)]
                img = img[0] if isinstance(sub, str) else ([img[i * len(sub[0]):(i + 1) * len(sub[0])] for i in range(len(sub))] if len(shape_of(sub)) == 2 else img)
                err = err or apply(sh.unshift, img, arr, bwd)
                if not err and [str(w) for w in sh.unshift(sh.shift(sub)).flatten()] != flat(sub):
                    err = "unshift(shift(x)) != x"
                if not err and [str(w) for w in sh.shift(sh.unshift(img)).flatten()] != flat(img):
                    err = "shift(unshift(y)) != y"
            except Exception as e:  # noqa
                err = f"raised {type(e).__name__}: {e}"
            if err:
                return f"S2 A={ra}x{ca} B={rb}x{cb} anchor {anchor} input {str(sub)[:60]}: {err}"
    return None


def check_rot(case):
    R, C = case["shape"]
    rot, tro = WellRotator((R, C)), WellRotator((C, R))
    cw = lambda w: wid(rc(w)[1], R - 1 - rc(w)[0])  # noqa: E731
    ccw = lambda w: wid(C - 1 - rc(w)[1], rc(w)[0])  # noqa: E731
    full = plate(R, C)
    try:
        for sub in [full] + case.get("subs", []):
            for arr in (False, True, "F"):
                err = apply(rot.rotate_cw, sub, arr, cw) or apply(rot.rotate_ccw, sub, arr, ccw)
                if err:
                    return f"R1 shape {R}x{C} input {str(sub)[:60]}: {err}"
        a, b = rot.rotate_cw(full), rot.rotate_ccw(full)
        allw = sorted(flat(plate(C, R)))
        if sorted(map(str, a.flatten())) != allw or sorted(map(str, b.flatten())) != allw:
            return f"R1 shape {R}x{C}: rotation is not a bijection onto the {C}x{R} plate"
        if [str(w) for w in tro.rotate_ccw(a).flatten()] != flat(full) or [str(w) for w in tro.rotate_cw(b).flatten()] != flat(full):
            return f"R2 shape {R}x{C}: cw/ccw of the transposed plate do not invert ccw/cw"
        twice = tro.rotate_cw(a)
        if [str(w) for w in twice.flatten()] != [wid(R - 1 - r, C - 1 - c) for r in range(R) for c in range(C)]:
            return f"R2 shape {R}x{C}: two clockwise rotations are not the point reflection"
        if [str(w) for w in tro.rotate_cw(rot.rotate_cw(twice)).flatten()] != flat(full):
            return f"R2 shape {R}x{C}: four clockwise rotations are not the identity"
        if [str(w) for w in tro.rotate_ccw(rot.rotate_ccw(tro.rotate_ccw(b))).flatten()] != flat(full):
            return f"R2 shape {R}x{C}: four counter-clockwise rotations are not the identity"
    except Exception as e:  # noqa
        return f"R shape {R}x{C}: raised {type(e).__name__}: {e}"
    return None


def check_rand(case):
    (R, C), seed, mode = case["shape"], case["seed"], case["mode"]
    valid = mode in ("full", "row", "column")
    try:
        a = WellRandomizer((R, C), seed, mode=mode) if "mode" in case and mode != "<default>" else WellRandomizer((R, C), seed)
    except Exception as e:  # noqa
        return f"Z valid randomizer {R}x{C} seed {seed} mode {mode} raised {type(e).__name__}: {e}" if valid or mode == "<default>" else None
    if not valid and mode != "<default>":
        return f"Z3 unknown mode {mode!r} accepted"
    mode = "full" if mode == "<default>" else mode
    full = plate(R, C)
    tag = f"shape {R}x{C} seed {seed} mode {mode}"
    try:
        np.random.seed(12345 + R)  # the mapping must not depend on numpy's global state
        np.random.rand(3)
        b = WellRandomizer((R, C), seed, mode=mode)
        out = a.randomize_wells(full)
        if tuple(out.shape) != (R, C):
            return f"Z1 {tag}: shape not preserved {out.shape}"
        m = {w: str(o) for w, o in zip(flat(full), out.flatten())}
        if sorted(m.values()) != sorted(m.keys()):
            return f"Z1 {tag}: not a permutation of the plate"
        for w, o in m.items():
            if (mode == "row" and w[0] != o[0]) or (mode == "column" and w[1:] != o[1:]):
                return f"Z1 {tag}: {w} -> {o} leaves its {mode}"
        inv = {o: w for w, o in m.items()}
        if [str(w) for w in b.randomize_wells(full).flatten()] != [m[w] for w in flat(full)]:
            return f"Z2 {tag}: two instances built with the same seed randomize differently"
        if [str(w) for w in b.derandomize_wells(out).flatten()] != flat(full):
            return f"Z2 {tag}: derandomize of a second instance with the same seed does not invert randomize"
        for sub in [full] + case.get("subs", []):
            for arr in (False, True, "F"):
                err = apply(a.randomize_wells, sub, arr, m.get) or apply(a.derandomize_wells, sub, arr, inv.get) \
                    or apply(lambda x: a.derandomize_wells(a.randomize_wells(x)), sub, arr, lambda w: w) \
                    or apply(lambda x: b.randomize_wells(a.derandomize_wells(x)), sub, arr, lambda w: w)
                if err:
                    return f"Z1/Z2 {tag} input {str(sub)[:60]}: {err}"
    except Exception as e:  # noqa
        return f"Z {tag}: raised {type(e).__name__}: {e}"
    return None


def _spoil(obj):
    """overwrite, in place, every array / dict / list an object hands out (a caller may do that with what it was given)"""
    vals = list(vars(obj).values()) if hasattr(obj, "__dict__") and not isinstance(obj, (np.ndarray, dict, list)) else [obj]
    for v in vals:
        try:
            if isinstance(v, np.ndarray) and v.dtype.kind in "US" and v.size:
                v[...] = "Z99"
            elif isinstance(v, dict):
                v.clear()
            elif isinstance(v, list):
                del v[:]
        except (ValueError, TypeError):  # read-only arrays may refuse: fine
            pass


def check_spoil(case):
    """transforms of one shape are built and checked twice in a row; in between, everything the first round handed out
    (helper arrays / dicts, attributes of the transform objects, results) is overwritten in place by the caller.  The second
    round must behave like the first: results may not depend on objects an earlier call gave away."""
    from robotools.transform import make_well_array, make_well_index_dict

    R, C = case["shape"]
    seed, mode = case.get("seed", 1), case.get("mode", "row")
    for rnd in (1, 2):
        a, d = make_well_array(R, C), make_well_index_dict(R, C)
        if [list(map(str, row)) for row in a] != plate(R, C):
            return f"P{rnd} make_well_array({R},{C}) is not the id array of the plate" + (" after the caller overwrote an earlier result" if rnd == 2 else "")
        if dict(d) != {wid(r, c): (r, c) for r in range(R) for c in range(C)}:
            return f"P{rnd} make_well_index_dict({R},{C}) is not the index map of the plate" + (" after the caller cleared an earlier result" if rnd == 2 else "")
        err = check_rot({"shape": [R, C]}) or check_shift({"A": [R, C], "B": [R + 1, C + 1], "anchor": wid(1, 1)}) \
            or check_rand({"shape": [R, C], "seed": seed, "mode": mode})
        if err:
            return err + (" (second round, after the caller overwrote what the first round handed out)" if rnd == 2 else "")
        objs = [a, d, WellRotator((R, C)), WellShifter((R, C), (R + 1, C + 1), wid(1, 1)), WellRandomizer((R, C), seed, mode=mode)]
        outs = [objs[2].rotate_cw(plate(R, C)), objs[3].shift(plate(R, C)), objs[4].randomize_wells(plate(R, C))]
        for o in objs + outs:
            _spoil(o)
    return None


def check(case):
    return {"shift": check_shift, "rot": check_rot, "rand": check_rand, "spoil": check_spoil}[case["kind"]](case)


# ---------------------------------------------------------------- generators
def gen_subs(rng, R, C, k=3):
    """1-D (with repeats, incl. empty), 2-D and scalar selections of wells of an R x C plate"""
    wells = flat(plate(R, C))
    subs = []
    for _ in range(k):
        t = rng.random()
        if t < .2:
            subs.append(rng.choice(wells))
        elif t < .6:
            subs.append([rng.choice(wells) for _ in range(rng.choice([0, 1, 2, 3, 7]))])
        else:
            a, b = rng.choice([1, 1, 2, 3]), rng.choice([1, 2, 4])
            subs.append([[rng.choice(wells) for _ in range(b)] for _ in range(a)])
    return subs


def rshape(rng, maxr=16, maxc=24):
    r = rng.choice([1, 1, 2, maxr]) if rng.random() < .35 else rng.randint(1, maxr)
    c = rng.choice([1, 1, 2, maxc]) if rng.random() < .35 else rng.randint(1, maxc)
    return [r, c]


def gen_shift_small(n):
    shapes = [[r, c] for r in range(1, n + 1) for c in range(1, n + 1)]
    for A in shapes:
        for B in shapes:
            for r in range(B[0]):
                for c in range(B[1]):
                    yield {"kind": "shift", "A": A, "B": B, "anchor": wid(r, c)}
            yield {"kind": "shift", "A": A, "B": B, "anchor": wid(B[0], 0)}   # just off the plate
            yield {"kind": "shift", "A": A, "B": B, "anchor": wid(0, B[1])}


def gen_shift_random(rng):
    A, B = rshape(rng, 26), rshape(rng, 26)
    if rng.random() < .6:  # make B at least as large as A so that fitting anchors exist
        B = [max(A[0], B[0]), max(A[1], B[1])]
    fr, fc = B[0] - A[0], B[1] - A[1]   # largest fitting offsets (may be negative)
    pick = lambda f, n: min(max(rng.choice([0, f - 1, f, f, f + 1, f + 1, f + 2, n - 1, rng.randrange(n)]), 0), n - 1)  # noqa: E731
    return {"kind": "shift", "A": A, "B": B, "anchor": wid(pick(fr, B[0]), pick(fc, B[1])), "subs": gen_subs(rng, *A)}


def gen_rot_all(maxr, maxc):
    for r in range(1, maxr + 1):
        for c in range(1, maxc + 1):
            yield {"kind": "rot", "shape": [r, c]}


def gen_rand_all(maxr, maxc, seeds):
    for r in range(1, maxr + 1):
        for c in range(1, maxc + 1):
            for s in seeds:
                for mode in ("full", "row", "column"):
                    yield {"kind": "rand", "shape": [r, c], "seed": s, "mode": mode}


def gen_rand_random(rng):
    mode = rng.choice(["full", "row", "column"] * 4 + ["<default>", "rows", "col", "", None, "Full"])
    seed = rng.choice([0, 0, 1, 2, 3, 42, 2**31 - 1, 2**32 - 1, rng.randrange(2**32), rng.randrange(100)])
    sh = rshape(rng, 26)
    return {"kind": "rand", "shape": sh, "seed": seed, "mode": mode, "subs": gen_subs(rng, *sh)}


# ---------------------------------------------------------------- harness
def key_of(case):
    return json.dumps(case, sort_keys=True, default=str)


def write_replay(case, what):
    short = hashlib.sha1(key_of(case).encode()).hexdigest()[:10]
    rel = os.path.join("replays", PROP, f"bounded_{short}.json")
    os.makedirs(os.path.join(VERIF, "replays", PROP), exist_ok=True)
    with open(os.path.join(VERIF, rel), "w") as fh:
        json.dump({"property": PROP, "bounded_replay": {"script": "c15.py", "case": case}, "what": what}, fh, indent=1)
    return rel


def replay(path):
    if not os.path.isabs(path) and not os.path.exists(path):
        path = os.path.join(VERIF, path)
    with open(path) as fh:
        case = json.load(fh)["bounded_replay"]["case"]
    what = check(case)
    print("case:", json.dumps(case))
    print("observed:", what or "property holds on this case")
    return 1 if what else 0


def main():
    if sys.argv[1] == "--replay":
        sys.exit(replay(sys.argv[2]))
    tier, seed = sys.argv[1], int(sys.argv[2])
    quick = tier == "quick"
    budget = 12 if quick else 200
    t0 = time.time()
    rng = random.Random(seed)
    seen, failures, fail_kinds, samples = set(), [], collections.Counter(), []
    parts = collections.OrderedDict()

    def run(case, part, bound):
        p = parts.setdefault(part, {"function": part, "kind": "bounded enumeration / seeded random", "bound": bound, "evaluations": 0})
        p["evaluations"] += 1
        k = key_of(case)
        new = k not in seen
        seen.add(k)
        what = check(case)
        if what and new:
            cat = what.split(" ")[0]
            fail_kinds[cat] += 1
            if fail_kinds[cat] <= 3 and len(failures) < 12:
                failures.append({"what": f"{case['kind']}: {what}"[:300], "replay": write_replay(case, what)})

    for shp in ([[1, 1], [2, 3], [3, 2], [8, 12], [4, 6]] if quick else [[r, c] for r in (1, 2, 3, 8, 16) for c in (1, 2, 5, 12, 24)]):
        for mode in ("full", "row", "column"):
            run({"kind": "spoil", "shape": shp, "seed": 3, "mode": mode}, "state handed out between calls",
                "per shape and mode: all transforms built and checked, every array/dict/result they handed out overwritten in place, then built and checked again")
    n = 3 if quick else 5
    for case in gen_shift_small(n):
        run(case, "WellShifter (exhaustive)", f"all shape pairs A, B in 1..{n} x 1..{n}, every anchor on B plus two anchors just off B; full plate as 2-D list and ndarray")
    mr, mc = (6, 8) if quick else (16, 24)
    for case in gen_rot_all(mr, mc):
        run(case, "WellRotator (exhaustive)", f"all shapes 1..{mr} x 1..{mc}, every well (full plate 2-D), cw, ccw, inverse via transposed rotator, 2x and 4x rotation")
    seeds = [0, 1] if quick else [0, 1, 2, 7]
    zr, zc = (4, 5) if quick else (16, 24)
    for case in gen_rand_all(zr, zc, seeds):
        run(case, "WellRandomizer (exhaustive)", f"all shapes 1..{zr} x 1..{zc} x seeds {seeds} x 3 modes; two instances per case; full plate 2-D")
    i = 0
    while time.time() - t0 < budget:
        for _ in range(20):
            i += 1
            if i % 3 == 0:
                sh = rshape(rng)
                case = {"kind": "rot", "shape": sh, "subs": gen_subs(rng, *sh)}
                run(case, "WellRotator (random)", "shapes 1..16 x 1..24 biased to 1-row/1-column/maximal; scalar, 1-D (repeats, empty) and 2-D sub-arrays as list and ndarray")
            elif i % 3 == 1:
                case = gen_shift_random(rng)
                run(case, "WellShifter (random)", "shapes 1..26 x 1..24, anchors biased to the last fitting offset and one/two beyond it in each direction; sub-arrays as above")
            else:
                case = gen_rand_random(rng)
                run(case, "WellRandomizer (random)", "shapes 1..26 x 1..24, seeds incl. 0 and 2^32-1, 3 modes + default + invalid modes; sub-arrays as above")
            if len(samples) < 4 and i % 7 == 0:
                samples.append(case)
    print(json.dumps({
        "evaluations": sum(p["evaluations"] for p in parts.values()), "distinct": len(seen),
        "rule": "a case is (transform, shape(s), anchor | seed+mode, extra sub-arrays); every case checks the whole plate element-wise; distinct = distinct canonical JSON",
        "samples": samples, "parts": list(parts.values()), "failures": failures}, default=str))


if __name__ == "__main__":
    main()
