#!/usr/bin/env python
"""Bounded contract monitor for C08: well numbering is column-major, 1-based and device specific for troughs.

Independent oracle: own well-ID grid (row letter + zero padded column), own position formulas
  plate            : 1 + column_index * rows + row_index                       (EVO and Fluent)
  trough on EVO    : 1 + column_index * virtual_rows + virtual_row_index
  trough on Fluent : 1 + column_index                                          (whatever virtual row is named)
and an own parser of the emitted A; / D; / R; records.  Case kinds
  geom    : one geometry (plate, Trough, or Labware(rows=1, virtual_rows=N)); wells / indices / positions attributes,
            both get_well_position functions on every well, bijectivity + inverse, make_well_array / make_well_index_dict,
            and the position field of A;/D; records of aspirate / dispense on EvoWorklist and FluentWorklist
  records : aspirate / dispense / transfer / distribute naming an arbitrary multiset of wells -> position fields
  badid   : an operation naming a well ID that is not in the (own) ID set must raise and must not emit a record
  reject  : geometries without enough row letters must not be constructible
Not generated (the unchanged tree emits the A; of a transfer before the D; with the bad destination fails; a transfer
whose later step names a bad well has emitted the earlier steps): transfers with a bad destination / later bad well.
The source range of R; records on a FluentWorklist is a known finding (C01) and is not examined.
"""
import hashlib
import itertools
import json
import os
import random
import re
import sys
import time
import warnings

PROP = "C08"
VERIF = os.path.dirname(os.path.dirname(os.path.abspath(__file__)))
REPO = os.environ.get("PYVC_REPO", "/repo")
if REPO not in sys.path:
    sys.path.insert(0, REPO)
import numpy as np  # noqa: E402

warnings.simplefilter("ignore")
import robotools  # noqa: E402
from robotools import EvoWorklist, FluentWorklist, Labware, Trough  # noqa: E402
from robotools.evotools import get_well_position as evo_pos  # noqa: E402
from robotools.fluenttools import get_well_position as fluent_pos  # noqa: E402

LETTERS = "ABCDEFGHIJKLMNOPQRSTUVWXYZ"
RULE = ("one case = (kind, geometry, device, operation, wells), deduplicated by canonical JSON. geom: every plate rows 1..26 x "
        "columns (quick: 14 column counts up to 120, thorough: 1..120) and every trough virtual_rows 1..26 x columns (quick 7 "
        "counts, thorough 1..24) built with Trough AND with Labware(rows=1, virtual_rows=N), every well of each; records: seeded "
        "random well multisets (repeats, boundary columns 9/10/11, 99/100) for aspirate/dispense/transfer/distribute on both "
        "devices; badid: ~30 malformed / out-of-range IDs x position in the well list x operation x device x geometry")


# ---------------------------------------------------------------- own model
def grid(idrows, C):
    return [[f"{LETTERS[r]}{c + 1:02d}" for c in range(C)] for r in range(idrows)]


class Geo:
    def __init__(self, spec):
        self.spec, self.cls, self.R, self.C = spec, spec["cls"], spec["rows"], spec["columns"]
        self.trough = self.cls != "Labware"
        self.ids = grid(self.R, self.C)
        self.rc = {self.ids[r][c]: (r, c) for r in range(self.R) for c in range(self.C)}

    def pos(self, well, device):
        r, c = self.rc[well]
        if self.trough and device == "Fluent":
            return 1 + c
        return 1 + c * self.R + r

    def npos(self, device):
        return self.C if (self.trough and device == "Fluent") else self.R * self.C

    def colmajor(self):
        return [self.ids[r][c] for c in range(self.C) for r in range(self.R)]

    def build(self, name="L", volume=1e6):
        return build(self.spec, name, volume)


def build(spec, name="L", volume=1e6):
    kw = dict(min_volume=0, max_volume=1e12, initial_volumes=volume)
    if spec["cls"] == "Labware":
        return Labware(name, spec["rows"], spec["columns"], **kw)
    if spec["cls"] == "Trough":
        return Trough(name, spec["rows"], spec["columns"], **kw)
    return Labware(name, 1, spec["columns"], virtual_rows=spec["rows"], **kw)


def worklist(device):
    return EvoWorklist() if device == "Evo" else FluentWorklist()


def fields(rec):
    return rec.split(";")


def ad_positions(records, kind, rack):
    """positions of the A; / D; records for `rack`; anything else than C; in between is returned as a problem"""
    out = []
    for rec in records:
        f = fields(rec)
        if f[0] == kind and f[1] == rack:
            out.append(int(f[4]))
    return out


# ---------------------------------------------------------------- case kinds
def run_geom(case):
    g = Geo(case["lw"])
    E = []

    def need(cond, tag, msg):
        if not cond:
            E.append((tag, msg))
    lw = g.build()
    R, C = g.R, g.C
    need(np.shape(lw.wells) == (R, C) and np.asarray(lw.wells).tolist() == g.ids, "wells", f"wells attribute differs from the ID grid {R}x{C}")
    exp_idx = {w: ((0 if g.trough else r), c) for w, (r, c) in g.rc.items()}
    need({k: tuple(map(int, v)) for k, v in lw.indices.items()} == exp_idx, "indices", "indices attribute differs from the (row, column) map")
    exp_pos = {w: 1 + c * R + r for w, (r, c) in g.rc.items()}
    got = dict(lw.positions)
    need(got == exp_pos, "positions", f"positions attribute wrong, e.g. {[(w, got.get(w), p) for w, p in exp_pos.items() if got.get(w) != p][:3]}")
    for device, fn in (("Evo", evo_pos), ("Fluent", fluent_pos)):
        bad, seen = [], {}
        for w in g.colmajor():
            try:
                p = fn(lw, w)
            except Exception as e:  # noqa
                p = f"{type(e).__name__}"
            if p != g.pos(w, device) or type(p) is not int:
                bad.append((w, p, g.pos(w, device)))
            seen.setdefault(p, []).append(w)
        need(not bad, f"get_well_position-{device}", f"{device} get_well_position (well, got, expected): {bad[:4]}")
        real = set(g.ids[0] if (g.trough and device == "Fluent") else g.rc)
        img = [p for p, ws in seen.items() for w in ws if w in real]
        need(bad or sorted(img) == list(range(1, g.npos(device) + 1)), f"bijection-{device}", f"{device} positions of the real wells are not exactly 1..{g.npos(device)}")
        if not bad and not (g.trough and device == "Fluent"):
            # inverse: position p names the well at column-major offset p-1 of `wells`
            flatF = [str(x) for x in np.asarray(lw.wells).T.reshape(-1)]
            inv = {p: ws[0] for p, ws in seen.items()}
            wrong = [(p, inv.get(p), flatF[p - 1]) for p in range(1, R * C + 1) if inv.get(p) != flatF[p - 1] or g.ids[(p - 1) % R][(p - 1) // R] != flatF[p - 1]]
            need(not wrong, f"inverse-{device}", f"position -> well is not the column-major order of `wells`: {wrong[:3]}")
    arr = robotools.make_well_array(R, C)
    need(np.shape(arr) == (R, C) and np.asarray(arr).tolist() == g.ids, "make_well_array", "make_well_array differs from the ID grid")
    need({k: tuple(map(int, v)) for k, v in robotools.make_well_index_dict(R, C).items()} == g.rc, "make_well_index_dict", "make_well_index_dict differs")
    # records: every well (small geometries) or boundary wells + a stride sample
    order = g.colmajor()
    if len(order) > 96:
        pick = set(order[:R + 1] + order[-R - 1:] + order[::max(1, len(order) // 40)])
        for c in (8, 9, 10, 98, 99, 100):
            if c < C:
                pick.update(g.ids[r][c] for r in (0, R - 1))
        order = [w for w in order if w in pick]
    for device in ("Evo", "Fluent"):
        wl = worklist(device)
        as_array = len(order) == R * C
        wells = np.asarray(lw.wells) if as_array else order          # 2-D argument -> flattened column-major
        try:
            wl.aspirate(lw, wells, 1.0)
            wl.dispense(lw, wells, 1.0)
        except Exception as e:  # noqa
            need(False, f"records-{device}", f"aspirate/dispense of existing wells raised {type(e).__name__}: {e}")
            continue
        expect = [g.pos(w, device) for w in order]
        for kind in "AD":
            gotp = ad_positions(wl, kind, "L")
            need(gotp == expect, f"records-{device}", f"{device} {kind}; positions differ: " + str([(w, a, b) for w, a, b in zip(order, gotp, expect) if a != b][:4]) + f" ({len(gotp)} vs {len(expect)} records)")
        need(len(wl) == 2 * len(order), f"records-{device}", "unexpected extra records")
    return E


def run_records(case):
    E = []
    device, op = case["device"], case["op"]
    g = Geo(case["lw"])
    lw = g.build("L")
    wl = worklist(device)
    wells = case["wells"]
    if op in ("aspirate", "dispense"):
        arg = np.array(wells).reshape(case["shape"], order="F") if case.get("shape") else wells
        getattr(wl, op)(lw, arg, case.get("volumes", 2.0), **({"label": case["label"]} if case.get("label") else {}))
        gotp = ad_positions(wl, op[0].upper(), "L")
        exp = [g.pos(w, device) for w in wells]
        if gotp != exp:
            E.append((f"{op}-{device}", f"{op[0].upper()}; positions {gotp[:8]} expected {exp[:8]} for wells {wells[:8]}"))
    elif op == "transfer":
        g2 = Geo(case["lw2"])
        same = case.get("same")
        dst = lw if same else g2.build("M", 0.0)
        g2 = g if same else g2
        wl.transfer(lw, wells, dst, case["wells2"], case.get("volumes", 2.0), **({"label": case["label"]} if case.get("label") else {}))
        recs = [fields(r) for r in wl if r[0] in "AD"]
        pairs = sorted((int(a[4]), int(d[4])) for a, d in zip(recs[0::2], recs[1::2]))
        ok = all(a[0] == "A" and d[0] == "D" and a[1] == "L" and d[1] == dst.name for a, d in zip(recs[0::2], recs[1::2])) and len(recs) % 2 == 0
        n = max(len(wells), len(case["wells2"]), len(case["volumes"]) if isinstance(case.get("volumes"), list) else 1)
        ws, wd = (wells * n)[:n] if len(wells) == 1 else wells, (case["wells2"] * n)[:n] if len(case["wells2"]) == 1 else case["wells2"]
        exp = sorted((g.pos(s, device), g2.pos(d, device)) for s, d in zip(ws, wd))
        if not ok or pairs != exp:
            E.append((f"transfer-{device}", f"(source, destination) position pairs {pairs[:6]} expected {exp[:6]}"))
    elif op == "distribute":
        gs = Geo(case["src"])
        src = gs.build("S")
        dst = g.build("L", 0.0)
        wl.distribute(src, case["column"], dst, wells, volume=1.5)
        recs = [fields(r) for r in wl if r.startswith("R;")]
        ps = sorted(g.pos(w, device) for w in wells)
        excl = sorted(set(range(ps[0], ps[-1] + 1)) - set(ps))
        if len(recs) != 1:
            return [(f"distribute-{device}", f"{len(recs)} R records")]
        f = recs[0]
        gotd = (f[6], int(f[9]), int(f[10]), [int(x) for x in f[16:]])
        if gotd != ("L", ps[0], ps[-1], excl):
            E.append((f"distribute-{device}", f"destination range/exclusions {gotd} expected {('L', ps[0], ps[-1], excl)}"))
        if device == "Evo":  # Fluent source range: known finding C01
            s0 = 1 + case["column"] * gs.R
            if (f[1], int(f[4]), int(f[5])) != ("S", s0, s0 + gs.R - 1):
                E.append(("distribute-src-Evo", f"source range {f[4]}..{f[5]} expected {s0}..{s0 + gs.R - 1}"))
    return E


CANON = re.compile(r"[A-Z]([0-9][0-9]|[1-9][0-9][0-9]+)")


def run_badid(case):
    """`wells` contains at least one ID outside the own ID set: the operation must raise and leave the worklist as it was"""
    device, op = case["device"], case["op"]
    g = Geo(case["lw"])
    wells = case["wells"]
    assert any(w not in g.rc for w in wells), "generator error: no bad id"
    lw = g.build("L")
    wl = worklist(device)
    wl.append("C;before")
    vol = case.get("volumes", 2.0)
    lab = {"label": case["label"]} if case.get("label") else {}
    try:
        if op in ("aspirate", "dispense"):
            getattr(wl, op)(lw, wells, vol, **lab)
        elif op in ("evo_aspirate", "evo_dispense"):
            getattr(wl, op)(lw, wells, (38, 2), list(range(1, len(wells) + 1)), vol, "Water", **lab)
        elif op == "transfer_src":
            dst = Labware("M", 8, 12, min_volume=0, max_volume=1e9)
            wl.transfer(lw, wells, dst, "A01", vol)
        elif op == "distribute":
            src = Trough("S", 8, 2, min_volume=0, max_volume=1e9, initial_volumes=1e6)
            lw = g.build("L", 0.0)
            wl.distribute(src, 1, lw, wells, volume=1.5, **lab)
        elif op == "get_well_position":
            fn = evo_pos if device == "Evo" else fluent_pos
            w = wells[0]
            p = fn(lw, w)
            # lenient parsing (e.g. 'A1') is tolerated, but never a position outside the labware, and never a value for a
            # canonical-looking ID whose row/column does not exist (Fluent troughs ignore the row letter by specification)
            if not (type(p) is int and 1 <= p <= g.npos(device)):
                return [("bad-id-position", f"{device} get_well_position({w!r}) = {p!r} is outside 1..{g.npos(device)}")]
            if CANON.fullmatch(w):
                col_ok = 1 <= int(w[1:]) <= g.C
                if not (g.trough and device == "Fluent" and col_ok):
                    return [("bad-id-position", f"{device} get_well_position({w!r}) = {p!r} although the well does not exist")]
            return []
        else:
            raise AssertionError(op)
    except AssertionError:
        if op not in ("aspirate", "dispense", "evo_aspirate", "evo_dispense", "transfer_src", "distribute"):
            raise
        raised = True
    except Exception:  # noqa
        raised = True
    else:
        raised = False
    if op == "get_well_position":
        return []
    E = []
    if not raised:
        E.append((f"bad-id-accepted-{op}", f"{device} {op} naming {[w for w in wells if w not in g.rc]} did not raise"))
    if list(wl) != ["C;before"]:
        E.append((f"bad-id-record-{op}", f"{device} {op} naming {[w for w in wells if w not in g.rc]} emitted {list(wl)[1:4]}"))
    return E


def run_reject(case):
    s = case["lw"]
    try:
        build(s)
    except ValueError:
        return []
    except Exception as e:  # noqa
        return [("reject", f"{type(e).__name__} instead of ValueError for a geometry without row letters: {e}")]
    return [("reject", f"geometry {s} has no well IDs for every row but was constructed")]


def run_helpers(case):
    """the well-array helpers of robotools.transform agree with the labware's own `wells` / `indices` - also after a caller
    has overwritten, in place, what an earlier call of the helpers handed out (results must not share state between calls)"""
    from robotools import Labware
    from robotools.transform import make_well_array, make_well_index_dict

    R, C = case["rows"], case["columns"]
    letters = "ABCDEFGHIJKLMNOPQRSTUVWXYZ"
    ids = [[f"{letters[r]}{c + 1:02d}" for c in range(C)] for r in range(R)]
    want = {ids[r][c]: (r, c) for r in range(R) for c in range(C)}
    for rnd in (1, 2, 3):
        lw = Labware("L", R, C, min_volume=0, max_volume=10)
        a, d = make_well_array(R, C), make_well_index_dict(R, C)
        after = " after the caller overwrote the result of an earlier call" if rnd > 1 else ""
        if [list(map(str, row)) for row in a] != ids or [list(map(str, row)) for row in lw.wells] != ids:
            return [("helpers", f"make_well_array({R},{C}) / Labware.wells differ from the row-letter + 2-digit-column ids{after}")]
        if dict(d) != want or {k: tuple(v) for k, v in lw.indices.items()} != want:
            return [("helpers", f"make_well_index_dict({R},{C}) / Labware.indices differ from id -> (row, column){after}")]
        if rnd == 1:
            a[...] = "Z99"
            d.clear()
        elif rnd == 2:
            a[0, 0] = "B07"
            d["A01"] = (R, C)
            d["ZZ9"] = (0, 0)
    return []


def run_case(case):
    return {"geom": run_geom, "records": run_records, "badid": run_badid, "reject": run_reject, "helpers": run_helpers}[case["kind"]](case)


# ---------------------------------------------------------------- generators
def spec(cls, rows, cols):
    return {"cls": cls, "rows": rows, "columns": cols}


def gen_geom(tier):
    full = tier == "thorough"
    pc = range(1, 121) if full else [1, 2, 3, 8, 9, 10, 11, 12, 24, 48, 99, 100, 101, 120]
    tc = range(1, 25) if full else [1, 2, 3, 8, 9, 12, 24]
    # interleave so that a truncated run still covers every family
    plates = [spec("Labware", R, C) for C in pc for R in range(1, 27) if full or C <= 24 or R in (1, 2, 3, 7, 8, 16, 25, 26)]
    troughs = [spec(cls, VR, C) for C in tc for VR in range(1, 27) for cls in ("Trough", "LabwareVR")]
    k = max(1, len(plates) // max(1, len(troughs)))
    ti = iter(troughs)
    for i, p in enumerate(plates):
        yield {"kind": "geom", "lw": p}
        if i % k == 0:
            t = next(ti, None)
            if t:
                yield {"kind": "geom", "lw": t}
    for t in ti:
        yield {"kind": "geom", "lw": t}
    for cls, n, C in itertools.product(("Labware", "Trough", "LabwareVR"), (27, 28, 30, 40), (1, 2, 12)):
        yield {"kind": "reject", "lw": spec(cls, n, C)}


def bad_ids(g):
    R, C = g.R, g.C
    out = [f"A{C + 1:02d}", "A00", "A0", f"A{C + 1}", f"A{C + 100:02d}", "A1", f"A{C}" if C < 10 else f"A0{C}", "A001", "a01", "A01 ", " A01",
           "A", "01", "", "AA01", "AB01", "A-1", "A01\n", "1A", "A1.0", "A.01", "Α01", "A０１", f"{LETTERS[R - 1]}{C + 1:02d}",
           f"{LETTERS[R - 1].lower()}{C:02d}", "A01;", "A01A"]
    if R < 26:
        out += [f"{LETTERS[R]}01", f"{LETTERS[R]}{C:02d}", "Z01", f"Z{C:02d}", f"{LETTERS[R]}1"]
    return [w for w in dict.fromkeys(out) if w not in g.rc]


def gen_badid(tier, rng=None):
    geos = [spec("Labware", 8, 12), spec("Labware", 1, 1), spec("Labware", 2, 3), spec("Labware", 26, 2), spec("Labware", 2, 99),
            spec("Trough", 4, 2), spec("Trough", 1, 1), spec("LabwareVR", 4, 3), spec("Trough", 26, 2), spec("LabwareVR", 2, 24),
            spec("Labware", 1, 100)]
    if tier == "thorough":
        geos += [spec("Labware", R, C) for R, C in ((1, 12), (5, 9), (7, 10), (16, 99), (13, 1), (3, 100))]
        geos += [spec(c, v, k) for c in ("Trough", "LabwareVR") for v, k in ((2, 2), (6, 5), (25, 3), (8, 1), (1, 2), (26, 24))]
    for s in geos:
        g = Geo(s)
        good = [g.ids[0][0], g.ids[-1][-1], g.ids[0][-1], g.ids[-1][0]]
        for bad in bad_ids(g):
            for device in ("Evo", "Fluent"):
                yield {"kind": "badid", "lw": s, "device": device, "op": "get_well_position", "wells": [bad]}
                lists = [[bad], [good[0], bad], [bad, good[1]], [good[0], good[1], bad], [good[2], bad, good[3]], [bad, bad]]
                if tier == "quick":
                    lists = lists[:2] + lists[3:5]
                for i, wells in enumerate(lists):
                    for op in ("aspirate", "dispense", "distribute"):
                        if tier == "quick" and op == "distribute" and i > 1:
                            continue
                        yield {"kind": "badid", "lw": s, "device": device, "op": op, "wells": wells}
                        if i == (0 if op == "distribute" else 1) or (i < 2 and tier != "quick"):
                            yield {"kind": "badid", "lw": s, "device": device, "op": op, "wells": wells, "label": "lbl"}
                        if op != "distribute" and i == 1:
                            yield {"kind": "badid", "lw": s, "device": device, "op": op, "wells": wells, "volumes": [1.0] * (len(wells) - 1) + [0.0]}
                yield {"kind": "badid", "lw": s, "device": device, "op": "transfer_src", "wells": [bad]}
                yield {"kind": "badid", "lw": s, "device": device, "op": "transfer_src", "wells": [bad, bad]}
            if True:
                col = [g.ids[r][0] for r in range(min(g.R, 3))]
                for wells in ([bad], col[:1] + [bad], [bad] + col[:1], col + [bad])[:2 if tier == "quick" else 4]:
                    for op in ("evo_aspirate", "evo_dispense"):
                        yield {"kind": "badid", "lw": s, "device": "Evo", "op": op, "wells": wells}
                        if tier != "quick":
                            yield {"kind": "badid", "lw": s, "device": "Evo", "op": op, "wells": wells, "label": "lbl"}


def rand_geo(rng, trough=None):
    if trough is None:
        trough = rng.random() < 0.4
    if trough:
        return spec(rng.choice(["Trough", "LabwareVR"]), rng.choice([1, 1, 2, 3, 4, 6, 8, 16, 26, rng.randint(1, 26)]), rng.choice([1, 2, 3, 4, 9, 10, 12, 24, rng.randint(1, 24)]))
    C = rng.choice([1, 2, 3, 6, 9, 10, 11, 12, 12, 12, 24, 99, 100, rng.randint(1, 120)])
    R = rng.choice([1, 2, 3, 4, 8, 8, 16, 26, rng.randint(1, 26)])
    return spec("Labware", min(R, 4) if C > 24 and rng.random() < 0.9 else R, C)


def rand_wells(rng, g, n):
    hot = [g.ids[r][c] for r in {0, g.R - 1, g.R // 2} for c in {0, g.C - 1, min(8, g.C - 1), min(9, g.C - 1), min(10, g.C - 1), min(98, g.C - 1), min(99, g.C - 1)}]
    out = []
    for _ in range(n):
        x = rng.random()
        out.append(rng.choice(hot) if x < 0.4 else (rng.choice(out) if out and x < 0.55 else g.ids[rng.randrange(g.R)][rng.randrange(g.C)]))
    return out


def gen_records(tier, seed):
    rng = random.Random(seed)
    for _ in range(2500 if tier == "quick" else 60000):
        device = rng.choice(["Evo", "Fluent"])
        op = rng.choice(["aspirate", "dispense", "transfer", "transfer", "distribute"])
        s = rand_geo(rng)
        g = Geo(s)
        n = rng.choice([1, 1, 2, 3, 5, 8, 12])
        case = {"kind": "records", "lw": s, "device": device, "op": op, "wells": rand_wells(rng, g, n)}
        if rng.random() < 0.3:
            case["label"] = "step"
        if op in ("aspirate", "dispense") and rng.random() < 0.3:
            a, b = rng.choice([(1, 1), (2, 2), (2, 3), (3, 2), (1, 4), (4, 1)])
            case["wells"], case["shape"] = rand_wells(rng, g, a * b), [a, b]
        if op == "transfer":
            if rng.random() < 0.25:
                case["same"] = True
                case["lw2"] = s
                case["wells2"] = rand_wells(rng, g, n)
            else:
                case["lw2"] = rand_geo(rng)
                case["wells2"] = rand_wells(rng, Geo(case["lw2"]), rng.choice([1, n]))
            if rng.random() < 0.2:
                case["wells"] = case["wells"][:1]
                if len(case["wells2"]) == 1 and n > 1:
                    case["volumes"] = [2.0] * n
        if op == "distribute":
            case["src"] = rand_geo(rng, trough=True)
            case["column"] = rng.randrange(case["src"]["columns"])
            case["wells"] = list(dict.fromkeys(case["wells"]))
        yield case


def gen_helpers(tier):
    rows = (1, 2, 8, 16, 26) if tier == "quick" else range(1, 27)
    cols = (1, 2, 12, 24, 99, 100) if tier == "quick" else (1, 2, 3, 9, 10, 11, 12, 24, 48, 99, 100, 120)
    for r in rows:
        for c in cols:
            yield {"kind": "helpers", "rows": r, "columns": c}


def generate(tier, seed):
    for name, gen in (("well-array helpers", gen_helpers(tier)), ("geometry sweep", gen_geom(tier)), ("bad / out-of-range IDs", gen_badid(tier)), ("random records", gen_records(tier, seed))):
        for case in gen:
            yield name, case


BOUNDS = {"well-array helpers": "make_well_array / make_well_index_dict vs Labware.wells / indices for rows x columns grids (quick 5x6, thorough 26x12 shapes), three rounds with the earlier results overwritten in place in between",
          "bad / out-of-range IDs": "11 (thorough 29) geometries x ~30 malformed IDs x 6 well-list shapes x {aspirate, dispense, distribute, evo_aspirate, evo_dispense, transfer source, get_well_position} x both devices x with/without label / zero volume",
          "random records": "seeded random (quick 2500, thorough 60000): geometry rows<=26 x columns<=120, troughs <=26x24, 1..12 wells with repeats and boundary columns, 2-D well arguments, same-labware transfers",
          "geometry sweep": "plates rows 1..26 x columns (quick 14 values <=120, thorough 1..120); troughs virtual_rows 1..26 x columns (quick 7 values, thorough 1..24) as Trough and as Labware(virtual_rows); rows 27..40 rejected"}


# ---------------------------------------------------------------- driver
def canonical(case):
    return json.dumps(case, sort_keys=True)


def write_replay(case, what):
    short = hashlib.sha1(canonical(case).encode()).hexdigest()[:10]
    rel = os.path.join("replays", PROP, f"bounded_{short}.json")
    os.makedirs(os.path.join(VERIF, "replays", PROP), exist_ok=True)
    with open(os.path.join(VERIF, rel), "w") as fh:
        json.dump({"property": PROP, "bounded_replay": {"script": f"{PROP.lower()}.py", "case": case}, "what": what}, fh, indent=1)
    return rel


def replay(path):
    if not os.path.isabs(path) and not os.path.exists(path):
        path = os.path.join(VERIF, path)
    with open(path) as fh:
        case = json.load(fh)["bounded_replay"]["case"]
    print("case:", canonical(case))
    errs = run_case(case)
    for tag, msg in errs:
        print(f"FAIL [{tag}] {msg}")
    if not errs:
        print("PASS: numbering / rejection behaviour agrees with the model")
    return 1 if errs else 0


def main(argv):
    if argv and argv[0] == "--replay":
        return replay(argv[1])
    tier = argv[0] if argv else "quick"
    seed = int(argv[1]) if len(argv) > 1 else 0
    budget = 16 if tier == "quick" else 270
    t0 = time.time()
    seen, parts, failures, tags, samples, nfail, sampled = set(), {}, [], set(), [], 0, {}
    for part, case in generate(tier, seed):
        if time.time() - t0 > budget:
            break
        key = canonical(case)
        if key in seen:
            continue
        seen.add(key)
        parts[part] = parts.get(part, 0) + 1
        errs = run_case(case)
        if sampled.get(part, 0) < 2 and parts[part] % 97 == 5:
            sampled[part] = sampled.get(part, 0) + 1
            samples.append(case)
        if errs:
            nfail += 1
            tag = errs[0][0]
            if tag not in tags and len(failures) < 12:
                tags.add(tag)
                what = f"{key[:200]}: {errs[0][1]}"[:450]
                failures.append({"what": what, "replay": write_replay(case, what)})
    out = {"evaluations": len(seen), "distinct": len(seen), "rule": RULE, "samples": samples[:5],
           "parts": [{"function": f"well numbering: {p}", "kind": "bounded seeded random" if "random" in p else "bounded enumeration",
                      "bound": BOUNDS[p], "evaluations": n} for p, n in parts.items()],
           "failures": failures, "failing_cases": nfail, "seconds": round(time.time() - t0, 1)}
    print(json.dumps(out))
    return 0


if __name__ == "__main__":
    sys.exit(main(sys.argv[1:]))
