#!/usr/bin/env python
"""Bounded contract monitor for C07: transfers move each requested volume between the paired wells, one tip at a time.

For every case (device, source/destination labware, the three transfer arguments in any accepted shape, options) the real
Evo/FluentWorklist.transfer is executed and its record list is interpreted with an own .gwl parser and an own
well <-> position mapping.  Independent oracles:
  pairing    the requested triples are derived here (own column-major flattening + singleton broadcast); the emitted flows,
             aggregated per (source position, destination position) with exact Fractions, equal the requested ones
             (=> independent of listing order and of partition_by; every permutation / mode is a separate case)
  discipline every A record is directly followed by a D record with identical volume, liquid class, tip mask, rack id/type,
             tube id, then exactly the requested tip action (W1-W4 / 'W;' with DiTis / 'F;' / nothing), all pass-through
             keyword arguments appear in the records, every step is <= max_volume
  grouping   own model of column groups (ascending column of the partitioning side, rows sorted inside, 'auto' resolved here):
             pass p of a group contains exactly the triples that need more than p steps; a 'B;' follows every non-final
             pass that touched several wells and closes every group in which a volume had to be split, no other 'B;' exists
  rejection  incompatible lengths, negative or NaN volumes raise and leave worklist and labware untouched
  tracking   labware volumes afterwards equal initial -/+ the requested flows.
"""
import hashlib
import itertools
import json
import logging
import math
import os
import random
import sys
import time
import warnings
from collections import Counter
from fractions import Fraction as F

REPO = os.environ.get("PYVC_REPO", "/repo")
sys.path.insert(0, REPO)
VERIF = os.path.dirname(os.path.dirname(os.path.abspath(__file__)))
PROP = "C07"

import numpy  # noqa: E402
import robotools  # noqa: E402
from robotools import EvoWorklist, FluentWorklist, Labware, Trough  # noqa: E402
from robotools.evotools.types import Tip  # noqa: E402
from robotools.liquidhandling.exceptions import VolumeViolationException  # noqa: E402
from robotools.worklists.exceptions import InvalidOperationError  # noqa: E402

assert os.path.realpath(robotools.__file__).startswith(os.path.realpath(REPO) + os.sep), robotools.__file__
logging.disable(logging.CRITICAL)
warnings.simplefilter("ignore")

DEVICES = {"evo": EvoWorklist, "fluent": FluentWorklist}
ROWS = "ABCDEFGHIJKLMNOPQRSTUVWXYZ"
INIT, CAP = 1.0e6, 2.0e6


# ------------------------------------------------------------------ own model of labware geometry / records
def mk_labware(s):
    kw = dict(min_volume=s.get("min", 0), max_volume=s.get("max", CAP), initial_volumes=s.get("init", INIT))
    if s["kind"] == "plate":
        return Labware(s["name"], s["rows"], s["cols"], **kw)
    if s["kind"] == "trough":
        return Trough(s["name"], s["rows"], s["cols"], **kw)
    return Labware(s["name"], 1, s["cols"], virtual_rows=s["rows"], **kw)  # trough built through the generic class


def is_trough(s):
    return s["kind"] != "plate"


def rc(well):
    return ROWS.index(well[0]), int(well[1:]) - 1


def position(s, well, device):
    r, c = rc(well)
    if not (r < s["rows"] and c < s["cols"]):
        raise KeyError(well)
    if is_trough(s) and device == "fluent":
        return 1 + c
    return 1 + c * s["rows"] + r


def real_index(s, well):
    r, c = rc(well)
    return (0, c) if is_trough(s) else (r, c)


def parse(rec):
    f = rec.split(";")
    if f[0] in ("A", "D"):
        if len(f) != 11:
            raise ValueError(f"{len(f)} fields in {rec!r}")
        return {"t": f[0], "rack": f[1], "rack_id": f[2], "rack_type": f[3], "pos": int(f[4]), "tube_id": f[5], "vol_s": f[6],
                "vol": F(f[6]), "lc": f[7], "tip_type": f[8], "tip": f[9], "forced": f[10]}
    return {"t": rec}


def flat(a):
    """own column-major flattening of a scalar / list / list of rows"""
    if not isinstance(a, list):
        return [a]
    if a and isinstance(a[0], list):
        return [a[r][c] for c in range(len(a[0])) for r in range(len(a))]
    return list(a)


def num(v):
    return float(v) if v == "nan" else v


def tipmask(t):
    if t is None:
        return ""
    if isinstance(t, list):
        return str(sum({2 ** (int(str(x).lstrip("T")) - 1) for x in t}))
    return str(2 ** (int(str(t).lstrip("T")) - 1))


def to_tip(t):
    conv = lambda x: getattr(Tip, x) if isinstance(x, str) else x  # noqa: E731
    return [conv(x) for x in t] if isinstance(t, list) else conv(t)


def steps_needed(v, m, auto_split):
    if not auto_split:
        return 1  # one (possibly skipped) step
    if v == 0:
        return 0
    return max(1, math.ceil(F(v) / F(m)))


def _layout(a):
    """every other 2-D argument is handed over in column-major (Fortran) memory layout: same content, same shape -
    results must not depend on the memory layout of an argument"""
    if isinstance(a, numpy.ndarray) and a.ndim == 2 and min(a.shape) > 1 and (a.shape[0] + a.shape[1]) % 2 == 0:
        return numpy.asfortranarray(a)
    return a


def to_arg(a, mode):
    def cv(x):
        return [cv(y) for y in x] if isinstance(x, list) else num(x)
    a = cv(a)
    if mode == "np" and isinstance(a, list):
        return _layout(numpy.array(a))
    if mode == "tuple" and isinstance(a, list) and not (a and isinstance(a[0], list)):
        return tuple(a)
    return a


# ------------------------------------------------------------------ the check
def check(c):
    dev = c["device"]
    ssrc = c["src"]
    sdst = c["dst"] or ssrc
    same = c["dst"] is None
    src = mk_labware(ssrc)
    dst = src if same else mk_labware(sdst)
    wlo = c.get("wl", {})
    m = wlo.get("max_volume", 950)
    auto_split = wlo.get("auto_split", True)
    diti = wlo.get("diti_mode", False)
    wl = DEVICES[dev](max_volume=m, auto_split=auto_split, diti_mode=diti)
    o = c.get("opts", {})
    wash = o.get("wash_scheme", 1)
    pby = o.get("partition_by", "auto")
    label = o.get("label")
    kw = dict(o.get("kwargs", {}))
    call_kw = dict(kw)
    if "tip" in call_kw:
        call_kw["tip"] = to_tip(call_kw["tip"])
    a = c["args"]
    mode = a.get("mode", "list")
    v0s, v0d = src.volumes, dst.volumes
    exc = None
    try:
        wl.transfer(src, to_arg(a["src"], mode), dst, to_arg(a["dst"], mode), to_arg(a["vol"], mode),
                    label=label, wash_scheme=wash, partition_by=pby, **call_kw)
    except Exception as e:  # noqa
        exc = e
    recs = list(wl)
    head = f"{dev} transfer {json.dumps(a)} max_volume={m} auto_split={auto_split} partition_by={pby} wash={wash!r}" \
           f" {ssrc['kind']}{ssrc['rows']}x{ssrc['cols']}->{'same' if same else sdst['kind'] + str(sdst['rows']) + 'x' + str(sdst['cols'])}"

    # ---- what was requested (own derivation)
    S, D, V = flat(a["src"]), flat(a["dst"]), [num(v) for v in flat(a["vol"])]
    nmax = max(len(S), len(D), len(V))
    S, D, V = [x * nmax if len(x) == 1 else x for x in (S, D, V)]
    bad_len = len({len(S), len(D), len(V)}) != 1
    bad_vol = any((not v >= 0) for v in V)
    if bad_len or bad_vol:
        why = "incompatible lengths" if bad_len else "negative/NaN volume"
        if exc is None or not isinstance(exc, (ValueError, AssertionError)):
            return [f"{head}: {why} not rejected ({type(exc).__name__ if exc else 'no error'}); records {recs[:6]}"]
        if recs or not numpy.array_equal(src.volumes, v0s) or not numpy.array_equal(dst.volumes, v0d):
            return [f"{head}: rejected ({why}) but worklist/labware were changed: {recs[:4]}"]
        return []
    triples = list(zip(S, D, V))
    too_big = (not auto_split) and any(F(v) > F(m) for v in V)
    if too_big:
        if not isinstance(exc, InvalidOperationError):
            return [f"{head}: step above max_volume with auto_split=False not refused ({type(exc).__name__ if exc else 'no error'})"]
        return []
    # own sufficient feasibility condition (order independent); outside of it volume errors are legitimate
    out_, in_ = Counter(), Counter()
    for s, d, v in triples:
        out_[real_index(ssrc, s)] += F(v)
        in_[real_index(sdst, d)] += F(v)
    feasible = all(F(float(v0s[i])) - q >= F(ssrc.get("min", 0)) + 1 for i, q in out_.items()) and \
        all(F(float(v0d[i])) + q <= F(sdst.get("max", CAP)) - 1 for i, q in in_.items())
    if exc is not None:
        if isinstance(exc, VolumeViolationException) and not feasible:
            return []
        return [f"{head}: refused: {type(exc).__name__}: {exc}"]

    # ---- interpret the records
    p = []
    want_c = [f"C;{ln.strip()}" for ln in (label or "").split("\n") if ln.strip()]
    if recs[:len(want_c)] != want_c:
        return [f"{head}: label comment records {recs[:len(want_c)]} != {want_c}"]
    body = recs[len(want_c):]
    action = None if wash == "reuse" else "F;" if wash == "flush" else "W;" if diti else f"W{int(wash)};"
    mode_ = pby
    if pby == "auto":
        mode_ = "destination" if is_trough(ssrc) and not is_trough(sdst) else "source"
    side = 0 if mode_ == "source" else 1
    side_spec = ssrc if side == 0 else sdst
    groups = {}
    for t in triples:
        groups.setdefault(rc(t[side])[1], []).append(t)
    i = 0
    flows = Counter()
    exp_common = {"rack_id": kw.get("rack_id", ""), "rack_type": kw.get("rack_type", ""), "tube_id": kw.get("tube_id", ""),
                  "lc": kw.get("liquid_class", ""), "tip_type": "", "tip": tipmask(kw.get("tip")), "forced": kw.get("forced_rack_type", "")}
    for col in sorted(groups):
        g = groups[col]
        need = [steps_needed(v, m, auto_split) for _, _, v in g]
        npart = max(need)
        for pz in range(npart):
            members = [t for t, k in zip(g, need) if k > pz and t[2] > 0]
            want = Counter((position(ssrc, s, dev), position(sdst, d, dev)) for s, d, _ in members)
            got, sidepos = Counter(), []
            for _ in members:
                if i + 1 >= len(body):
                    return [f"{head}: records end early (column {col + 1}, pass {pz}): {body[max(0, i - 3):]}"]
                try:
                    ra, rd = parse(body[i]), parse(body[i + 1])
                except ValueError as e:
                    return [f"{head}: malformed record: {e}"]
                if ra["t"] != "A" or rd["t"] != "D":
                    return [f"{head}: expected an A record directly followed by a D record at {body[i:i + 2]} (column {col + 1}, pass {pz})"]
                for k, w in exp_common.items():
                    if ra[k] != w or rd[k] != w:
                        p.append(f"field {k}: A has {ra[k]!r}, D has {rd[k]!r}, requested {w!r} ({body[i]} / {body[i + 1]})")
                if ra["vol_s"] != rd["vol_s"]:
                    p.append(f"A/D volumes differ: {body[i]} / {body[i + 1]}")
                if ra["rack"] != ssrc["name"] or rd["rack"] != sdst["name"]:
                    p.append(f"rack labels {ra['rack']}/{rd['rack']}")
                if not (0 < ra["vol"] <= F(m) + F(51, 10000)):
                    p.append(f"step volume {ra['vol_s']} outside (0, max_volume]")
                i += 2
                if action is not None:
                    if i >= len(body) or body[i] != action:
                        return [f"{head}: tip action after {body[i - 2:i]} is {body[i:i + 1]}, requested {action!r}"]
                    i += 1
                got[(ra["pos"], rd["pos"])] += 1
                flows[(ra["pos"], rd["pos"])] += ra["vol"]
                sidepos.append((ra["pos"], rd["pos"])[side])
            if got != want:
                return [f"{head}: column {col + 1} pass {pz}: (source position, destination position) pairs {sorted(got.elements())} != requested {sorted(want.elements())}"]
            if sidepos != sorted(sidepos):
                p.append(f"column {col + 1} pass {pz}: wells not visited in row order: {sidepos}")
            if npart > 1 and len(members) > 1 and pz != npart - 1:
                if i >= len(body) or body[i] != "B;":
                    return [f"{head}: no break after pass {pz} of split column {col + 1}: next {body[i:i + 1]}"]
                i += 1
        if npart > 1:
            if i >= len(body) or body[i] != "B;":
                return [f"{head}: no break closes column {col + 1}, in which a volume had to be split: next {body[i:i + 1]}"]
            i += 1
        elif i < len(body) and body[i] == "B;":
            return [f"{head}: break after column {col + 1}, in which nothing was split"]
    if i != len(body):
        p.append(f"unexpected trailing records {body[i:i + 4]}")
    # ---- flows: exact per (source position, destination position)
    req = Counter()
    inexact = 0
    for s, d, v in triples:
        if v > 0:
            req[(position(ssrc, s, dev), position(sdst, d, dev))] += F(f"{v:.2f}")
            if float(f"{v:.2f}") != v or F(m) * 100 % 1 != 0:
                inexact += steps_needed(v, m, auto_split)
    for k in set(req) | set(flows):
        if abs(req[k] - flows[k]) > F(1, 100) * inexact:
            p.append(f"flow {k}: emitted {float(flows[k])} requested {float(req[k])}")
    # ---- tracking
    exp_s = {i_: F(float(v0s[i_])) for i_ in numpy.ndindex(v0s.shape)}
    exp_d = exp_s if same else {i_: F(float(v0d[i_])) for i_ in numpy.ndindex(v0d.shape)}
    for s, d, v in triples:
        exp_s[real_index(ssrc, s)] -= F(v)
        exp_d[real_index(sdst, d)] += F(v)
    for lw, ex in ((src, exp_s), (dst, exp_d)):
        for i_, q in ex.items():
            if abs(F(float(lw.volumes[i_])) - q) > F(1, 10**6) * max(1, abs(q)):
                p.append(f"{lw.name}{i_} holds {lw.volumes[i_]!r}, expected {float(q)!r}")
                break
    return [f"{head}: " + "; ".join(p[:3])] if p else []


def run_case(c):
    try:
        return check(c)
    except Exception as e:  # noqa
        import traceback
        return [f"oracle could not interpret the outcome of {json.dumps(c)[:300]}: {type(e).__name__}: {e} {traceback.format_exc()[-300:]}"]


# ------------------------------------------------------------------ generators
def spec(kind, name, rows, cols):
    return {"kind": kind, "name": name, "rows": rows, "cols": cols}


PAIRS = {
    "pp": (spec("plate", "SRC", 4, 3), spec("plate", "DST", 4, 3)),
    "tp": (spec("trough", "SRC", 4, 3), spec("plate", "DST", 4, 3)),
    "pt": (spec("plate", "SRC", 4, 3), spec("trough", "DST", 4, 3)),
    "tt": (spec("trough", "SRC", 4, 3), spec("trough", "DST", 4, 3)),
    "vp": (spec("vtrough", "SRC", 4, 3), spec("plate", "DST", 4, 3)),
    "same": (spec("plate", "SRC", 4, 3), None),
    "sameT": (spec("trough", "SRC", 4, 3), None),
}
BASE_SETS = [
    [("A01", "C02", 10), ("B01", "A02", 20), ("C01", "B02", 30)],
    [("B01", "C02", 10), ("C01", "A02", 1200.5), ("A01", "B02", 2500)],
    [("A01", "A01", 10), ("A01", "B01", 20.25), ("A01", "C01", 30)],
    [("C01", "B03", 10), ("A01", "B03", 20), ("B01", "B03", 961)],
    [("A01", "B02", 10), ("A01", "B02", 20), ("B01", "A02", 5)],
    [("A02", "B01", 7), ("C02", "A01", 0), ("B02", "D01", 1900.01)],
    [("A01", "B02", 10), ("B02", "A03", 20), ("A02", "C01", 30.5), ("C01", "A02", 40)],
    [("D01", "A03", 950), ("B01", "D03", 950.01), ("A01", "C03", 1), ("C01", "B03", 3000)],
]


def case(dev, pair, triples, **k):
    s, d = PAIRS[pair] if isinstance(pair, str) else pair
    c = {"device": dev, "src": s, "dst": d,
         "args": {"src": [t[0] for t in triples], "dst": [t[1] for t in triples], "vol": [t[2] for t in triples]}}
    for key in ("wl", "opts"):
        if key in k:
            c[key] = k[key]
    if "mode" in k:
        c["args"]["mode"] = k["mode"]
    return c


def gen_enumerated(tier):
    # E1 every permutation of the triples x partition_by x device x labware kinds
    pairs = ["pp", "tp", "same"] if tier == "quick" else list(PAIRS)
    for bi, base in enumerate(BASE_SETS):
        for perm in itertools.permutations(range(len(base))):
            for pby in ("auto", "source", "destination"):
                for dev in DEVICES:
                    for pair in pairs:
                        yield case(dev, pair, [base[j] for j in perm], opts={"partition_by": pby})
    # E2 wash schemes / DiTi / auto_split
    base = BASE_SETS[1]
    for dev in DEVICES:
        for wash in (1, 2, 3, 4, 2.0, "flush", "reuse"):
            for diti in (False, True):
                for auto in (True, False):
                    tr = base if auto else [(s, d, min(v, 950)) for s, d, v in base] + [("D01", "D03", 0)]
                    yield case(dev, "pp", tr, wl={"max_volume": 950, "auto_split": auto, "diti_mode": diti},
                               opts={"wash_scheme": wash, "label": "wash test"})
    # E3 argument shapes, broadcasting, 2-D arguments, rejections
    shapes = [
        ("A01", ["A01", "B01", "C01"], 25), (["A01"], ["A02", "B02"], [5, 1000]), (["A01", "B01"], "C03", [5.5, 6]),
        ("A01", "B02", 7), (["B01"], ["B02"], [7]), ("A01", "B02", [3, 4, 5]), (["A01", "B01", "C01"], ["C02", "B02", "A02"], 2000),
        ([["A01", "A02"], ["B01", "B02"]], [["A01", "A02"], ["B01", "B02"]], [[1, 2], [3, 4]]),
        ([["B01", "A02"], ["A01", "B02"]], [["C03", "A01"], ["B02", "B03"]], [1, 2, 3, 4]),
        ([["A01", "A02", "A03"], ["B01", "B02", "B03"]], ["A01", "B01", "C01", "D01", "A02", "B02"], [[1, 2, 3], [4, 5, 6]]),
        ([["A01", "B01", "C01"]], [["C01"], ["B02"], ["A03"]], [[1500, 20, 30]]),
        ([["A01", "A02"], ["B01", "B02"]], "D03", [[10, 20], [30, 40]]),
        # rejected: lengths
        (["A01", "B01"], ["A01", "B01", "C01"], [1, 2, 3]), (["A01", "B01", "C01"], ["A01", "B01"], 5), (["A01", "B01"], ["A02", "B02"], [1, 2, 3]),
        ("A01", ["A01", "B01"], [1, 2, 3]), ([["A01", "A02"], ["B01", "B02"]], ["A01", "B01", "C01"], 4), ([], ["A01", "B01"], [1, 2]),
        (["A01", "B01", "C01"], ["A01", "B01", "C01"], [1, 2]),
        # rejected: negative / NaN
        ("A01", "B01", -5), (["A01", "B01"], ["A02", "B02"], [40, -15]), (["A01", "B01"], ["A02", "B02"], [-1, -2]),
        (["A01", "B01", "C01"], ["A02", "B02", "C02"], [0, -0.01, 0]), (["A01", "B01"], ["A02", "B02"], [5, "nan"]), ("A01", ["A02", "B02"], -1e-9),
        ([["A01", "A02"], ["B01", "B02"]], [["A01", "A02"], ["B01", "B02"]], [[1, 2], [3, -4]]), (["A01", "B01", "C01"], "A02", [2000, 5, -3]),
    ]
    for dev in DEVICES:
        for pair in ("pp", "tp", "same", "pt"):
            for sa, da, va in shapes:
                for mode in ("list", "np", "tuple"):
                    for auto in (True, False):
                        if not auto and mode != "list":
                            continue
                        s, d = PAIRS[pair]
                        yield {"device": dev, "src": s, "dst": d, "args": {"src": sa, "dst": da, "vol": va, "mode": mode},
                               "wl": {"max_volume": 950 if auto else 5000, "auto_split": auto}}
    # E4 pass-through keyword arguments
    kws = [{"liquid_class": "Water_DispZmax"}, {"tip": 4}, {"tip": [1, 3, 3]}, {"tip": "T8"}, {"tip": ["T2", 2, 7]}, {"tip": [4, "T4"]}, {"tip": ["T1", "T1", 5]}, {"rack_id": "R-1", "rack_type": "96 Well"},
           {"tube_id": "tube7", "forced_rack_type": "DW"}, {"liquid_class": "LC x", "tip": 8, "rack_id": "id", "rack_type": "ty", "tube_id": "tu", "forced_rack_type": "fo"}]
    for dev in DEVICES:
        for kwargs in kws:
            for pair in ("pp", "tp"):
                yield case(dev, pair, BASE_SETS[1], opts={"kwargs": kwargs, "label": "multi\n line ", "wash_scheme": 3})
    # E5 columns >= 10 and odd geometries
    geos = [(spec("plate", "SRC", 8, 12), spec("plate", "DST", 8, 12)), (spec("plate", "SRC", 2, 13), spec("trough", "DST", 8, 11)),
            (spec("plate", "SRC", 1, 12), spec("plate", "DST", 12, 1)), (spec("trough", "SRC", 1, 12), spec("plate", "DST", 16, 24)),
            (spec("plate", "SRC", 26, 2), spec("vtrough", "DST", 26, 2))]
    for dev in DEVICES:
        for gs, gd in geos:
            rng = random.Random(gs["rows"] * 100 + gs["cols"])
            for rep in range(6 if tier == "quick" else 30):
                yield rand_case(rng, dev, gs, gd)


def wells_of(s):
    return [f"{ROWS[r]}{c + 1:02d}" for c in range(s["cols"]) for r in range(s["rows"])]


def shape2d(lst, rng):
    n = len(lst)
    divs = [k for k in range(1, n + 1) if n % k == 0]
    nr = rng.choice(divs)
    nc = n // nr
    return [[lst[c * nr + r] for c in range(nc)] for r in range(nr)]


def rand_volume(rng, m, auto):
    r = rng.random()
    if not auto:
        return rng.choice([0, 0.01, m, round(rng.uniform(0, m), 2), round(rng.uniform(0, m), 1), 5, m * 2 if r < 0.03 else 1.5])
    if r < 0.15:
        return rng.choice([0, 0.01, 0.0])
    if r < 0.45:
        k = rng.choice([1, 1, 2, 2, 3, 5])
        return round(rng.choice([k * m, k * m + 0.01, k * m - 0.01, k * m + 1, k * m + m / 2]), 2)
    if r < 0.8:
        return round(rng.uniform(0.01, m), rng.choice([0, 1, 2]))
    return round(rng.uniform(m, 4 * m), rng.choice([0, 1, 2]))


def rand_case(rng, dev=None, gs=None, gd=None):
    dev = dev or rng.choice(list(DEVICES))
    if gs is None:
        kind = rng.choice(["plate", "plate", "plate", "trough", "vtrough"])
        gs = spec(kind, "SRC", rng.choice([1, 2, 3, 4, 8, 16, 26]), rng.choice([1, 2, 3, 5, 12, 13]))
        r = rng.random()
        if r < 0.25:
            gd = None
        else:
            gd = spec(rng.choice(["plate", "plate", "plate", "trough", "vtrough"]), "DST", rng.choice([1, 2, 3, 4, 8, 16, 26]), rng.choice([1, 2, 3, 5, 12, 13]))
    m = rng.choice([950, 950, 1000, 200.5, 100, 50.25, 10])
    auto = rng.random() < 0.85
    n = rng.choice([1, 2, 3, 3, 4, 4, 5, 6, 8, 12, 16])
    ws, wd = wells_of(gs), wells_of(gd or gs)
    # bias towards collisions: small pools of wells / single columns
    def pool(w, s):
        r = rng.random()
        if r < 0.35:
            return rng.sample(w, min(len(w), rng.randint(1, 3)))
        if r < 0.7:
            c = rng.randrange(s["cols"])
            cols = {c, rng.randrange(s["cols"])}
            return [x for x in w if rc(x)[1] in cols]
        return w
    ps, pd = pool(ws, gs), pool(wd, gd or gs)
    triples = []
    base_v = [rand_volume(rng, m, auto) for _ in range(n)]
    if rng.random() < 0.5:  # distinct volumes make re-pairing visible
        base_v = [round(v + 0.01 * j, 2) if v > 0 else v for j, v in enumerate(base_v)]
    for j in range(n):
        triples.append((rng.choice(ps), rng.choice(pd), base_v[j]))
    S, D, V = [t[0] for t in triples], [t[1] for t in triples], [t[2] for t in triples]
    r = rng.random()
    if r < 0.08:  # reject: length mismatch
        which = rng.choice([S, D, V])
        if len(which) > 2 and rng.random() < 0.5:
            which.pop()
        else:
            which.append(which[0])
    elif r < 0.18:  # reject: negative somewhere
        V[rng.randrange(len(V))] = rng.choice([-1, -0.01, -1e-9, "nan", -950])
    args = {}
    for name, lst in (("src", S), ("dst", D), ("vol", V)):
        q = rng.random()
        if len(set(map(str, lst))) == 1 and q < 0.5:
            args[name] = lst[0] if q < 0.3 else [lst[0]]
        elif q < 0.75:
            args[name] = shape2d(lst, rng)
        else:
            args[name] = list(lst)
    args["mode"] = rng.choice(["list", "np", "np", "tuple"])
    opts = {"wash_scheme": rng.choice([1, 2, 3, 4, "flush", "reuse", 1, 3.0]), "partition_by": rng.choice(["auto", "source", "destination"])}
    if rng.random() < 0.4:
        opts["label"] = rng.choice(["", "transfer 1", "a\nb", " padded "])
    if rng.random() < 0.4:
        opts["kwargs"] = rng.choice([{"liquid_class": "LC1"}, {"tip": rng.randint(1, 8)}, {"tip": [rng.randint(1, 8) for _ in range(rng.randint(1, 3))]},
                                     {"rack_id": "rid", "tube_id": "t"}, {"rack_type": "rt", "forced_rack_type": "f", "liquid_class": "lc"}, {"tip": "T" + str(rng.randint(1, 8))},
                                     {"tip": [rng.choice([k, f"T{k}"]) for k in [rng.randint(1, 8)] * 2]}])
    return {"device": dev, "src": gs, "dst": gd, "args": args, "opts": opts,
            "wl": {"max_volume": m, "auto_split": auto, "diti_mode": rng.random() < 0.25}}


# ------------------------------------------------------------------ driver
def main():
    if len(sys.argv) >= 3 and sys.argv[1] == "--replay":
        path = sys.argv[2] if os.path.isabs(sys.argv[2]) or os.path.exists(sys.argv[2]) else os.path.join(VERIF, sys.argv[2])
        c = json.load(open(path))["bounded_replay"]["case"]
        probs = run_case(c)
        print(f"replay {PROP} case: {json.dumps(c)}")
        for q in probs:
            print("VIOLATION", q)
        print("still fails" if probs else "passes on this tree")
        sys.exit(1 if probs else 0)
    tier = sys.argv[1] if len(sys.argv) > 1 else "quick"
    seed = int(sys.argv[2]) if len(sys.argv) > 2 else 0
    budget = 14 if tier == "quick" else 220
    t0 = time.time()
    rng = random.Random(seed)
    seen, failures, classes, samples = set(), [], Counter(), []
    counts = Counter()

    def feed(c, source):
        k = json.dumps(c, sort_keys=True)
        if k in seen:
            return
        seen.add(k)
        counts[source] += 1
        if len(samples) < 4 and len(seen) % 1013 == 7:
            samples.append(c)
        for q in run_case(c):
            cls = (c["device"], q.split(": ", 1)[-1][:18])
            classes[cls] += 1
            if classes[cls] > 2 or len(failures) >= 12:
                continue
            rel = os.path.join("replays", PROP, f"bounded_{hashlib.sha1(k.encode()).hexdigest()[:10]}.json")
            os.makedirs(os.path.join(VERIF, "replays", PROP), exist_ok=True)
            with open(os.path.join(VERIF, rel), "w") as fh:
                json.dump({"property": PROP, "bounded_replay": {"script": "c07.py", "case": c}, "what": q}, fh, indent=1)
            failures.append({"what": q[:500], "replay": rel})

    for c in gen_enumerated(tier):
        feed(c, "enumerated")
        if time.time() - t0 > budget * 0.7:
            break
    while time.time() - t0 < budget:
        feed(rand_case(rng), "random")
    out = {"evaluations": len(seen), "distinct": len(seen),
           "rule": "a case = (device, source/destination labware geometry, the three transfer arguments as passed (scalar / list / 2-D / numpy), "
                   "worklist settings, wash scheme, partition_by, label, pass-through kwargs); enumerated: all permutations of 8 base triple sets "
                   "x partition modes x devices x labware kinds, all wash schemes x DiTi x auto_split, 27 argument shapes (12 accepted, 15 to be rejected) "
                   "x 3 container types, kwargs, columns >= 10; random: collision-biased triples on random geometries; distinct = canonical JSON of the case",
           "samples": samples,
           "parts": [{"function": "EvoWorklist.transfer / FluentWorklist.transfer [enumerated]", "kind": "bounded enumeration",
                      "bound": "<= 4 triples, all permutations, 4x3 plates/troughs (+5 odd geometries up to 26 rows / 24 columns)", "evaluations": counts["enumerated"]},
                     {"function": "EvoWorklist.transfer / FluentWorklist.transfer [random]", "kind": f"bounded seeded random (seed {seed})",
                      "bound": "1-16 triples, rows <= 26, columns <= 13, volumes <= 4*max_volume, max_volume in {950,1000,200.5,100,50.25,10}", "evaluations": counts["random"]}],
           "failures": failures, "seconds": round(time.time() - t0, 1), "failure_classes": len(classes)}
    print(json.dumps(out))


if __name__ == "__main__":
    main()
