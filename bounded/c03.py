#!/usr/bin/env python
"""Bounded contract monitor for C03: a worklist never contains a rejected or oversized pipetting step, even on abort.

A case = device + worklist settings + labware set + a sequence of operations run inside `with Worklist(path) as wl:` exactly
like a user script; the last operation is usually built to be refused at a chosen sub-step (underflow / overflow at entry k,
cumulative violation through repeated wells, n x volume of a distribution, step > max_volume, invalid argument); the
exception propagates out of the `with` block, which writes the file.
Oracles (own .gwl parser / interpreter incl. the EVOware `B;Aspirate(...)` commands with own well-selection decoder, own
position<->well mapping per device, exact Fractions)
  replay    after EVERY operation and after the refused one, executing the records accumulated so far from the initial
            contents never takes a cavity below min_volume (A / R source) or above max_volume (D / R destinations); exact
            when every number is a multiple of 1/4, else 1e-9 + 0.005 per rounded record.
  step      no A/D/evo step and no R volume (nor multi_disp x volume) exceeds the worklist's max_volume.
  file      the file written by __exit__ (also on abort) holds exactly the records of the list and replays the same way.
  format    every record parses strictly.
  verdict   an independent float model of the volume checks (same sequential order for aspirate / dispense / distribute /
            evo_* / single-step transfers, order-independent criteria for multi-step transfers) predicts refuse / accept;
            a predicted refusal that is accepted (e.g. one ulp beyond a limit, negative / NaN volume, invalid field) or a
            predicted acceptance that is refused is reported; an oversized step alone must raise InvalidOperationError.
Cases: enumerations (refusal at every entry k of 1..4 entries x aspirate/dispense/transfer x distinct/repeated wells x plate/
trough; limit-ulp / limit / limit+ulp for every limit kind; distributions refused by the source (n x v) or by the j-th
destination) + seeded random histories (0-4 successful operations, then a fault of a random kind).
"""
import hashlib
import json
import logging
import math
import os
import random
import re
import shutil
import sys
import tempfile
import time
import warnings
from fractions import Fraction as F

REPO = os.environ.get("PYVC_REPO", "/repo")
sys.path.insert(0, REPO)
VERIF = os.path.dirname(os.path.dirname(os.path.abspath(__file__)))
PROP = "C03"

import numpy as np  # noqa: E402
import robotools  # noqa: E402

assert os.path.realpath(robotools.__file__).startswith(os.path.realpath(REPO) + os.sep), robotools.__file__
logging.disable(logging.CRITICAL)
warnings.simplefilter("ignore")
DEVICES = {"evo": robotools.EvoWorklist, "fluent": robotools.FluentWorklist}
ROWS = "ABCDEFGHIJKLMNOPQRSTUVWXYZ"
TMP = None


class Bad(Exception):
    """a record that the interpreter cannot execute"""


# ------------------------------------------------------------------ independent model: wells, numbering, records
def wid(r, c):
    return f"{ROWS[r]}{c + 1:02d}"


def num(x):
    """numbers travel through JSON; 'nan' / 'inf' are written as strings"""
    if isinstance(x, list):
        return [num(y) for y in x]
    return float(x) if isinstance(x, str) else x


def flatF(x):
    if not isinstance(x, list):
        return [x]
    if x and isinstance(x[0], list):
        return [x[i][j] for j in range(len(x[0])) for i in range(len(x))]
    return list(x)


class Lw:
    """independent model of one labware: cavities with a volume (exact Fractions for the replay, floats for the verdict model)"""

    def __init__(self, spec, device, kind=F):
        self.name, self.trough, self.R, self.C = spec["name"], spec["trough"], spec["rows"], spec["cols"]
        self.flu_tr = self.trough and device == "fluent"
        self.lo, self.hi = float(num(spec["min"])), float(num(spec["max"]))
        self.n = self.C if self.trough else self.R * self.C
        self.vol = [kind(spec["init"][k] if self.trough else spec["init"][k // self.C][k % self.C]) for k in range(self.n)]
        self.touch = [0] * self.n

    def has(self, w):
        return isinstance(w, str) and re.fullmatch(r"[A-Z]\d\d", w) is not None and ROWS.index(w[0]) < self.R and 1 <= int(w[1:]) <= self.C

    def cav(self, w):
        r, c = ROWS.index(w[0]), int(w[1:]) - 1
        return c if self.trough else r * self.C + c

    def pos(self, w):
        r, c = ROWS.index(w[0]), int(w[1:]) - 1
        return 1 + c if self.flu_tr else 1 + c * self.R + r

    def cav_at(self, p):
        if p < 1:
            raise Bad(f"position {p} < 1 on {self.name}")
        c, r = (p - 1, 0) if self.flu_tr else divmod(p - 1, self.R)
        if c >= self.C:
            raise Bad(f"position {p} outside {self.name} ({self.R}x{self.C})")
        return c if self.trough else r * self.C + c

    def wname(self, k):
        return wid(0, k) if self.trough else wid(*divmod(k, self.C))


NUM = re.compile(r"^\d+(\.\d*)?([eE][-+]?\d+)?$")
EVO = re.compile(r'^B;(Aspirate|Dispense)\((\d+),"([^"]*)",(.+),(\d+),(\d+),1,"([^"]*)",0,([01])\);$')


def parse(rec):
    if not isinstance(rec, str) or "\n" in rec or "\r" in rec:
        raise Bad(f"not a single-line record: {rec!r}")
    f = rec.split(";")
    k = f[0]
    if k in ("A", "D"):
        if len(f) != 11 or not re.fullmatch(r"\d+", f[4]) or not re.fullmatch(r"\d+\.\d\d", f[6]) or f[8] != "" \
                or not re.fullmatch(r"\d*", f[9]):
            raise Bad(f"malformed {k} record: {rec!r}")
        return (k, f[1], int(f[4]), F(f[6]))
    if k == "R":
        if len(f) < 16 or any(not re.fullmatch(r"\d+", f[i]) for i in (4, 5, 9, 10, 13, 14, 15)) or not NUM.match(f[11]) \
                or any(not re.fullmatch(r"\d+", x) for x in f[16:]) or f[15] not in ("0", "1"):
            raise Bad(f"malformed R record: {rec!r}")
        return ("R", dict(src=f[1], s0=int(f[4]), s1=int(f[5]), dst=f[6], d0=int(f[9]), d1=int(f[10]), vol=F(float(f[11])),
                          multi=int(f[14]), excl=[int(x) for x in f[16:]]))
    if rec in ("W;", "W1;", "W2;", "W3;", "W4;", "WD;", "F;", "B;"):
        return ("-",)
    if (k == "S" and len(f) == 2 and re.fullmatch(r"\d+", f[1])) or (k == "C" and len(f) == 2):
        return ("-",)
    m = EVO.match(rec)
    if m:
        parts = m.group(4).split(",")
        if len(parts) != 12 or parts[8:] != ["0"] * 4 or any(not (p == "0" or re.fullmatch(r'"\d+(\.\d+)?"', p)) for p in parts[:8]):
            raise Bad(f"malformed EVOware command: {rec!r}")
        sel = m.group(7)
        if len(sel) < 4 or not re.fullmatch(r"[0-9A-F]{4}", sel[:4]):
            raise Bad(f"malformed well selection: {rec!r}")
        cols, rows = int(sel[:2], 16), int(sel[2:4], 16)
        bits = []
        for ch in sel[4:]:
            x = ord(ch) - 48
            if not 0 <= x < 128:
                raise Bad(f"malformed well selection: {rec!r}")
            bits += [x >> b & 1 for b in range(7)]
        if len(sel) - 4 != -(-rows * cols // 7) or any(bits[rows * cols:]):
            raise Bad(f"well selection does not fit {rows}x{cols}: {rec!r}")
        wells = [(i % rows, i // rows) for i, b in enumerate(bits) if b]
        mask = int(m.group(2))
        vols = [F(float(parts[t][1:-1])) for t in range(8) if mask >> t & 1 and parts[t] != "0"]
        if len(vols) != bin(mask).count("1") or mask >= 256 or len(vols) != len(wells):
            raise Bad(f"tips, volumes and wells of the EVOware command do not pair up: {rec!r}")
        return ("E", m.group(1)[0], (int(m.group(5)), int(m.group(6))), rows, cols, wells, vols)
    raise Bad(f"unknown / malformed record: {rec!r}")


class Sim:
    """executes records on the model and notes every limit violation"""

    def __init__(self, specs, device, wmax, sites):
        self.lw = {s["name"]: Lw(s, device) for s in specs}
        self.wmax, self.sites, self.viol = wmax, sites, []

    def rack(self, name):
        if name not in self.lw:
            raise Bad(f"record addresses unknown rack {name!r}")
        return self.lw[name]

    def move(self, m, k, dv, off, exact, rec):
        m.vol[k] += dv
        m.touch[k] += off
        tol = 0 if exact else F(1, 10 ** 9) + F(5, 1000) * m.touch[k]
        if dv < 0 and not m.vol[k] >= m.lo - tol:
            self.viol.append(f"record {rec!r} takes {m.name}.{m.wname(k)} to {float(m.vol[k])} < min_volume {m.lo}")
        if dv > 0 and not m.vol[k] <= m.hi + tol:
            self.viol.append(f"record {rec!r} takes {m.name}.{m.wname(k)} to {float(m.vol[k])} > max_volume {m.hi}")

    def step(self, rec, off, exact):
        p = parse(rec)
        big = lambda v: not v <= F(self.wmax) + (0 if exact else F(1, 10 ** 9)) + (F(5, 1000) if off else 0)  # noqa: E731
        if p[0] in ("A", "D"):
            m = self.rack(p[1])
            if big(p[3]):
                self.viol.append(f"record {rec!r} is a step above max_volume {self.wmax}")
            self.move(m, m.cav_at(p[2]), -p[3] if p[0] == "A" else p[3], off, exact, rec)
        elif p[0] == "R":
            r = p[1]
            if r["d0"] > r["d1"] or any(not r["d0"] <= x <= r["d1"] for x in r["excl"]):
                raise Bad(f"R record with an invalid destination range: {rec!r}")
            targets = [x for x in range(r["d0"], r["d1"] + 1) if x not in r["excl"]]
            if big(r["vol"]) or float(r["multi"] * r["vol"]) > self.wmax * (1 + 1e-12):
                self.viol.append(f"record {rec!r} dispenses {float(r['vol'])} x {r['multi']} per aspiration, above max_volume {self.wmax}")
            m, d = self.rack(r["src"]), self.rack(r["dst"])
            # the Fluent source range is the known finding of C01 (EVO-style numbers): decode it EVO-style on both devices,
            # and accept the Fluent-style single number 1 + column as well
            cavs = {(x - 1) // m.R for x in range(r["s0"], r["s1"] + 1)}
            if m.flu_tr and r["s0"] == r["s1"] and m.R > 1:
                cavs = {r["s0"] - 1}
            if len(cavs) != 1 or not m.trough or max(cavs) >= m.C:
                raise Bad(f"R source range is not one trough column: {rec!r}")
            self.move(m, cavs.pop(), -r["vol"] * len(targets), False, exact, rec)
            for x in targets:
                self.move(d, d.cav_at(x), r["vol"], False, exact, rec)
        elif p[0] == "E":
            _, kind, site, rows, cols, wells, vols = p
            if site not in self.sites:
                raise Bad(f"EVOware command addresses unknown grid/site {site}: {rec!r}")
            m = self.lw[self.sites[site]]
            if (rows, cols) != (m.R, m.C):
                raise Bad(f"well selection is for {rows}x{cols}, labware {m.name} is {m.R}x{m.C}: {rec!r}")
            for (r, c), v in zip(wells, vols):
                if big(v):
                    self.viol.append(f"record {rec!r} is a step above max_volume {self.wmax}")
                self.move(m, c if m.trough else r * m.C + c, -v if kind == "A" else v, off, exact, rec)


# ------------------------------------------------------------------ the verdict model (float twin of the volume checks)
def isdy(x):
    try:
        x = F(x)
    except (ValueError, OverflowError, TypeError):
        return False
    return x.denominator in (1, 2, 4) and abs(x) < 2 ** 40


def oncenti(v):
    return isinstance(v, (int, float)) and v == v and abs(v) < 1e12 and abs(v * 100 - round(v * 100)) < 1e-9


def volnum(v):
    return isinstance(v, (int, float)) and not isinstance(v, bool) and v == v and v >= 0


def bad_text(x, maxlen=None):
    return not isinstance(x, str) or ";" in x or (maxlen is not None and len(x) > maxlen)


def bad_tip(t):
    one = lambda e: isinstance(e, int) and not isinstance(e, bool) and 1 <= e <= 8  # noqa: E731
    return not (one(t) or (isinstance(t, list) and all(one(e) for e in t)))


def bad_kw(kw):
    """invalid keyword arguments of an aspirate/dispense record"""
    known = {"liquid_class", "tip", "rack_id", "tube_id", "rack_type", "forced_rack_type"}
    return bool(set(kw) - known) or bad_text(kw.get("liquid_class", "")) or ("tip" in kw and bad_tip(kw["tip"])) \
        or bad_text(kw.get("rack_id", ""), 32) or bad_text(kw.get("tube_id", "")) or bad_text(kw.get("rack_type", ""), 32) \
        or bad_text(kw.get("forced_rack_type", ""), 32)


def bad_dkw(kw):
    known = {"liquid_class", "direction", "src_rack_id", "src_rack_type", "dst_rack_id", "dst_rack_type", "diti_reuse", "multi_disp"}
    return bool(set(kw) - known) or bad_text(kw.get("liquid_class", "")) or kw.get("direction", "left_to_right") not in ("left_to_right", "right_to_left") \
        or any(bad_text(kw.get(k, ""), 32) for k in ("src_rack_id", "src_rack_type", "dst_rack_id", "dst_rack_type"))


REJ, ACC, UNK = "refuse", "accept", "unknown"


def predict(op, tw, specs, wl, st):
    """-> (verdict, why, name of the exception class that must be raised or None); tw: float twins, st['fuzzy']: the twin is
    only known up to round-off (after a multi-step transfer with non-dyadic numbers)"""
    t = op["op"]
    wmax = wl["max_volume"]
    eps = 1e-6 if st["fuzzy"] else 0.0
    name = lambda i: specs[i]["name"]  # noqa: E731
    label_bad = ";" in (op.get("label") or "")
    kw = op.get("kw") or {}
    if t in ("aspirate", "dispense", "evo_aspirate", "evo_dispense"):
        L = tw[name(op["lw"])]
        out = t.endswith("aspirate")
        wells, vols = flatF(op["wells"]), flatF(num(op["vols"]))
        if len(vols) == 1:
            vols = vols * len(wells)
        if len(vols) != len(wells):
            return REJ, "numbers of wells and volumes differ", None
        if not all(L.has(w) for w in wells) or not all(volnum(v) for v in vols):
            return REJ, "unknown well or negative / NaN volume", None
        cur, unk = {}, False
        for j, (w, v) in enumerate(zip(wells, vols)):
            k = L.cav(w)
            new = cur.get(k, L.vol[k]) - v if out else cur.get(k, L.vol[k]) + v
            if (new < L.lo - eps) if out else (new > L.hi + eps):
                return REJ, f"entry {j} ({w}, {v}) takes the well to {new}", None if unk else ("VolumeUnderflowError" if out else "VolumeOverflowError")
            unk = unk or ((new < L.lo + eps) if out else (new > L.hi - eps))
            cur[k] = new
        if unk:
            return UNK, "within round-off of a limit", None
        if label_bad:
            return REJ, "semicolon in label", None
        if t.startswith("evo"):
            tips, raw = op["tips"], num(op["vols"])
            cols = {w[1:] for w in wells}
            if not isinstance(raw, list):
                raw = [raw] * len(wells)
            ok = len(tips) == len(wells) == len(raw) and not bad_tip(list(tips)) and list(tips) == sorted(set(tips)) and wells == sorted(set(wells)) \
                and len(cols) == 1 and not bad_text(op.get("lc", "")) and len(wells) > 0
            if not ok:
                return REJ, "wells / tips / volumes are not a valid EVOware selection", None
            if any(v > wmax for v in raw):
                return REJ, "step above max_volume", "InvalidOperationError"
            return ACC, "", None
        nz = [v for v in vols if v > 0]
        if nz and (bad_text(L.name, 32) or bad_kw(kw) or any(v > 7158278 for v in nz)):
            return REJ, "invalid record field", None
        if any(v > wmax for v in nz):
            return REJ, "step above max_volume", "InvalidOperationError"
        return ACC, "", None
    if t == "transfer":
        s, d = tw[name(op["src"])], tw[name(op["dst"])]
        sw, dw, vols = flatF(op["sw"]), flatF(op["dw"]), flatF(num(op["vols"]))
        n = max(len(sw), len(dw), len(vols))
        sw, dw, vols = [x * n if len(x) == 1 else x for x in (sw, dw, vols)]
        if not len(sw) == len(dw) == len(vols):
            return REJ, "numbers of wells and volumes differ", None
        if not all(volnum(v) for v in vols) or op.get("pb", "auto") not in ("auto", "source", "destination") or label_bad:
            return REJ, "negative / NaN volume, invalid partition_by or label", None
        pairs = [(a, b, v) for a, b, v in zip(sw, dw, vols) if v > 0]
        if not pairs:
            return ACC, "nothing to pipette", None
        wash = op.get("wash", 1)
        wash_bad = not (wash is None or wash in ("flush", "reuse") or (isinstance(wash, (int, float)) and wash in (1, 2, 3, 4)))
        if any(not s.has(a) or not d.has(b) for a, b, _ in pairs) or bad_kw(kw) or bad_text(s.name, 32) or bad_text(d.name, 32):
            return REJ, "unknown well or invalid record field", None
        if wash_bad and not wl.get("diti_mode"):
            return REJ, "invalid wash scheme", None
        split = wl["auto_split"]
        over = [v for _, _, v in pairs if v > wmax]
        exact = not st["fuzzy"] and isdy(wmax) and all(isdy(v) for _, _, v in pairs) and all(isdy(x) for x in s.vol + d.vol + [s.lo, s.hi, d.lo, d.hi])
        e2 = 0.0 if exact else 1e-6
        tot = {}
        for a, b, v in pairs:
            ka, kb = (s.name, s.cav(a)), (d.name, d.cav(b))
            tot.setdefault(ka, [0.0, 0.0])[0] += v
            tot.setdefault(kb, [0.0, 0.0])[1] += v
        robust, dead = True, None
        for (nm, k), (o, i) in tot.items():
            L = tw[nm]
            if (o > 0 and L.vol[k] + i - o < L.lo - e2) or (i > 0 and L.vol[k] + i - o > L.hi + e2):
                dead = f"{nm}.{L.wname(k)} would end at {L.vol[k] + i - o}"
            if L.vol[k] - o < L.lo + e2 or L.vol[k] + i > L.hi - e2:
                robust = False
        if dead:
            return REJ, dead, None
        if over and not split:
            return REJ, "step above max_volume without auto_split", "InvalidOperationError" if robust else None
        if wash_bad:
            return UNK, "wash scheme is not validated with DiTis", None
        if split and not isdy(wmax):
            for _, _, v in pairs:
                q = F(v) / F(wmax)
                if round(q) >= 2 and abs(q - round(q)) <= F(1, 10 ** 9) * q:
                    return UNK, "round-off zone of k x max_volume (see C06)", None
        if robust:
            return ACC, "", None
        if len(pairs) == 1 and not over:
            (a, b, v), = pairs
            ka, kb = s.cav(a), d.cav(b)
            new = s.vol[ka] - v
            if new < s.lo - eps:
                return REJ, f"source well would go to {new}", "VolumeUnderflowError"
            new2 = (new if (s is d and ka == kb) else d.vol[kb]) + v
            if new2 > d.hi + eps:
                return REJ, f"destination well would go to {new2}", "VolumeOverflowError"
            if eps == 0.0 or (new >= s.lo + eps and new2 <= d.hi - eps):
                return ACC, "", None
        return UNK, "depends on the execution order / round-off", None
    if t == "distribute":
        s, d = tw[name(op["src"])], tw[name(op["dst"])]
        v, col, dw = num(op["vol"]), op["col"], flatF(op["dw"])
        if not s.trough:
            return REJ, "source is not a trough", None
        if not isinstance(v, (int, float)) or v != v or v < 0 or v > wmax:
            return REJ, "negative / NaN volume or volume above max_volume", "InvalidOperationError" if volnum(v) else None
        if col < 0:
            return UNK, "negative column index", None
        if col >= s.C or not dw or not all(d.has(w) for w in dw):
            return REJ, "unknown column or well", None
        new = s.vol[col] - v * len(dw)
        if new < s.lo - eps:
            return REJ, f"trough column would go to {new}", "VolumeUnderflowError"
        unk = new < s.lo + eps
        cur = {col: new} if s is d else {}
        for j, w in enumerate(dw):
            k = d.cav(w)
            nw = cur.get(k, d.vol[k]) + v
            if nw > d.hi + eps:
                return REJ, f"destination {j} ({w}) would go to {nw}", None if unk else "VolumeOverflowError"
            unk = unk or nw > d.hi - eps
            cur[k] = nw
        if unk:
            return UNK, "within round-off of a limit", None
        if label_bad or bad_dkw(kw) or bad_text(s.name, 32) or bad_text(d.name, 32):
            return REJ, "invalid record field", None
        return ACC, "", None
    if t == "wash":
        return (ACC if (wl.get("diti_mode") or op["scheme"] in (1, 2, 3, 4)) else REJ), "wash scheme", None
    if t == "decontaminate":
        return (REJ if wl.get("diti_mode") else ACC), "", None
    if t == "comment":
        return (REJ if ";" in (op.get("text") or "") else ACC), "", None
    return ACC, "", None


def apply_twin(op, tw, specs, st):
    """update the float twin after an accepted operation (same order of float operations as a sequential execution)"""
    t = op["op"]
    name = lambda i: specs[i]["name"]  # noqa: E731
    if t in ("aspirate", "dispense", "evo_aspirate", "evo_dispense"):
        L = tw[name(op["lw"])]
        wells, vols = flatF(op["wells"]), flatF(num(op["vols"]))
        vols = vols * len(wells) if len(vols) == 1 else vols
        for w, v in zip(wells, vols):
            L.vol[L.cav(w)] = L.vol[L.cav(w)] - v if t.endswith("aspirate") else L.vol[L.cav(w)] + v
    elif t == "transfer":
        s, d = tw[name(op["src"])], tw[name(op["dst"])]
        sw, dw, vols = flatF(op["sw"]), flatF(op["dw"]), flatF(num(op["vols"]))
        n = max(len(sw), len(dw), len(vols))
        sw, dw, vols = [x * n if len(x) == 1 else x for x in (sw, dw, vols)]
        pairs = [(a, b, v) for a, b, v in zip(sw, dw, vols) if v > 0]
        for a, b, v in pairs:
            s.vol[s.cav(a)] = s.vol[s.cav(a)] - v
            d.vol[d.cav(b)] = d.vol[d.cav(b)] + v
        if len(pairs) > 1 or any(v > op["_wmax"] for _, _, v in pairs):
            st["fuzzy"] = st["fuzzy"] or not all(isdy(x) for x in [v for _, _, v in pairs] + s.vol + d.vol + [op["_wmax"]])
    elif t == "distribute":
        s, d = tw[name(op["src"])], tw[name(op["dst"])]
        v, dw = num(op["vol"]), flatF(op["dw"])
        s.vol[op["col"]] = s.vol[op["col"]] - v * len(dw)
        for w in dw:
            d.vol[d.cav(w)] = d.vol[d.cav(w)] + v


# ------------------------------------------------------------------ running the real thing
def build(spec):
    lo, hi = num(spec["min"]), num(spec["max"])
    if spec["trough"]:
        return robotools.Trough(spec["name"], spec["rows"], spec["cols"], min_volume=lo, max_volume=hi, initial_volumes=list(spec["init"]))
    return robotools.Labware(spec["name"], spec["rows"], spec["cols"], min_volume=lo, max_volume=hi, initial_volumes=np.array(spec["init"], dtype=float))


def site_of(i):
    return (10 + i, 1 + i)


def run_op(wl, labs, op):
    t = op["op"]
    A = (lambda x: np.array(x) if isinstance(x, list) else x) if op.get("np") else (lambda x: x)  # noqa: E731
    kw = dict(op.get("kw") or {})
    if t == "aspirate":
        wl.aspirate(labs[op["lw"]], A(op["wells"]), A(num(op["vols"])), label=op.get("label"), **kw)
    elif t == "dispense":
        wl.dispense(labs[op["lw"]], A(op["wells"]), A(num(op["vols"])), label=op.get("label"), **kw)
    elif t in ("evo_aspirate", "evo_dispense"):
        getattr(wl, t)(labs[op["lw"]], op["wells"], site_of(op["lw"]), list(op["tips"]), num(op["vols"]), op.get("lc", ""), label=op.get("label"))
    elif t == "transfer":
        wl.transfer(labs[op["src"]], A(op["sw"]), labs[op["dst"]], A(op["dw"]), A(num(op["vols"])), label=op.get("label"),
                    wash_scheme=op.get("wash", 1), partition_by=op.get("pb", "auto"), **kw)
    elif t == "distribute":
        wl.distribute(labs[op["src"]], op["col"], labs[op["dst"]], A(op["dw"]), volume=num(op["vol"]), label=op.get("label") or "", **kw)
    elif t == "wash":
        wl.wash(op["scheme"])
    elif t == "flush":
        wl.flush()
    elif t == "commit":
        wl.commit()
    elif t == "comment":
        wl.comment(op["text"])
    elif t == "decontaminate":
        wl.decontaminate()
    else:
        raise AssertionError(t)


def op_numbers(op):
    return [x for x in flatF(num(op.get("vols", op.get("vol", 0)))) if isinstance(x, (int, float))]


def check_case(case):
    """-> (failures, number of accepted operations, number of records, how the run ended)"""
    global TMP
    device, wlc, specs = case["device"], case["wl"], case["labwares"]
    try:
        labs = [build(s) for s in specs]
    except Exception as e:  # noqa
        return [], 0, 0, f"labware configuration refused: {type(e).__name__}"
    if TMP is None:
        TMP = tempfile.mkdtemp(prefix="c03_")
    path = os.path.join(TMP, "w.gwl")
    if os.path.exists(path):
        os.unlink(path)
    wmax = wlc["max_volume"]
    sites = {(g, s - 1): specs[i]["name"] for i in range(len(specs)) for g, s in [site_of(i)]}
    sim = Sim(specs, device, wmax, sites)
    tw = {s["name"]: Lw(s, device, kind=float) for s in specs}
    st = {"fuzzy": False}
    numbers = [wmax] + [x for sp in specs for x in [num(sp["min"]), num(sp["max"])] + flatF(sp["init"])]
    exact, fails, nok, ended, wl, done = all(isdy(x) for x in numbers), [], 0, "completed", None, 0
    try:
        with DEVICES[device](path, max_volume=wmax, auto_split=wlc["auto_split"], diti_mode=wlc.get("diti_mode", False)) as wl:
            for i, op in enumerate(case["ops"]):
                op = dict(op, _wmax=wmax)
                verdict, why, exc = predict(op, tw, specs, wlc, st)
                nums = op_numbers(op)
                exact = exact and all(isdy(x) for x in nums)
                off = not all(oncenti(x) for x in nums) or (op["op"] == "transfer" and wlc["auto_split"] and not oncenti(wmax))
                raised = None
                try:
                    run_op(wl, labs, op)
                except Exception as e:  # noqa
                    raised = e
                try:
                    for rec in list(wl)[done:]:
                        sim.step(rec, off, exact)
                    done = len(wl)
                except Bad as e:
                    fails.append(f"op {i} ({op['op']}): {e}")
                fails += [f"op {i} ({op['op']}{', refused' if raised is not None else ''}): {v}" for v in sim.viol]
                sim.viol = []
                if raised is None and verdict == REJ:
                    fails.append(f"op {i} ({op['op']}) must be refused ({why}) but was accepted")
                if raised is not None and verdict == ACC:
                    fails.append(f"op {i} ({op['op']}) is valid and within all limits but was refused: {type(raised).__name__}: {raised}")
                if raised is not None and verdict == REJ and exc and type(raised).__name__ != exc:
                    fails.append(f"op {i} ({op['op']}) must raise {exc} ({why}) but raised {type(raised).__name__}: {raised}")
                if raised is not None:
                    ended = f"op {i} refused: {type(raised).__name__}"
                    raise raised
                if fails:
                    ended = "stopped at first finding"
                    break
                nok += 1
                apply_twin(op, tw, specs, st)
    except Exception as e:  # noqa
        if not ended.startswith("op "):
            raise
    # the file written when the with block was left
    if not os.path.exists(path):
        fails.append("no file was written when the with block was left")
    else:
        with open(path, "rb") as fh:
            text = fh.read().decode("latin_1")
        lines = text.split("\r\n") if text else []
        if lines != list(wl):
            fails.append(f"file content differs from the worklist: {lines[-3:]} vs {list(wl)[-3:]}")
        elif done != len(wl):
            fails.append("records appeared after the last inspected operation")
        os.unlink(path)
    return fails, nok, len(wl), ended


# ------------------------------------------------------------------ generators
NAMES = ["P", "P2", "T", "Tr", "plate A", "src.1", "dst", "A", "Stock_1"]
LABELS = [None, None, None, "step", " two\nlines ", "x"]
KW = [{}, {}, {}, {"liquid_class": "Water_DispZmax"}, {"tip": 3}, {"tip": [1, 2]}, {"rack_id": "bc01", "rack_type": "96 Well"},
      {"tube_id": "t7", "forced_rack_type": "frt", "liquid_class": "LC 1"}]
BADKW = [{"liquid_class": "a;b"}, {"tube_id": "x;y"}, {"rack_id": "r" * 33}, {"tip": 0}, {"tip": 9}, {"tip": [1, 12]}, {"rack_type": "t;"},
         {"forced_rack_type": "f" * 33}, {"liquid_class": 5}]
BADDKW = [{"liquid_class": "a;b"}, {"direction": "up"}, {"src_rack_id": "r" * 33}, {"dst_rack_type": "a;b"}, {"dst_rack_id": "x" * 40}]
WMAX = {"dyadic": [950, 950, 100, 50.5, 7.25, 1000.0], "centi": [950, 99.99, 10.1, 200.7], "off": [950, 7.256, 100 / 3, 33.3]}


def gridval(rng, grid, lo, hi):
    lo, hi = F(lo), F(hi)
    if hi < lo:
        return None
    q = {"dyadic": 4, "centi": 100}.get(grid)
    if q:
        a, b = math.ceil(lo * q), math.floor(hi * q)
        if b < a:
            return None
        return rng.choice([a, b, b] + [rng.randint(a, b) for _ in range(5)] + [rng.randint(a, min(b, a + 40 * q)) for _ in range(2)]) / q
    x = float(lo) + rng.random() * float(hi - lo)
    x = rng.choice([x, x, x, round(x, 3), round(x, 3), round(x, 1), float(hi), float(lo), math.nextafter(float(hi), 0.0)])
    return x if lo <= F(x) <= hi else None


def beyond(rng, grid, x):
    """a volume that is more than x: one ulp, one grid step, a lot"""
    x = float(x)
    step = {"dyadic": 0.25, "centi": 0.01}.get(grid, 0.004)
    return max(0.0, rng.choice([math.nextafter(x, math.inf), math.nextafter(x, math.inf), x + step, x + step, x + 1, 2 * x + 10, x + 1000]))


def shape(rng, flat, allow_scalar=True):
    n = len(flat)
    if len(set(map(str, flat))) == 1 and allow_scalar and rng.random() < 0.5:
        return rng.choice([flat[0], [flat[0]], [[flat[0]]]])
    if n > 1 and rng.random() < 0.35:
        a = rng.choice([a for a in range(1, n + 1) if n % a == 0])
        return [[flat[j * a + i] for j in range(n // a)] for i in range(a)]
    return list(flat)


def gen_labwares(rng, grid, wmax):
    specs = []
    names = rng.sample(NAMES, rng.choice([1, 2, 2, 2, 3]))
    for idx, name in enumerate(names):
        trough = rng.random() < 0.4
        if trough:
            R, C = rng.choice([1, 2, 3, 4, 8, 16, rng.randint(1, 16)]), rng.choice([1, 1, 2, 3, 4])
        else:
            R, C = rng.choice([(1, 1), (1, 3), (2, 1), (3, 1), (2, 2), (2, 2), (3, 2), (3, 2), (2, 3), (4, 3), (3, 4), (5, 2), (16, 1), (8, 12),
                               (1, 24), (rng.randint(1, 16), rng.randint(1, 24))])
        scale = rng.choice([0.5, 2, 2, 10, 40])
        vmax = gridval(rng, grid, scale * wmax, scale * wmax * 1.05) or float(math.ceil(scale * wmax)) + 1
        vmin = rng.choice([0, 0, gridval(rng, grid, 0, F(vmax) / 10) or 0, gridval(rng, grid, 0, F(vmax) / 10) or 0])

        def cell():
            u = rng.random()
            if u < 0.25:
                return rng.choice([0, vmin, vmax])
            return (gridval(rng, grid, vmin, vmax) if u < 0.65 else gridval(rng, grid, F(vmax) / 4, F(vmax) * F(3, 4))) or 0
        init = [cell() for _ in range(C)] if trough else [[cell() for _ in range(C)] for _ in range(R)]
        specs.append(dict(name=name, trough=trough, rows=R, cols=C, min=vmin, max=vmax, init=init))
    if rng.random() < 0.02:
        rng.choice(specs)[rng.choice(["min", "max"])] = "nan"
    if rng.random() < 0.03:
        rng.choice(specs)["name"] = rng.choice(["n" * 33, "se;mi"])      # a rack label no record can carry
    return specs


def pick_wells(rng, m, n, want=None):
    allw = [wid(r, c) for c in range(m.C) for r in range(m.R)]
    if want and rng.random() < 0.85:
        allw = [w for w in allw if (m.vol[m.cav(w)] > m.lo if want == "out" else m.vol[m.cav(w)] < m.hi)] or allw
    pool = rng.sample(allw, min(len(allw), rng.choice([1, 2, 3, 4, 6])))
    return [rng.choice(pool) for _ in range(n)]


def gen_op(rng, grid, device, wl, specs, ms, fault=None):
    """a valid operation that fits the model state `ms` (list of Lw with exact volumes); with `fault` the volumes are
    chosen so that a chosen entry / the sum violates a limit"""
    margin = 0 if grid == "dyadic" else F(2, 100)
    wmax = F(wl["max_volume"])
    troughs = [i for i, m in enumerate(ms) if m.trough]
    kinds = ["transfer"] * 6 + ["aspirate"] * 4 + ["dispense"] * 4 + ["distribute"] * (5 if troughs else 0) + (["evo"] * 2 if device == "evo" else [])
    t = rng.choice(kinds + (["misc"] * 2 if not fault else []))
    kfail = None
    if t in ("aspirate", "dispense", "evo"):
        i = rng.randrange(len(ms))
        m = ms[i]
        out = t == "aspirate" or (t == "evo" and rng.random() < 0.5)
        n = rng.choice([1, 1, 2, 3, 4, 6])
        wells = pick_wells(rng, m, n, want="out" if out else "in")
        if t == "evo":
            c = rng.randrange(m.C)
            wells = sorted(rng.sample([wid(r, c) for r in range(m.R)], min(m.R, rng.choice([1, 2, 3, 8]))))
        k0 = None
        if fault == "cumulative" and t != "evo":
            # several entries on ONE cavity (repeated id / aliasing virtual rows), each allowed alone, together too much
            room0 = lambda w: (m.vol[m.cav(w)] - m.lo if out else m.hi - m.vol[m.cav(w)])  # noqa: E731
            w0 = min(rng.sample(wells, min(3, len(wells))), key=lambda w: (room0(w) <= 0, room0(w)))
            k0, R0 = m.cav(w0), room0(w0)
            cnt = min(8, max(2, int(R0 // wmax) + 1, rng.choice([2, 2, 3, 4])))
            wells = [wid(rng.randrange(m.R), m.cav(w0)) if m.trough else w0 for _ in range(cnt)]
            if rng.random() < 0.4:
                wells.insert(rng.randrange(cnt), rng.choice(pick_wells(rng, m, 1)))
        kfail = rng.randrange(len(wells)) if fault in ("limit", "oversize") else None
        used, vols = {}, []
        for j, w in enumerate(wells):
            k = m.cav(w)
            room = (m.vol[k] - m.lo if out else m.hi - m.vol[k]) - used.get(k, 0) - margin
            v = gridval(rng, grid, 0, min(room, wmax)) if rng.random() < 0.9 else 0.0
            if k == k0:
                v = gridval(rng, grid, max(0, R0 / cnt), min(R0, wmax))
                if j == max(i_ for i_, w_ in enumerate(wells) if m.cav(w_) == k0) and used.get(k, 0) + F(v or 0) <= R0:
                    bump = beyond(rng, grid, max(R0 - used.get(k, 0), 0))      # the last entry tips the sum over the limit
                    v = bump if F(bump) <= min(R0, wmax) else v
            if j == kfail:
                v = beyond(rng, grid, max(room + margin, 0)) if fault == "limit" else beyond(rng, grid, wmax)
            v = v or 0.0
            vols.append(v)
            used[k] = used.get(k, 0) + F(v)
        if t == "evo":
            tips = sorted(rng.sample(range(1, 9), len(wells)))
            return dict(op="evo_aspirate" if out else "evo_dispense", lw=i, wells=wells if len(wells) > 1 or rng.random() < 0.5 else wells[0],
                        vols=vols if rng.random() < 0.8 or len(set(vols)) > 1 else vols[0], tips=tips, lc=rng.choice(["", "Water"]), label=rng.choice(LABELS))
        return dict(op=t, lw=i, wells=shape(rng, wells, allow_scalar=len(wells) == 1), vols=shape(rng, vols), label=rng.choice(LABELS),
                    kw=rng.choice(KW), np=rng.random() < 0.4)
    if t == "transfer":
        si = rng.randrange(len(ms))
        di = si if (rng.random() < 0.35 or len(ms) == 1) else rng.choice([j for j in range(len(ms)) if j != si])
        s, d = ms[si], ms[di]
        n = rng.choice([1, 1, 1, 2, 2, 3, 4, 5])
        mode = rng.choice(["pairs", "pairs", "one2many", "many2one"])
        sw, dw = pick_wells(rng, s, n, want="out"), pick_wells(rng, d, n, want="in")
        side = rng.choice(["src", "dst"])
        if fault == "cumulative":
            n = rng.choice([2, 3, 4])
            sw, dw = pick_wells(rng, s, n, want="out"), pick_wells(rng, d, n, want="in")
            mode = "one2many" if side == "src" else "many2one"
            alls, alld = [wid(r, c) for c in range(s.C) for r in range(s.R)], [wid(r, c) for c in range(d.C) for r in range(d.R)]
            step_cap = wmax * 8 if wl["auto_split"] else wmax
            if side == "src":       # a shared source with little left, partners with plenty of room
                focal = min(rng.sample(alls, min(4, len(alls))), key=lambda w: (s.vol[s.cav(w)] <= s.lo, s.vol[s.cav(w)] - s.lo))
                n = min(6, max(n, int((s.vol[s.cav(focal)] - s.lo) // step_cap) + 1))
                sw, dw = [focal] * n, [rng.choice(sorted(alld, key=lambda w: d.vol[d.cav(w)])[:3]) for _ in range(n)]
            else:
                focal = min(rng.sample(alld, min(4, len(alld))), key=lambda w: (d.vol[d.cav(w)] >= d.hi, d.hi - d.vol[d.cav(w)]))
                n = min(6, max(n, int((d.hi - d.vol[d.cav(focal)]) // step_cap) + 1))
                sw, dw = [rng.choice(sorted(alls, key=lambda w: -s.vol[s.cav(w)])[:3]) for _ in range(n)], [focal] * n
        if mode == "one2many":
            sw = [sw[0]] * n
        elif mode == "many2one":
            dw = [dw[0]] * n
        kfail = rng.randrange(n) if fault in ("limit", "oversize") else None
        out, inn, vols = {}, {}, []
        for j, (a, b) in enumerate(zip(sw, dw)):
            ka, kb = s.cav(a), d.cav(b)
            avail = s.vol[ka] - s.lo - out.get(ka, 0) - margin
            cap = d.hi - d.vol[kb] - inn.get(kb, 0) - margin
            top = min(avail, cap, wmax * 8 if wl["auto_split"] else wmax)
            v = 0.0 if rng.random() < 0.05 else gridval(rng, grid, 0, top)
            if fault == "cumulative":
                full, sofar = ((avail + out.get(ka, 0)), out.get(ka, 0)) if side == "src" else ((cap + inn.get(kb, 0)), inn.get(kb, 0))
                each = min(full, cap if side == "src" else avail, wmax * 8 if wl["auto_split"] else wmax)
                v = gridval(rng, grid, max(0, full / n), each) or gridval(rng, grid, each / 2, each)
                if j == n - 1 and sofar + F(v or 0) <= full:
                    bump = beyond(rng, grid, max(full - sofar, 0))
                    v = bump if F(bump) <= each else v
            if j == kfail:
                v = beyond(rng, grid, max((avail if side == "src" else cap) + margin, 0)) if fault == "limit" else beyond(rng, grid, wmax)
            v = v or 0.0
            vols.append(v)
            out[ka] = out.get(ka, 0) + F(v)
            inn[kb] = inn.get(kb, 0) + F(v)
        one_s, one_d = len(set(sw)) == 1, len(set(dw)) == 1
        return dict(op="transfer", src=si, dst=di, sw=shape(rng, sw, allow_scalar=one_s), dw=shape(rng, dw, allow_scalar=one_d), vols=shape(rng, vols),
                    label=rng.choice(LABELS), wash=rng.choice([1, 1, 2, 3, 4, "flush", "reuse", 2.0]), pb=rng.choice(["auto", "auto", "source", "destination"]),
                    kw=rng.choice(KW), np=rng.random() < 0.4)
    if t == "distribute":
        si = rng.choice(troughs)
        s = ms[si]
        di = rng.randrange(len(ms))
        d = ms[di]
        col = rng.choice([c for c in range(s.C) if s.vol[c] > s.lo] or [0])
        allw = [wid(r, c) for c in range(d.C) for r in range(d.R)]
        if d.flu_tr:
            allw = [wid(rng.randrange(d.R), c) for c in range(d.C)]
        allw = [w for w in allw if d.vol[d.cav(w)] < d.hi] or allw
        dw = rng.sample(allw, rng.randint(1, min(len(allw), 6)))
        n = len(dw)
        cnt = {}
        for w in dw:
            cnt[d.cav(w)] = cnt.get(d.cav(w), 0) + 1
        caps = [(d.hi - d.vol[k] - margin) / c for k, c in cnt.items()]
        if di == si and col in cnt:
            caps.append((d.hi - d.vol[col] - margin) / cnt[col])
        src_top = (s.vol[col] - s.lo - margin) / n
        top = min([src_top, wmax] + caps)
        v = 0 if rng.random() < 0.05 else (gridval(rng, grid, 0, top) or 0)
        if fault in ("limit", "cumulative"):
            which = rng.choice(["src", "dst"]) if fault == "limit" else "src"
            if which == "src":      # every dispense fits, n of them do not
                v = beyond(rng, grid, src_top + margin) if fault == "limit" else (gridval(rng, grid, src_top + F(1, 4), min(src_top * n, wmax)) or beyond(rng, grid, src_top))
            else:                   # one destination is too full
                v = beyond(rng, grid, min(caps) + margin)
        elif fault == "oversize":
            v = beyond(rng, grid, wmax)
        kw = rng.choice([{}, {}, {"multi_disp": rng.randint(1, 12)}, {"diti_reuse": 3, "liquid_class": "LC", "direction": "right_to_left"},
                         {"src_rack_id": "s1", "dst_rack_type": "dt", "multi_disp": 6}])
        return dict(op="distribute", src=si, col=col, dst=di, dw=shape(rng, dw, allow_scalar=False) if n > 1 else rng.choice([dw, dw[0]]),
                    vol=v, label=rng.choice(LABELS) or "", kw=kw, np=rng.random() < 0.4)
    return rng.choice([dict(op="wash", scheme=rng.choice([1, 2, 3, 4])), dict(op="flush"), dict(op="commit"),
                       dict(op="comment", text=rng.choice(["hello", "a\n b \n\nc"]))] + ([] if wl["diti_mode"] else [dict(op="decontaminate")]))


def corrupt(rng, op, specs, wl):
    """turn a valid operation into one with an invalid argument"""
    op = json.loads(json.dumps(op))
    t = op["op"]
    vkey = "vol" if t == "distribute" else "vols"
    choices = ["neg", "nan", "label"]
    if t in ("aspirate", "dispense", "transfer"):
        choices += ["well", "kw", "kw", "len"] + (["pb", "wash"] if t == "transfer" else []) + (["huge"] if t != "transfer" or not wl["auto_split"] else [])
    if t == "distribute":
        choices += ["well", "dkw", "dkw", "col", "notrough"]
    if t.startswith("evo"):
        choices += ["unsorted", "repeat", "tips", "twocols"]
    c = rng.choice(choices)
    flat = flatF(op[vkey])
    j = rng.randrange(len(flat))
    if c in ("neg", "nan", "huge"):
        flat[j] = {"neg": rng.choice([-1.0, -0.25, -1e-9]), "nan": "nan", "huge": 7158279.0}[c]
        op[vkey] = flat if t != "distribute" else flat[0]
    elif c == "label":
        op["label"] = "semi;colon"
    elif c == "well":
        key = rng.choice(["sw", "dw"]) if t == "transfer" else ("dw" if t == "distribute" else "wells")
        w = flatF(op[key])
        w[rng.randrange(len(w))] = rng.choice(["Z99", "A00", "A25", "Q01", "a01"])
        op[key] = w
    elif c == "kw":
        op["kw"] = dict(op.get("kw") or {}, **rng.choice(BADKW))
    elif c == "dkw":
        op["kw"] = dict(op.get("kw") or {}, **rng.choice(BADDKW))
    elif c == "len":
        op[vkey] = flat + [1.0] if len(flat) > 1 else [1.0, 2.0, 3.0] * 3
    elif c == "pb":
        op["pb"] = rng.choice(["column", "src", ""])
    elif c == "wash":
        op["wash"] = rng.choice([0, 5, "wash", 1.5])
    elif c == "col":
        op["col"] = specs[op["src"]]["cols"] + rng.choice([0, 1])
    elif c == "notrough":
        plates = [i for i, s in enumerate(specs) if not s["trough"]]
        if plates:
            op["src"], op["col"] = rng.choice(plates), 0
    elif c == "unsorted" and len(op["tips"]) > 1:
        op["wells"] = flatF(op["wells"])[::-1]
    elif c == "repeat" and len(op["tips"]) > 1:
        w = flatF(op["wells"])
        op["wells"] = [w[0]] * len(w)
    elif c == "tips":
        op["tips"] = rng.choice([op["tips"][::-1] if len(op["tips"]) > 1 else [9], op["tips"] + [8], [0] * len(op["tips"])])
    elif c == "twocols":
        w = flatF(op["wells"])
        if specs[op["lw"]]["cols"] > 1 and len(w) > 1:
            w[-1] = w[-1][0] + ("02" if w[-1][1:] == "01" else "01")
            op["wells"] = sorted(w)
    return op


def gen_case(rng):
    grid = rng.choice(["dyadic"] * 5 + ["centi"] * 2 + ["off"] * 2)
    device = rng.choice(["evo", "fluent"])
    wl = dict(max_volume=rng.choice(WMAX[grid]), auto_split=rng.random() < 0.5, diti_mode=rng.random() < 0.15)
    specs = gen_labwares(rng, grid, wl["max_volume"])
    ops = []
    top = lambda s: 2 * max(flatF(s["init"]) + [wl["max_volume"]])  # noqa: E731  (stand-in for a NaN limit, only for the generator)
    finite = [dict(s, min=0 if s["min"] == "nan" else s["min"], max=top(s) if s["max"] == "nan" else s["max"]) for s in specs]
    ms = [Lw(s, device) for s in finite]
    for m in ms:
        m.lo, m.hi = F(m.lo), F(m.hi)
    fault = rng.choice(["limit"] * 4 + ["cumulative"] * 3 + ["oversize"] * 2 + ["invalid"] * 3 + ["none"])
    for step in range(rng.choice([0, 0, 1, 1, 2, 3, 4]) + 1):
        op = gen_op(rng, grid, device, wl, finite, ms)
        ops.append(op)
        # keep the generator's state: net effect of the (valid, fitting) operation
        t = op["op"]
        if t in ("aspirate", "dispense", "evo_aspirate", "evo_dispense"):
            w, v = flatF(op["wells"]), flatF(op["vols"])
            for a, x in zip(w, v * len(w) if len(v) == 1 else v):
                ms[op["lw"]].vol[ms[op["lw"]].cav(a)] += -F(x) if t.endswith("aspirate") else F(x)
        elif t == "transfer":
            sw, dw, v = flatF(op["sw"]), flatF(op["dw"]), flatF(op["vols"])
            n = max(len(sw), len(dw), len(v))
            for a, b, x in zip(*[y * n if len(y) == 1 else y for y in (sw, dw, v)]):
                ms[op["src"]].vol[ms[op["src"]].cav(a)] -= F(x)
                ms[op["dst"]].vol[ms[op["dst"]].cav(b)] += F(x)
        elif t == "distribute":
            dw = flatF(op["dw"])
            ms[op["src"]].vol[op["col"]] -= F(op["vol"]) * len(dw)
            for b in dw:
                ms[op["dst"]].vol[ms[op["dst"]].cav(b)] += F(op["vol"])
    if fault == "invalid":
        ops[-1] = corrupt(rng, ops[-1], finite, wl) if ops[-1]["op"] not in ("wash", "flush", "commit", "comment", "decontaminate") else \
            rng.choice([dict(op="wash", scheme=rng.choice([0, 5, 1.5])), dict(op="comment", text="a;b"), dict(op="decontaminate")])
    elif fault != "none":
        ops.append(gen_op(rng, grid, device, wl, finite, ms, fault=fault))
    return dict(kind="random:" + fault, grid=grid, device=device, wl=wl, labwares=specs, ops=ops)


def gen_enumerated(tier):
    P = dict(name="P", trough=False, rows=3, cols=2, min=20, max=200, init=[[100, 50], [100, 50], [20, 200]])
    Q = dict(name="Q", trough=False, rows=2, cols=2, min=0, max=100, init=[[0, 90], [50, 100]])
    T = dict(name="T", trough=True, rows=4, cols=2, min=100, max=2000, init=[1000, 100])
    B = dict(name="B", trough=False, rows=2, cols=2, min=0, max=5000, init=[[2500, 2500], [2500, 0]])
    up, dn = (lambda x: math.nextafter(float(x), math.inf)), (lambda x: math.nextafter(float(x), 0.0))
    for device in DEVICES:
        wl = dict(max_volume=950, auto_split=True, diti_mode=False)
        base = dict(device=device, wl=wl, labwares=[P, Q, T, B])
        # EN1: refusal at every entry k of n entries
        for n in (1, 2, 3, 4):
            for k in range(n):
                for same in (False, True):
                    for sh in ("flat", "2d"):
                        if sh == "2d" and n != 4:
                            continue
                        two = (lambda x: [[x[0], x[2]], [x[1], x[3]]]) if sh == "2d" else (lambda x: x)
                        # aspirate from P (avail 80 / 30 per well) and T (avail 900), dispense into Q (room 100 / 50 / 10)
                        for (lw, wells, room, opn) in [(0, ["A01", "B01", "A02", "B02"], [80, 80, 30, 30], "aspirate"), (2, ["A01", "B01", "C01", "D01"], [900] * 4, "aspirate"),
                                                       (1, ["A01", "B01", "A02", "B01"], [100, 50, 10, 50], "dispense")]:
                            ws = [wells[0]] * n if same else wells[:n]
                            vols, used = [], 0
                            for j in range(n):
                                r = room[0] if same else room[j]
                                left = r - (used if (same or lw == 2) else (5.25 if (lw == 1 and j == 3) else 0))
                                v = left + 0.25 if j == k else 5.25
                                vols.append(v)
                                used += v
                            yield dict(base, kind="EN1 refusal at entry k", ops=[dict(op="wash", scheme=1), dict(op=opn, lw=lw, wells=two(ws), vols=two(vols), kw={})])
                        # transfer P -> Q: pair k underflows the source / overflows the destination
                        for side in ("src", "dst"):
                            sw = (["A01"] * 4 if same else ["A01", "B01", "A02", "B02"])[:n]
                            dw = (["A01"] * 4 if same else ["A01", "B01", "A02", "A01"])[:n]
                            vols = [5.25] * n
                            if side == "src":
                                vols[k] = (80 if sw[k][1:] == "01" else 30) - (5.25 * k if same else 0) + 0.25
                            else:
                                vols[k] = {"A01": 100, "B01": 50, "A02": 10}[dw[k]] - (5.25 * k if same else (5.25 if k == 3 else 0)) + 0.25
                            for split in (True, False):
                                yield dict(base, wl=dict(wl, auto_split=split), kind="EN1 refusal at entry k",
                                           ops=[dict(op="transfer", src=0, dst=1, sw=two(sw), dw=two(dw), vols=two(vols), wash=1, pb="source", kw={})])
        # EN2: limit - ulp, limit, limit + ulp for every kind of limit
        for wm in (950, 50.5, 33.3):
            w2 = dict(max_volume=wm, auto_split=False, diti_mode=False)
            probes = [("aspirate", dict(lw=0, wells="A01"), 80), ("aspirate", dict(lw=0, wells=["A02", "A02"]), None), ("dispense", dict(lw=0, wells=["A02"]), 150),
                      ("dispense", dict(lw=1, wells=[["B01"]]), 50), ("transfer", dict(src=0, dst=3, sw="A01", dw="A01"), 80), ("transfer", dict(src=3, dst=1, sw="A02", dw="B01"), 50),
                      ("transfer", dict(src=1, dst=1, sw="A02", dw="A02"), 90), ("distribute", dict(src=2, col=0, dst=3, dw=["A01", "B01", "A02"]), 300),
                      ("distribute", dict(src=2, col=0, dst=1, dw=["B01"]), 50), ("distribute", dict(src=2, col=0, dst=2, dw=["A01", "C02"]), 450),
                      ("aspirate", dict(lw=3, wells="A01"), wm), ("dispense", dict(lw=3, wells="B02"), wm), ("transfer", dict(src=3, dst=3, sw="A01", dw="B02"), wm),
                      ("distribute", dict(src=2, col=0, dst=3, dw="B02"), wm if wm < 900 else None)]
            for opn, args, lim in probes:
                for f in (dn, float, up):
                    if lim is None and opn == "aspirate":
                        vols = [15, f(15)]          # second entry on the same well: 50 - 15 - 15 = 20 = min_volume
                    elif lim is None:
                        continue
                    else:
                        vols = f(lim)
                    if opn != "distribute" and not isinstance(vols, list) and vols > wm and lim != wm:
                        continue
                    key = "vol" if opn == "distribute" else "vols"
                    yield dict(base, wl=w2, kind="EN2 limits +- ulp", ops=[dict(op=opn, kw={}, **args, **{key: vols})])
        # EN3: distributions refused by the source (n x v) or by the j-th destination, preceded by a successful one
        for n in (1, 2, 3, 4):
            dws = ["A01", "B01", "A02", "B02"][:n]
            first = dict(op="distribute", src=2, col=0, dst=3, dw=["A01", "B01"], vol=100, label="ok", kw={})
            yield dict(base, kind="EN3 distribute", ops=[first, dict(op="distribute", src=2, col=0, dst=3, dw=dws, vol=700 / n + 0.25, label="src", kw={})])
            yield dict(base, kind="EN3 distribute", ops=[first, dict(op="distribute", src=2, col=0, dst=3, dw=dws, vol=700 / n, label="fits", kw={})])
            for j in range(n):
                # Q rooms: A01 100, B01 50, A02 10, B02 0 -> volume that only destination j refuses (if it is the smallest room so far)
                room = [100, 50, 10, 0]
                v = room[j] + 0.25
                if all(room[i] >= v for i in range(j)):
                    yield dict(base, kind="EN3 distribute", ops=[first, dict(op="distribute", src=2, col=0, dst=1, dw=dws[:j + 1], vol=v, label="dst", kw={})])
            yield dict(base, kind="EN3 distribute", ops=[dict(op="distribute", src=2, col=0, dst=2, dw=["A02", "B02"][:max(1, n - 2)] if device == "evo" else ["A02"], vol=475.25, label="self", kw={})])
        # EN4: evo commands
        if device == "evo":
            for vols, verdict in [([80, 80], "ok"), ([80, 80.25], "under"), ([80.25, 1], "under"), (951.0, "big")]:
                yield dict(base, kind="EN4 evo commands", ops=[dict(op="evo_aspirate", lw=0, wells=["A01", "B01"], vols=vols, tips=[1, 2], lc="W")])
            yield dict(base, kind="EN4 evo commands", ops=[dict(op="evo_dispense", lw=1, wells=["A01", "B01"], vols=[100, 50.25], tips=[3, 5], lc="W")])
            yield dict(base, kind="EN4 evo commands", ops=[dict(op="evo_dispense", lw=2, wells=["A02", "C02", "D02"], vols=[600, 600, 700.25], tips=[1, 2, 8], lc="")])
            yield dict(base, kind="EN4 evo commands", ops=[dict(op="evo_aspirate", lw=2, wells=["B01", "D01"], vols=450, tips=[2, 4], lc=""),
                                                          dict(op="evo_aspirate", lw=2, wells="A01", vols=0.25, tips=[1], lc="")])


# ------------------------------------------------------------------ driver
def key_of(case):
    return json.dumps(case, sort_keys=True)


def kind_of(msg):
    return re.sub(r"\d+(\.\d+)?(e-?\d+)?", "#", msg)[:70]


def shrink(case, kind):
    def failing(c):
        try:
            return any(kind_of(x) == kind for x in check_case(c)[0])
        except Exception:  # noqa
            return False
    ops = list(case["ops"])
    i = len(ops) - 2
    while i >= 0 and len(ops) > 1:
        cand = dict(case, ops=ops[:i] + ops[i + 1:])
        if failing(cand):
            ops = cand["ops"]
        i -= 1
    return dict(case, ops=ops)


def replay(path):
    with open(path if os.path.isabs(path) or os.path.exists(path) else os.path.join(VERIF, path)) as fh:
        rp = json.load(fh)
    case = rp["bounded_replay"]["case"]
    fails, nok, nrec, ended = check_case(case)
    print(json.dumps({"case": case, "operations_accepted": nok, "records": nrec, "ended": ended, "failures": fails}, indent=1))
    if fails:
        print(f"VIOLATION property={PROP} replay={path}")
        return 1
    print("case passes on this tree")
    return 0


def main():
    if len(sys.argv) >= 3 and sys.argv[1] == "--replay":
        try:
            rc = replay(sys.argv[2])
        finally:
            if TMP:
                shutil.rmtree(TMP, ignore_errors=True)
        sys.exit(rc)
    tier = sys.argv[1] if len(sys.argv) > 1 else "quick"
    seed = int(sys.argv[2]) if len(sys.argv) > 2 else 0
    budget, n_random = (16, 4000) if tier == "quick" else (240, 80000)
    t0 = time.time()
    rng = random.Random(seed)
    seen, failures, fail_kinds, parts, samples = set(), [], {}, {}, []
    evaluations = 0

    def feed(c, source):
        nonlocal evaluations
        k = key_of(c)
        if k in seen:
            return
        evaluations += 1
        fails, nok, nrec, ended = check_case(c)
        if nrec > 0 or ended.startswith("op "):
            seen.add(k)
        d = parts.setdefault((c["kind"].split()[0], source), [0, 0, 0])
        d[0] += 1
        d[1] += ended.startswith("op ")
        d[2] += nrec
        if len(samples) < 4 and evaluations % 173 == 1 and sum(s["rows"] * s["cols"] for s in c["labwares"]) < 40:
            samples.append(dict(c, ended=ended))
        for q in fails[:1]:
            fk = (kind_of(q), c["device"])
            fail_kinds[fk] = fail_kinds.get(fk, 0) + 1
            if fail_kinds[fk] > 1 or len(failures) >= 12:
                continue
            small = shrink(c, kind_of(q))
            q2 = (check_case(small)[0] or [q])[0]
            short = hashlib.sha1(key_of(small).encode()).hexdigest()[:10]
            rel = os.path.join("replays", PROP, f"bounded_{short}.json")
            os.makedirs(os.path.join(VERIF, "replays", PROP), exist_ok=True)
            with open(os.path.join(VERIF, rel), "w") as fh:
                json.dump({"property": PROP, "bounded_replay": {"script": "c03.py", "case": small}, "what": q2}, fh, indent=1)
            failures.append({"what": f"[{c['device']}] {q2}"[:500], "replay": rel})

    try:
        for c in gen_enumerated(tier):
            feed(c, "enumerated")
        n = 0
        while n < n_random and time.time() - t0 < budget:
            feed(gen_case(rng), "random")
            n += 1
    finally:
        if TMP:
            shutil.rmtree(TMP, ignore_errors=True)
    bounds = {"EN1": "1..4 entries, refusal at every entry k, distinct / repeated wells, flat / 2-D arguments, plate and trough, aspirate / dispense / transfer (split on and off), both devices",
              "EN2": "14 probes (well min / max through aspirate, dispense, transfer, distribute; max_volume 950 / 50.5 / 33.3 through every operation) x {limit-ulp, limit, limit+ulp}, both devices",
              "EN3": "1..4 destinations, refusal by the source (n x v) and by every destination j, after a successful distribution, same-labware distribution, both devices",
              "EN4": "evo_aspirate / evo_dispense: valid, underflow at entry 0 / 1, overflow, step above max_volume, trough",
              "random": "1-3 labwares (plates up to 16x24, troughs up to 16 virtual rows x 4 columns), 1-5 valid operations then a fault (limit at entry k / cumulative / oversize / invalid argument / none)"}
    out = {"evaluations": evaluations, "distinct": len(seen),
           "rule": "a case is (device, worklist settings, labware set, operation sequence ending in a refusal); enumerated small scopes + seeded random histories; "
                   "distinct = distinct canonical JSON; non-trivial = at least one record was emitted or an operation was refused",
           "samples": samples[:4],
           "parts": [{"function": f"with Evo/FluentWorklist(path): aspirate/dispense/transfer/distribute/evo_* ... until refusal [{k}]",
                      "kind": "bounded " + ("enumeration" if src == "enumerated" else f"seeded random (seed {seed})"), "bound": bounds[k.split(":")[0]],
                      "evaluations": v[0], "refusals": v[1], "records": v[2]} for (k, src), v in sorted(parts.items())],
           "failures": failures, "seconds": round(time.time() - t0, 1), "failure_classes": len(fail_kinds)}
    print(json.dumps(out))


if __name__ == "__main__":
    main()
