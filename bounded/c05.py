#!/usr/bin/env python
"""Bounded contract monitor for C05 (composition tracking == ideal volumetric mixing, conservation).

A case = a set of labware (plates / Trough / Labware-with-virtual_rows, any naming configuration) + a history of
transfer / distribute / dispense(with composition) / aspirate operations on EvoWorklist and FluentWorklist (or directly
on Labware.add / remove).  Oracles (all independent of the code under test, exact `fractions.Fraction` arithmetic):
  * naming: one-hot initial fractions, explicit names, documented defaults, ValueError for names on empty/unknown wells
  * an own interpreter of the emitted A;/D; records (own position<->well mapping for EVO and Fluent) replays every
    transfer in the order the robot would execute it; distribute / dispense / aspirate are replayed from the call;
    for transfers between different labware the order-free call-level mixture must equal the record replay exactly
  * after EVERY operation, every well of every labware: volume, every component fraction == exact mixture;
    fractions finite, in [0,1], summing to 1 in non-empty wells, exactly 0 in never-filled wells;
    get_well_composition agrees with Labware.composition
  * removal never changes any fraction (bitwise), uninvolved labware is untouched
  * per-component totals (volume x fraction over all labware, computed from the REAL state only) are conserved by
    transfer/distribute, grow by v*f on dispense, shrink by v*fraction on aspirate
"""
import copy
import hashlib
import itertools
import json
import logging
import math
import os
import random
import sys
import time
import warnings
from fractions import Fraction as Fr

sys.path.insert(0, os.environ.get("PYVC_REPO", "/repo"))
import numpy as np  # noqa: E402

warnings.simplefilter("ignore")
logging.disable(logging.CRITICAL)
np.seterr(all="ignore")

from robotools import EvoWorklist, FluentWorklist, Labware, Trough  # noqa: E402

PROP = "C05"
VERIF = os.path.dirname(os.path.dirname(os.path.abspath(__file__)))
REPLAYS = os.path.join(VERIF, "replays", PROP)
ROWS = "ABCDEFGHIJKLMNOPQRSTUVWXYZ"
TOLF = 1e-7  # fractions: accumulated float error of a history


# ------------------------------------------------------------------------------------------------ spec helpers
def real_rows(s):
    return 1 if s["kind"] != "plate" else s["rows"]


def wid(r, c):
    return f"{ROWS[r]}{c + 1:02d}"


def idx_of(s, well):
    r, c = ROWS.index(well[0]), int(well[1:]) - 1
    if not (0 <= r < s["rows"] and 0 <= c < s["cols"]):
        raise KeyError(well)
    return (0 if s["kind"] != "plate" else r), c


def all_wells(s):
    return [wid(r, c) for c in range(s["cols"]) for r in range(s["rows"])]


def init_matrix(s):
    """own reading of initial_volumes: scalar -> every well, flat list -> row-major, nested -> as given"""
    R, C, v = real_rows(s), s["cols"], s["init"]
    if not isinstance(v, list):
        return {(r, c): Fr(repr(v)) for r in range(R) for c in range(C)}
    if v and isinstance(v[0], list):
        return {(r, c): Fr(repr(v[r][c])) for r in range(R) for c in range(C)}
    return {(r, c): Fr(repr(v[r * C + c])) for r in range(R) for c in range(C)}


def explicit_name(s, idx):
    n = s.get("names")
    if n is None:
        return None
    if s["kind"] == "trough":
        return n[idx[1]] if isinstance(n, list) else n
    return n.get(wid(*idx))


def default_names(s, idx):
    """acceptable default names of a filled well (a set; >1 element where the property leaves the geometry open)"""
    name, (r, c), C = s["name"], idx, s["cols"]
    if s["kind"] == "plate":
        if s["rows"] > 1:
            return {f"{name}.{wid(r, c)}"}
        return {name} if C == 1 else {name, f"{name}.{wid(r, c)}"}
    if C == 1:
        return {name}
    if s["kind"] == "trough":
        return {f"{name}.column_{c + 1:02d}"}
    return {name, f"{name}.column_{c + 1:02d}", f"{name}.{wid(0, c)}"}  # Labware(virtual_rows=..): deprecated path


def flat_f(x):
    """column-major flattening of a scalar / list / nested list"""
    if not isinstance(x, list):
        return [x]
    if x and isinstance(x[0], list):
        return [x[i][j] for j in range(len(x[0])) for i in range(len(x))]
    return list(x)


def dec(v):
    return Fr(f"{v:.2f}")  # transfer / distribute volumes are generated with <= 2 decimals (what a record can carry)


def build_real(s):
    kw = dict(min_volume=s["min"], max_volume=s["max"], initial_volumes=s["init"])
    if s["kind"] == "trough":
        return Trough(s["name"], s["rows"], s["cols"], column_names=s.get("names"), **kw)
    if s["kind"] == "vtrough":
        return Labware(s["name"], 1, s["cols"], virtual_rows=s["rows"], component_names=s.get("names"), **kw)
    return Labware(s["name"], s["rows"], s["cols"], component_names=s.get("names"), **kw)


# ---------------------------------------------------------------------------------------------------- the model
class Model:
    def __init__(self, specs):
        self.specs = specs
        self.vol = [init_matrix(s) for s in specs]
        self.amt = [{i: {} for i in v} for v in self.vol]
        self.ever = [{i: v[i] != 0 for i in v} for v in self.vol]

    def clone(self):
        m = Model.__new__(Model)
        m.specs = self.specs
        m.vol = [dict(v) for v in self.vol]
        m.amt = [{i: dict(a) for i, a in x.items()} for x in self.amt]
        m.ever = [dict(e) for e in self.ever]
        return m

    def frac(self, li, idx):
        v = self.vol[li][idx]
        return {k: a / v for k, a in self.amt[li][idx].items()} if v else {}

    def remove(self, li, idx, v):
        old = self.vol[li][idx]
        if v < 0 or v > old:
            raise ValueError(f"model: removing {float(v)} from {self.specs[li]['name']}{idx} holding {float(old)}")
        comp = self.frac(li, idx)
        new = old - v
        self.amt[li][idx] = {k: f * new for k, f in comp.items()} if new else {}
        self.vol[li][idx] = new
        return comp

    def add(self, li, idx, v, comp):
        if v == 0:
            return
        a = self.amt[li][idx]
        for k, f in comp.items():
            a[k] = a.get(k, Fr(0)) + Fr(f) * v
        self.vol[li][idx] += v
        self.ever[li][idx] = True


def position_to_idx(dev, s, pos):
    """own position -> index mapping: EVO counts (virtual) rows column-major, Fluent numbers trough columns"""
    if not 1 <= pos <= (s["cols"] if s["kind"] != "plate" and dev == "fluent" else s["rows"] * s["cols"]):
        raise ValueError(f"record addresses position {pos}, which {s['name']} does not have on the {dev}")
    if s["kind"] != "plate" and dev == "fluent":
        return 0, pos - 1
    n = s["rows"]
    return (0 if s["kind"] != "plate" else (pos - 1) % n), (pos - 1) // n


def replay_records(model, dev, records):
    by_name = {s["name"]: i for i, s in enumerate(model.specs)}
    tip = None
    for rec in records:
        f = rec.split(";")
        if f[0] == "A":
            li = by_name[f[1]]
            tip = (Fr(f[6]), model.remove(li, position_to_idx(dev, model.specs[li], int(f[4])), Fr(f[6])))
        elif f[0] == "D":
            li = by_name[f[1]]
            if tip is None or tip[0] != Fr(f[6]):
                raise ValueError(f"dispense record {rec!r} without matching aspirate")
            model.add(li, position_to_idx(dev, model.specs[li], int(f[4])), tip[0], tip[1])
            tip = None
        elif f[0] not in ("W", "W1", "W2", "W3", "W4", "WD", "F", "B", "C", "S"):
            raise ValueError(f"unexpected record {rec!r}")
    if tip is not None:
        raise ValueError("aspirate record without dispense")


# --------------------------------------------------------------------------------------------------- the monitor
def totals(labs):
    t = {}
    for lw in labs:
        v = lw.volumes
        for k, a in lw.composition.items():
            t.setdefault(k, []).extend((v * a).ravel().tolist())
    return {k: math.fsum(x) for k, x in t.items()}


def snapshot(labs):
    return [(lw.volumes, {k: a.copy() for k, a in lw.composition.items()}) for lw in labs]


def same_comp(a, b):
    return a.keys() == b.keys() and all(np.array_equal(a[k], b[k], equal_nan=True) for k in a)


def check_state(model, labs):
    for li, (s, lw) in enumerate(zip(model.specs, labs)):
        rv, comp = lw.volumes, lw.composition
        if rv.shape != (real_rows(s), s["cols"]):
            return f"{s['name']}: volumes have shape {rv.shape}"
        for k, a in comp.items():
            if not isinstance(a, np.ndarray) or a.shape != rv.shape:
                return f"{s['name']}: composition[{k!r}] has shape {getattr(a, 'shape', None)}, volumes {rv.shape}"
        for idx, mv in model.vol[li].items():
            w = f"{s['name']}.{wid(*idx)}"
            if not abs(rv[idx] - float(mv)) <= 1e-6 + 1e-9 * float(mv):
                return f"{w}: volume {rv[idx]!r}, exact {float(mv)!r}"
            fr = {k: float(a[idx]) for k, a in comp.items()}
            if not all(math.isfinite(f) and 0 <= f <= 1 + 1e-9 for f in fr.values()):
                return f"{w}: fractions not finite / outside [0,1]: {fr}"
            tot = math.fsum(fr.values())
            if rv[idx] > 0 and abs(tot - 1) > 1e-9:
                return f"{w}: non-empty well, fractions sum to {tot!r}: {fr}"
            if tot > 1 + 1e-9:
                return f"{w}: fractions sum to {tot!r}: {fr}"
            if not model.ever[li][idx] and any(f != 0 for f in fr.values()):
                return f"{w}: never filled but has fractions {fr}"
            if mv > Fr(1, 10 ** 6):
                ex = model.frac(li, idx)
                for k in set(fr) | set(ex):
                    if abs(fr.get(k, 0.0) - float(ex.get(k, 0))) > TOLF:
                        return f"{w}: fraction of {k!r} is {fr.get(k, 0.0)!r}, ideal mixing gives {float(ex.get(k, 0))!r} (all: {fr})"
            g = lw.get_well_composition(wid(*idx))
            if {k: float(f) for k, f in g.items()} != {k: f for k, f in fr.items() if f > 0}:
                return f"{w}: get_well_composition {g} disagrees with composition {fr}"
    return None


def check_initial(model, labs):
    """one-hot initial fractions under the explicit / default name; fixes the model's initial amounts"""
    for li, (s, lw) in enumerate(zip(model.specs, labs)):
        for idx, v in model.vol[li].items():
            if lw.volumes.shape != (real_rows(s), s["cols"]) or lw.volumes[idx] != float(v):
                return f"{s['name']}: initial volumes {lw.volumes.tolist()} differ from the requested {s['init']}"
            ones = [k for k, a in lw.composition.items() if a.shape == lw.volumes.shape and a[idx] == 1]
            nonzero = [k for k, a in lw.composition.items() if a.shape == lw.volumes.shape and a[idx] != 0]
            if v == 0:
                if nonzero:
                    return f"{s['name']}.{wid(*idx)} is empty but has components {nonzero}"
                continue
            ok = {explicit_name(s, idx)} if explicit_name(s, idx) is not None else default_names(s, idx)
            if len(ones) != 1 or nonzero != ones or ones[0] not in ok:
                return f"{s['name']}.{wid(*idx)} (filled): components {nonzero}, expected one of {sorted(ok)} at fraction 1"
            model.amt[li][idx] = {ones[0]: v}
    return None


def tol_eq(a, b):
    return abs(a - b) <= 1e-6 + 1e-9 * max(abs(a), abs(b))


def pairs_of(op):
    sw, dw, vs = flat_f(op["sw"]), flat_f(op["dw"]), flat_f(op["v"])
    n = max(len(sw), len(dw), len(vs))
    sw, dw, vs = [x * n if len(x) == 1 else x for x in (sw, dw, vs)]
    return list(zip(sw, dw, vs))


def nparg(x):
    return np.array(x) if isinstance(x, list) and x and isinstance(x[0], list) else x


def run_case(case):
    """-> list of problems (empty = case passes)"""
    specs = case["labs"]
    labs = []
    for s in specs:
        try:
            lw = build_real(s)
        except ValueError as ex:
            if s.get("expect_error"):
                return []
            return [f"constructing {s} raised ValueError: {ex}"]
        except Exception as ex:  # noqa
            return [f"constructing {s} raised {type(ex).__name__}: {ex}"]
        if s.get("expect_error"):
            return [f"constructing {s} must raise ValueError ({s['expect_error']}) but returned a labware"]
        labs.append(lw)
    model = Model(specs)
    bad = check_initial(model, labs) or check_state(model, labs)
    if bad:
        return ["initial state: " + bad]
    wls = {"evo": EvoWorklist(max_volume=case.get("wl_max", 950)), "fluent": FluentWorklist(max_volume=case.get("wl_max", 950))}
    for n, op in enumerate(case.get("ops", [])):
        tag = f"op {n} {json.dumps(op)}: "
        before, tot0 = snapshot(labs), totals(labs)
        wl = wls.get(op["dev"])
        nrec = len(wl) if wl is not None else 0
        kind = op["op"]
        try:
            if kind == "transfer":
                kw = {k2: op[k1] for k1, k2 in (("pb", "partition_by"), ("wash", "wash_scheme"), ("label", "label")) if k1 in op}
                wl.transfer(labs[op["src"]], nparg(op["sw"]), labs[op["dst"]], nparg(op["dw"]), nparg(op["v"]), **kw)
            elif kind == "distribute":
                wl.distribute(labs[op["src"]], op["col"], labs[op["dst"]], nparg(op["dw"]), volume=op["v"], label=op.get("label", ""))
            elif kind == "dispense":
                if wl is None:
                    labs[op["lab"]].add(op["w"], op["v"], compositions=copy.deepcopy(op["comps"]))
                else:
                    wl.dispense(labs[op["lab"]], op["w"], op["v"], compositions=copy.deepcopy(op["comps"]))
            elif kind == "aspirate":
                if wl is None:
                    labs[op["lab"]].remove(op["w"], op["v"])
                else:
                    wl.aspirate(labs[op["lab"]], op["w"], op["v"])
            else:
                raise AssertionError(kind)
        except Exception as ex:  # noqa
            return [tag + f"feasible operation raised {type(ex).__name__}: {ex}"]
        involved, removal_only = set(), set()
        expect_delta = {}
        try:
            if kind == "transfer":
                si, di = op["src"], op["dst"]
                involved = {si, di}
                pre_vol = [dict(v) for v in model.vol]
                call = model.clone() if si != di else None
                replay_records(model, op["dev"], wl[nrec:])
                net = {}
                for s_, d_, v_ in pairs_of(op):
                    a, b = (si, idx_of(specs[si], s_)), (di, idx_of(specs[di], d_))
                    net[a] = net.get(a, 0) - dec(v_)
                    net[b] = net.get(b, 0) + dec(v_)
                    if call is not None and v_ > 0:
                        call.add(di, b[1], dec(v_), call.remove(si, a[1], dec(v_)))
                for li in range(len(specs)):
                    for idx in model.vol[li]:
                        if model.vol[li][idx] != pre_vol[li][idx] + net.get((li, idx), 0):
                            return [tag + f"records move {float(model.vol[li][idx] - pre_vol[li][idx])} into {specs[li]['name']}.{wid(*idx)}, the call asks for {float(net.get((li, idx), 0))}"]
                if call is not None:
                    removal_only = {si}
                    if call.amt != model.amt:
                        return [tag + "record replay differs from the order-free mixture of the call"]
            elif kind == "distribute":
                si, di = op["src"], op["dst"]
                involved = {si, di}
                dws = flat_f(op["dw"])
                v = dec(op["v"])
                comp = model.remove(si, (0, op["col"]), v * len(dws))
                for w in dws:
                    model.add(di, idx_of(specs[di], w), v, comp)
                if si != di:
                    removal_only = {si}
                # R record: destination range minus exclusions must be the requested wells (no repeats)
                rrec = [r for r in wl[nrec:] if r.startswith("R;")]
                want = sorted(1 + idx_of(specs[di], w)[1] * specs[di]["rows"] + idx_of(specs[di], w)[0] for w in dws) if specs[di]["kind"] == "plate" else None
                if len(rrec) != 1:
                    return [tag + f"{len(rrec)} R records emitted"]
                if want is not None and len(set(want)) == len(want):
                    f = rrec[0].split(";")
                    got = sorted(set(range(int(f[9]), int(f[10]) + 1)) - {int(x) for x in f[16:] if x})
                    if got != want or f[6] != specs[di]["name"] or float(f[11]) != op["v"]:
                        return [tag + f"R record {rrec[0]!r} addresses {got} x {f[11]}, requested {want} x {op['v']}"]
            elif kind == "dispense":
                li = op["lab"]
                involved = {li}
                ws, vs = flat_f(op["w"]), flat_f(op["v"])
                vs = vs * len(ws) if len(vs) == 1 else vs
                for w, v, c in zip(ws, vs, op["comps"]):
                    model.add(li, idx_of(specs[li], w), Fr(v), {k: Fr(f) for k, f in c.items()})
                    for k, f in c.items():
                        expect_delta[k] = expect_delta.get(k, 0.0) + v * f
            elif kind == "aspirate":
                li = op["lab"]
                involved, removal_only = {li}, {li}
                ws, vs = flat_f(op["w"]), flat_f(op["v"])
                vs = vs * len(ws) if len(vs) == 1 else vs
                for w, v in zip(ws, vs):
                    idx = idx_of(specs[li], w)
                    model.remove(li, idx, Fr(v))
                    for k, a in before[li][1].items():
                        expect_delta[k] = expect_delta.get(k, 0.0) - v * float(a[idx])
        except (ValueError, KeyError) as ex:
            return [tag + f"{ex}"]
        for li, lw in enumerate(labs):
            if li in removal_only and not same_comp(before[li][1], lw.composition):
                return [tag + f"removing liquid changed the composition of {specs[li]['name']}"]
            if li not in involved and not (np.array_equal(before[li][0], lw.volumes) and same_comp(before[li][1], lw.composition)):
                return [tag + f"uninvolved labware {specs[li]['name']} changed"]
        bad = check_state(model, labs)
        if bad:
            return [tag + bad]
        tot1 = totals(labs)
        for k in set(tot0) | set(tot1) | set(expect_delta):
            a, b = tot0.get(k, 0.0) + expect_delta.get(k, 0.0), tot1.get(k, 0.0)
            if not tol_eq(a, b):
                return [tag + f"total amount of {k!r} over all labware: {tot0.get(k, 0.0)!r} -> {b!r}, expected {a!r}"]
    return []


# ---------------------------------------------------------------------------------------------------- generators
class Gen:
    """volume bookkeeping used ONLY to generate feasible operations (order-free, conservative)"""

    def __init__(self, rng, specs, wl_max, quantum):
        self.rng, self.specs, self.wl_max, self.q = rng, specs, wl_max, Fr(repr(quantum))
        self.slack = Fr(0) if self.q.denominator in (1, 2, 4) else Fr(1, 100)
        self.vol = [init_matrix(s) for s in specs]
        self.emptied = []
        self.names = ["water", "salt", "glucose"] + [f"{s['name']}.A01" for s in specs[:2]] + [specs[0]["name"]]

    def fl(self, x):
        return max(Fr(0), (x // self.q) * self.q)

    def avail(self, li, idx):
        return self.fl(self.vol[li][idx] - Fr(self.specs[li]["min"]) - self.slack)

    def room(self, li, idx):
        return self.fl(Fr(self.specs[li]["max"]) - self.vol[li][idx] - self.slack)

    def pick(self, cap, zero_ok=True):
        r = self.rng.random()
        if cap <= 0 or (zero_ok and r < 0.06):
            return Fr(0)
        if r < 0.30:
            return cap
        if r < 0.5:
            return max(self.q, self.fl(cap / 2))
        if r < 0.6:
            return self.q
        return max(self.q, self.fl(cap * Fr(self.rng.randint(1, 99), 100)))

    def wells(self, li, n, pool=None, distinct=False):
        pool = pool or all_wells(self.specs[li])
        if distinct:
            return self.rng.sample(pool, min(n, len(pool)))
        if self.rng.random() < 0.5 and len(pool) > 3:
            pool = self.rng.sample(pool, 3)  # provoke collisions
        return [self.rng.choice(pool) for _ in range(n)]

    def out(self, x):
        return float(x)

    def assign(self, si, di, pairs, scalar=False):
        """volumes for (src well, dst well) pairs such that any execution order is feasible"""
        ob, ib = {}, {}
        sidx = [idx_of(self.specs[si], s) for s, _ in pairs]
        didx = [idx_of(self.specs[di], d) for _, d in pairs]
        lvh = self.fl(Fr(self.wl_max) * 12)  # at most ~13 LVH steps per pair
        for i in sidx:
            ob[(si, i)] = min(self.avail(si, i), lvh)
        for i in didx:
            ib[(di, i)] = self.room(di, i)
        if scalar:
            cap = min(min(ob[(si, i)] / sidx.count(i) for i in sidx), min(ib[(di, i)] / didx.count(i) for i in didx))
            v = self.pick(self.fl(cap))
            vs = [v] * len(pairs)
        else:
            vs = []
            for a, b in zip(sidx, didx):
                v = self.pick(min(ob[(si, a)], ib[(di, b)]))
                ob[(si, a)] -= v
                ib[(di, b)] -= v
                vs.append(v)
        for a, b, v in zip(sidx, didx, vs):
            self.vol[si][a] -= v
            self.vol[di][b] += v
            if self.vol[si][a] == 0 and v > 0:
                self.emptied.append((si, a))
        return vs

    def op_transfer(self):
        rng, n = self.rng, len(self.specs)
        srcs = [li for li in range(n) if any(self.avail(li, i) > 0 for i in self.vol[li])]
        if not srcs:
            return None
        si = rng.choice(srcs)
        di = si if rng.random() < 0.45 else rng.randrange(n)
        ss, ds = self.specs[si], self.specs[di]
        rich = [w for w in all_wells(ss) if self.avail(si, idx_of(ss, w)) > 0]
        shape = rng.choice(["pairs", "pairs", "chain", "chain", "self", "block", "one2many", "many2one", "refill"])
        op = {"op": "transfer", "dev": rng.choice(["evo", "fluent"]), "src": si, "dst": di}
        scalar = False
        if shape == "chain":
            di = op["dst"] = si
            col = rng.randrange(ss["cols"])
            path = [wid(r, col) for r in range(ss["rows"])] if rng.random() < 0.6 else self.wells(si, rng.randint(2, 5))
            if rng.random() < 0.3:
                path = path[::-1]
            if rng.random() < 0.3:
                rng.shuffle(path)
            path = path[: rng.randint(2, 5)]
            if len(path) < 2:
                path = path * 2
            pairs = list(zip(path[:-1], path[1:]))
            if rng.random() < 0.5:  # issue the chain steps in another order than the robot will execute them
                rng.shuffle(pairs)
        elif shape == "self":
            di = op["dst"] = si
            ws = self.wells(si, rng.randint(1, 4), rich)
            pairs = list(zip(ws, ws))
        elif shape == "block" and min(ss["rows"], ds["rows"]) >= 1:
            a, b = rng.randint(1, min(ss["rows"], ds["rows"], 4)), rng.randint(1, min(ss["cols"], ds["cols"], 3))
            r0, c0 = rng.randint(0, ss["rows"] - a), rng.randint(0, ss["cols"] - b)
            r1, c1 = rng.randint(0, ds["rows"] - a), rng.randint(0, ds["cols"] - b)
            op["sw"] = [[wid(r0 + i, c0 + j) for j in range(b)] for i in range(a)]
            op["dw"] = [[wid(r1 + i, c1 + j) for j in range(b)] for i in range(a)]
            pairs = list(zip(flat_f(op["sw"]), flat_f(op["dw"])))
            scalar = rng.random() < 0.5
            vs = self.assign(si, di, pairs, scalar)
            op["v"] = self.out(vs[0]) if scalar else [[self.out(vs[j * a + i]) for j in range(b)] for i in range(a)]
            return self.finish(op)
        elif shape == "one2many":
            s = rng.choice(rich)
            ds_ = self.wells(di, rng.randint(2, 6))
            pairs, scalar = [(s, d) for d in ds_], rng.random() < 0.5
            vs = self.assign(si, di, pairs, scalar)
            op.update(sw=s, dw=ds_, v=self.out(vs[0]) if scalar else [self.out(v) for v in vs])
            return self.finish(op)
        elif shape == "many2one":
            d = rng.choice(all_wells(ds))
            ss_ = self.wells(si, rng.randint(2, 5), rich)
            pairs = [(s, d) for s in ss_]
            vs = self.assign(si, di, pairs)
            op.update(sw=ss_, dw=d, v=[self.out(v) for v in vs])
            return self.finish(op)
        elif shape == "refill" and self.emptied:
            di, didx = rng.choice(self.emptied)
            op["dst"] = di
            pairs = [(rng.choice(rich), wid(*didx))]
        else:
            k = rng.choice([1, 1, 2, 3, 4, 6])
            pairs = list(zip(self.wells(si, k, rich), self.wells(di, k)))
        vs = self.assign(si, op["dst"], pairs)
        op.update(sw=[p[0] for p in pairs], dw=[p[1] for p in pairs], v=[self.out(v) for v in vs])
        return self.finish(op)

    def finish(self, op):
        rng = self.rng
        if rng.random() < 0.3:
            op["pb"] = rng.choice(["source", "destination", "auto"])
        if rng.random() < 0.3:
            op["wash"] = rng.choice([1, 2, 3, 4, "flush", "reuse"])
        if rng.random() < 0.3:
            op["label"] = rng.choice(["mix", "step 1", "serial dilution"])
        return op

    def op_distribute(self):
        rng, n = self.rng, len(self.specs)
        cands = [(li, c) for li, s in enumerate(self.specs) if s["kind"] != "plate" for c in range(s["cols"]) if self.avail(li, (0, c)) > 0]
        if not cands:
            return None
        si, col = rng.choice(cands)
        di = si if rng.random() < 0.15 else rng.randrange(n)
        ds = self.specs[di]
        k = rng.choice([1, 2, 3, 4, 6, 8])
        if rng.random() < 0.25 and ds["rows"] > 1:
            a, b = rng.randint(1, min(ds["rows"], 4)), rng.randint(1, min(ds["cols"], 3))
            r1, c1 = rng.randint(0, ds["rows"] - a), rng.randint(0, ds["cols"] - b)
            dw = [[wid(r1 + i, c1 + j) for j in range(b)] for i in range(a)]
        else:
            dw = self.wells(di, k, distinct=rng.random() < 0.8)
        flat = flat_f(dw)
        didx = [idx_of(ds, w) for w in flat]
        cap = min([self.avail(si, (0, col)) / len(flat), Fr(self.wl_max)] + [self.room(di, i) / didx.count(i) for i in didx])
        v = self.pick(self.fl(cap))
        self.vol[si][(0, col)] -= v * len(flat)
        for i in didx:
            self.vol[di][i] += v
        return {"op": "distribute", "dev": rng.choice(["evo", "fluent"]), "src": si, "col": col, "dst": di, "dw": dw, "v": self.out(v)}

    def composition(self):
        rng = self.rng
        fr = rng.choice([[1.0], [1.0], [0.5, 0.5], [0.25, 0.75], [0.1, 0.9], [1 / 3, 2 / 3], [0.2, 0.3, 0.5], [1 / 3, 1 / 3, 1 / 3], [1.0, 0.0]])
        return dict(zip(rng.sample(self.names, len(fr)), fr))

    def op_dispense(self):
        rng = self.rng
        li = rng.randrange(len(self.specs))
        s = self.specs[li]
        dev = rng.choice(["evo", "fluent", "direct"])
        if self.emptied and rng.random() < 0.4:
            li, i = rng.choice(self.emptied)
            s, ws = self.specs[li], [wid(*i)]
        else:
            ws = self.wells(li, rng.choice([1, 1, 2, 3, 4]))
        vs = []
        for w in ws:
            i = idx_of(s, w)
            cap = self.room(li, i) if dev == "direct" else min(self.room(li, i), self.fl(Fr(self.wl_max)))
            v = self.pick(cap)
            if dev == "direct" and rng.random() < 0.2 and v > 1:
                v = v - Fr(rng.randint(1, 7), 8) * min(self.q, 1)  # not representable in a record, fine for Labware.add
            self.vol[li][i] += v
            vs.append(v)
        c = self.composition()
        comps = [c if rng.random() < 0.5 else self.composition() for _ in ws]
        if len(ws) > 1 and len(set(vs)) == 1 and rng.random() < 0.5:
            return {"op": "dispense", "dev": dev, "lab": li, "w": ws, "v": float(vs[0]), "comps": comps}
        return {"op": "dispense", "dev": dev, "lab": li, "w": ws, "v": [float(v) for v in vs], "comps": comps}

    def op_aspirate(self):
        rng = self.rng
        cands = [li for li in range(len(self.specs)) if any(self.avail(li, i) > 0 for i in self.vol[li])]
        if not cands:
            return None
        li = rng.choice(cands)
        s = self.specs[li]
        dev = rng.choice(["evo", "fluent", "direct"])
        ws = self.wells(li, rng.choice([1, 1, 2, 3]), [w for w in all_wells(s) if self.avail(li, idx_of(s, w)) > 0])
        vs = []
        for w in ws:
            i = idx_of(s, w)
            cap = self.avail(li, i) if dev == "direct" else min(self.avail(li, i), self.fl(Fr(self.wl_max)))
            v = self.pick(cap)
            self.vol[li][i] -= v
            if self.vol[li][i] == 0 and v > 0:
                self.emptied.append((li, i))
            vs.append(v)
        return {"op": "aspirate", "dev": dev, "lab": li, "w": ws if len(ws) > 1 or rng.random() < 0.5 else ws[0], "v": [float(v) for v in vs]}


def gen_spec(rng, name, q):
    kind = rng.choice(["plate", "plate", "plate", "trough", "trough", "vtrough"])
    if kind == "plate":
        rows, cols = rng.choice([(1, 1), (2, 1), (3, 1), (4, 1), (1, 3), (2, 2), (2, 3), (3, 2), (4, 3), (4, 6), (8, 3), (8, 12)])
    else:
        rows, cols = rng.choice([1, 2, 4, 8]), rng.choice([1, 1, 2, 3, 4])
    big = rng.random() < 0.25
    mx = rng.choice([100000, 7000000]) if big else rng.choice([40, 100, 200, 1000, 2000])
    mn = rng.choice([0, 0, 0, 5, mx // 10])
    R = 1 if kind != "plate" else rows
    lv = [0, 0, mn, mx // 4, mx // 2, mx // 2, mx, mn + q * 3, mx - q * 7]
    style = rng.choice(["scalar", "cells", "cells", "cells", "full", "empty"])
    if style == "scalar":
        init = rng.choice(lv[2:])
    elif style in ("full", "empty"):
        init = [[(mx // 2 if style == "full" else 0) for _ in range(cols)] for _ in range(R)]
    else:
        init = [[rng.choice(lv) for _ in range(cols)] for _ in range(R)]
    if isinstance(init, list) and kind == "trough":
        init = init[0]
    elif isinstance(init, list) and rng.random() < 0.3:
        init = [x for row in init for x in row]  # flat, row-major
    s = {"kind": kind, "name": name, "rows": rows, "cols": cols, "min": mn, "max": mx, "init": init}
    filled = [i for i, v in init_matrix(s).items() if v != 0]
    pool = ["water", "salt", "glucose", "buffer", f"{name}.A01", "P0.B01", "P1"]
    nm = rng.choice(["default", "default", "all", "partial", "shared", "nones"])
    if nm != "default":
        chosen = filled if nm in ("all", "shared") else [i for i in filled if rng.random() < 0.5]
        val = {i: ("water" if nm == "shared" else rng.choice(pool)) for i in chosen}
        if kind == "trough":
            s["names"] = [val.get((0, c)) for c in range(cols)]
        else:
            s["names"] = {wid(*i): n for i, n in val.items()}
            if nm == "nones":
                s["names"].update({wid(r, c): None for r in range(R) for c in range(cols) if (r, c) not in val and rng.random() < 0.5})
    return s


def gen_case(rng):
    q = rng.choice([0.25, 0.25, 0.5, 1, 0.01])
    specs = [gen_spec(rng, f"P{i}", q) for i in range(rng.choice([1, 2, 2, 3, 3, 4]))]
    wl_max = rng.choice([950, 950, 1000, 50, 20, 12.5])
    g = Gen(rng, specs, wl_max, q)
    ops = []
    for _ in range(rng.randint(2, 12)):
        k = rng.choice(["transfer"] * 5 + ["distribute", "distribute", "dispense", "dispense", "aspirate"])
        op = getattr(g, "op_" + k)()
        if op is not None:
            ops.append(op)
    return {"labs": specs, "wl_max": wl_max, "ops": ops}


def enum_naming():
    """histories of length 0: every small geometry x fill pattern x naming configuration (+ refused configurations)"""
    geos = [("plate", r, c) for r in (1, 2, 3, 4) for c in (1, 2, 3)] + [(k, r, c) for k in ("trough", "vtrough") for r in (1, 2, 3) for c in (1, 2, 3)]
    for kind, rows, cols in geos:
        R = 1 if kind != "plate" else rows
        cells = [(r, c) for r in range(R) for c in range(cols)]
        for fill in ("all", "first_empty", "none", "alternate", "scalar"):
            vals = {i: (0 if fill == "none" or (fill == "first_empty" and n == 0) or (fill == "alternate" and n % 2) else 10 + n) for n, i in enumerate(cells)}
            init = 7 if fill == "scalar" else [[vals[(r, c)] for c in range(cols)] for r in range(R)]
            if fill == "scalar":
                vals = {i: 7 for i in cells}
            if kind == "trough" and isinstance(init, list):
                init = init[0]
            filled = [i for i in cells if vals[i]]
            empty = [i for i in cells if not vals[i]]
            for nm in ("default", "all", "same", "partial", "nones", "as_default_of_other", "on_empty", "unknown_well", "wrong_length"):
                s = {"kind": kind, "name": "L", "rows": rows, "cols": cols, "min": 0, "max": 100, "init": init}
                m = {}
                if nm == "all":
                    m = {i: f"c{n}" for n, i in enumerate(filled)}
                elif nm == "same":
                    m = {i: "water" for i in filled}
                elif nm == "partial":
                    m = {i: f"c{n}" for n, i in enumerate(filled[:1])}
                elif nm == "nones":
                    m = {i: None for i in cells}
                elif nm == "as_default_of_other":
                    m = {i: "L.A01" if kind == "plate" else "L.column_01" for i in filled[-1:]}
                elif nm == "on_empty":
                    if not empty:
                        continue
                    m = {empty[0]: "x"}
                    s["expect_error"] = "name for an empty well"
                elif nm == "unknown_well":
                    if kind == "trough":
                        continue
                    m = {(R, 0) if kind == "plate" else (0, cols): "x"}
                    s["expect_error"] = "name for a well that does not exist"
                elif nm == "wrong_length":
                    if kind != "trough":
                        continue
                    s["names"] = ["x"] * (cols + 1)
                    s["init"] = [5] * cols
                    s["expect_error"] = "column_names of wrong length"
                if nm not in ("default", "wrong_length"):
                    if kind == "trough":
                        s["names"] = [m.get((0, c)) for c in range(cols)]
                    else:
                        s["names"] = {wid(*i): n for i, n in m.items()}
                yield {"labs": [s], "ops": []}


def enum_two_ops(length, both):
    """P(3x1: 8 'a', 4 'b', empty) + trough T(8): every sequence of single-pair transfers of 0 / half / all"""
    specs = [{"kind": "plate", "name": "P", "rows": 3, "cols": 1, "min": 0, "max": 16, "init": [[8], [4], [0]], "names": {"A01": "a", "B01": "b"}},
             {"kind": "trough", "name": "T", "rows": 2, "cols": 1, "min": 0, "max": 16, "init": [8]}]
    W = [(0, "A01"), (0, "B01"), (0, "C01"), (1, "B01")]
    alpha = [(s, d, f) for s in W for d in W for f in (Fr(0), Fr(1, 2), Fr(1))]
    for n, seq in enumerate(itertools.product(alpha, repeat=length)):
        for dev in (("evo", "fluent") if both else (("evo", "fluent")[n % 2],)):
            g = Gen(None, specs, 950, 0.25)
            ops = []
            for (si, sw), (di, dw), f in seq:
                a, b = idx_of(specs[si], sw), idx_of(specs[di], dw)
                v = g.fl(min(g.avail(si, a), g.room(di, b)) * f)
                g.vol[si][a] -= v
                g.vol[di][b] += v
                ops.append({"op": "transfer", "dev": dev, "src": si, "sw": sw, "dst": di, "dw": dw, "v": float(v)})
            yield {"labs": specs, "wl_max": 950, "ops": ops}


def enum_multi_pair(shape, npairs, dev_both):
    """ONE transfer call with npairs (source, destination) pairs inside one plate, every combination of wells"""
    rows, cols = shape
    init = [[8 if (r, c) != (rows - 1, cols - 1) else 0 for c in range(cols)] for r in range(rows)]
    spec = {"kind": "plate", "name": "P", "rows": rows, "cols": cols, "min": 0, "max": 100, "init": init}
    ws = all_wells(spec)
    prs = [(s, d) for s in ws for d in ws if s != ws[-1]]
    for n, combo in enumerate(itertools.product(prs, repeat=npairs)):
        for dev in (("evo", "fluent") if dev_both else (("evo", "fluent")[n % 2],)):
            yield {"labs": [spec], "wl_max": 950, "ops": [{"op": "transfer", "dev": dev, "src": 0, "dst": 0, "sw": [p[0] for p in combo], "dw": [p[1] for p in combo], "v": [2.0, 1.0, 2.0, 1.0][:npairs]}]}


# --------------------------------------------------------------------------------------------------------- driver
def key_of(case):
    return hashlib.sha1(json.dumps(case, sort_keys=True).encode()).hexdigest()[:12]


def write_replay(case, what):
    os.makedirs(REPLAYS, exist_ok=True)
    path = os.path.join(REPLAYS, f"bounded_{key_of(case)}.json")
    with open(path, "w") as f:
        json.dump({"property": PROP, "bounded_replay": {"script": "c05.py", "case": case}, "what": what}, f, indent=1)
    return os.path.relpath(path, VERIF)


def main(tier, seed):
    t0 = time.time()
    budget = 16 if tier == "quick" else 240
    seen, failures, samples = set(), [], []
    parts = {}

    def do(case, part):
        k = key_of(case)
        if k in seen:
            return
        seen.add(k)
        parts[part] = parts.get(part, 0) + 1
        bad = run_case(case)
        if bad and len(failures) < 25:
            failures.append({"what": bad[0][:700], "replay": write_replay(case, bad[0])})
        if part == "random" and len(samples) < 3 and 2 <= len(case["ops"]) <= 4 and len(json.dumps(case)) < 1500:
            samples.append(case)

    def sweep(gen, part, share):
        stop = t0 + budget * share
        for case in gen:
            if time.time() > stop:
                return False
            do(case, part)
        return True

    quick = tier == "quick"
    sweep(enum_naming(), "naming configurations (no operations)", 0.15)
    sweep(enum_multi_pair((4, 1), 2, True), "one transfer call, 2 pairs, 4x1 plate, all well combinations", 0.2)
    sweep(enum_multi_pair((2, 2), 2, True), "one transfer call, 2 pairs, 2x2 plate, all well combinations", 0.25)
    sweep(enum_two_ops(2, not quick), "all 2-step histories over 4 wells x {0, half, all}", 0.45)
    sweep(enum_multi_pair((4, 1), 3, not quick), "one transfer call, 3 pairs, 4x1 plate, all well combinations", 0.6 if quick else 0.3)
    if not quick:
        sweep(enum_multi_pair((2, 2), 3, False), "one transfer call, 3 pairs, 2x2 plate, all well combinations", 0.4)
        sweep(enum_multi_pair((4, 1), 4, False), "one transfer call, 4 pairs, 4x1 plate, all well combinations", 0.6)
    i = 0
    while time.time() - t0 < budget:
        do(gen_case(random.Random(f"{seed}:{i}")), "random")
        i += 1
    out = {
        "evaluations": sum(parts.values()),
        "distinct": len(seen),
        "rule": "case = labware specs (geometry, limits, initial volumes, naming) + history of transfer/distribute/dispense/aspirate calls; "
                "distinct = distinct JSON; small-scope enumerations + random.Random(seed:i) histories biased to chains, repeated wells, "
                "emptied-and-refilled wells, zero volumes, LVH splits, troughs, 2-D arguments; every operation of every history is checked",
        "samples": samples,
        "parts": [{"function": "Labware/Trough composition tracking via Evo/FluentWorklist.transfer/distribute/dispense/aspirate: " + p,
                   "kind": "bounded seeded random" if p == "random" else "bounded exhaustive enumeration",
                   "bound": "1-4 labware, <= 8x12 wells, 2-12 operations" if p == "random" else p, "evaluations": n} for p, n in parts.items()],
        "failures": failures,
        "seconds": round(time.time() - t0, 1),
    }
    print(json.dumps(out))
    return 0


def replay(path):
    with open(path if os.path.exists(path) else os.path.join(VERIF, path)) as f:
        case = json.load(f)["bounded_replay"]["case"]
    bad = run_case(case)
    print(f"case: {json.dumps(case)}")
    for b in bad:
        print("VIOLATION:", b)
    print("still fails" if bad else "passes")
    return 1 if bad else 0


if __name__ == "__main__":
    if len(sys.argv) >= 3 and sys.argv[1] == "--replay":
        sys.exit(replay(sys.argv[2]))
    sys.exit(main(sys.argv[1] if len(sys.argv) > 1 else "quick", int(sys.argv[2]) if len(sys.argv) > 2 else 0))
