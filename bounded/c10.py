#!/usr/bin/env python
"""Bounded contract monitor for C10: tip selections encode to the Tecan tip bit mask.

SUSPECTED DEFECTS ON THE UNCHANGED TREE (skipped input regions, nothing else is skipped)
  D1  one-shot iterables (iterator / generator) as `tip` of an entry point that emits MORE THAN ONE record:
        A = Labware("A", 8, 2, min_volume=0, max_volume=10000, initial_volumes=5000); B = Labware("B", 8, 2, min_volume=0, max_volume=10000)
        wl = EvoWorklist(); wl.transfer(A, "A01", B, "A01", 10, tip=iter([1, 2]))
        -> ['A;A;;;1;;10.00;;;3;', 'D;B;;;1;;10.00;;;0;', 'W1;']      (same on FluentWorklist, same for aspirate()/dispense()
      with several wells).  The iterator is consumed by the first record, every later record of the same call gets the
      mask 0, so the two records of the transfer pair do NOT carry the same mask.  One-shot iterables are therefore only
      used with entry points that emit exactly one record (aspirate_well, dispense_well, one-well aspirate/dispense,
      evo_wash).  Re-iterable collections (list, tuple, set, frozenset, deque, dict keys, range, object arrays) are
      checked everywhere.
  Not defects, but representations the statement does not decide; the monitor accepts "rejected" OR "the right mask" for
  them and never a wrong mask ("soft" symbols below): numpy integers 1..8 (rejected by the unchanged tree, also inside
  int arrays), int subclasses / foreign IntEnum members with value 1..8 and True (accepted as the number), bytes objects
  (iterate as ints), the empty collection (emitted as mask 0 = the empty OR), and EVO script commands whose tips are
  distinct but not ascending (rejected by the unchanged tree).

Oracles (own arithmetic and own record parsers; nothing of robotools is used to compute an expectation):
  symbol semantics   "1".."8" -> tip n; "T1".."T8" (looked up BY NAME) -> tip n; mask(n) = 1 << (n - 1); "Any" -> empty field;
                     everything else (0, 9, negatives, 16, 128, 2**70, floats incl. 1.0 / nan / inf, str, None, Fraction,
                     Decimal, complex, nested lists, False, numpy floats, out-of-range numpy ints) must be rejected.
  A/D records        `A;rack;;;pos;;vol;lc;;MASK;` - field 9 must be exactly the decimal literal of the OR of the members
                     (no float, no enum name), "" for Tip.Any / no tip argument; a collection containing Tip.Any or any
                     invalid member is rejected and emits no record; every A and every D record of one
                     aspirate / dispense / transfer call (incl. the extra pairs of split large volumes) carries that mask.
  B;Aspirate/Dispense  argument 0 = OR of the distinct tips, arguments 2..9 = the eight volume slots: slot i holds the
                     volume given for tip i (compared numerically after rounding to 2 decimals), every other slot is the
                     literal 0; repeated tips (in any mix of representations), Tip.Any and invalid members are rejected;
                     the number of selected wells in the selection string (own 7-bit decoder) equals the number of tips.
  B;Wash             argument 0 = OR of the distinct tips in any order; repeats / Tip.Any / invalid members rejected.
  int_to_tip         n in 1..8 -> the member named T<n> whose integer value is 1 << (n - 1); every other int rejected.
Call sequences ("seq" cases, executed first, every one in ONE process on shared worklists): the same selection in
equal-comparing representations one after the other (4 / Tip.T3 / 4.0 / numpy 4 / Fraction(4) ...; 16 / Tip.T5 ...), the
same list object re-used after the caller appended / reversed / cleared it, results of prepare_* helpers clobbered by
the caller before the next call, and long random mixes of all entry points.  Every reported failure is re-checked in a
fresh interpreter; a failure that only shows after earlier cases is written as a sequence with the needed history.
"""
import collections
import decimal
import enum
import fractions
import hashlib
import itertools
import json
import logging
import os
import random
import re
import subprocess
import sys
import time
import warnings

REPO = os.environ.get("PYVC_REPO", "/repo")
sys.path.insert(0, REPO)
VERIF = os.path.dirname(os.path.dirname(os.path.abspath(__file__)))
PROP = "C10"

import numpy as np  # noqa: E402
import robotools  # noqa: E402
from robotools import EvoWorklist, FluentWorklist, Labware  # noqa: E402
from robotools.evotools import commands as evo_commands  # noqa: E402
from robotools.evotools.types import Tip, int_to_tip  # noqa: E402
from robotools.worklists.base import BaseWorklist  # noqa: E402
from robotools.worklists.utils import prepare_aspirate_dispense_parameters  # noqa: E402

assert os.path.realpath(robotools.__file__).startswith(os.path.realpath(REPO) + os.sep), robotools.__file__
logging.disable(logging.CRITICAL)
warnings.simplefilter("ignore")

DEVICES = {"evo": EvoWorklist, "fluent": FluentWorklist, "base": BaseWorklist}
LETTERS = "ABCDEFGHIJKLMNOPQRSTUVWXYZ"
NOARG = object()
ONE_SHOT = ("iter", "gen")


class MyInt(int):
    """an int subclass that is not a Tip"""


OtherEnum = enum.IntEnum("OtherEnum", {f"V{v}": v for v in range(0, 12)})


# ------------------------------------------------------------------ symbols: JSON-able names of tip arguments
def mk(sym):
    """symbol -> the Python object handed to the library"""
    if sym.isdigit() and len(sym) == 1 and sym not in "09":
        return int(sym)
    if sym[0] == "T" and sym[1:].isdigit():
        return getattr(Tip, sym)
    if sym == "Any":
        return Tip.Any
    tag, _, arg = sym.partition(":")
    if tag == "i":
        return int(arg)
    if tag == "f":
        return float(arg)
    if tag == "np":
        dt, _, val = arg.partition(":")
        return getattr(np, dt)(float(val) if "float" in dt else int(val))
    if tag == "sub":
        return MyInt(int(arg))
    if tag == "enum":
        return OtherEnum(int(arg))
    if tag == "b":
        return bool(int(arg))
    if tag == "s":
        return arg
    if tag == "none":
        return None
    if tag == "frac":
        return fractions.Fraction(int(arg))
    if tag == "dec":
        return decimal.Decimal(arg)
    if tag == "c":
        return complex(float(arg), 0.0)
    if tag == "nest":
        return [mk(s) for s in arg.split(",") if s]
    if tag == "bytes":
        return bytes([int(arg)])
    raise KeyError(sym)


def sem(sym):
    """symbol -> ("tip", n) | ("any",) | ("bad",) | ("soft", n)   -- the property statement, nothing else"""
    if sym.isdigit() and len(sym) == 1 and sym not in "09":
        return ("tip", int(sym))
    if sym[0] == "T" and sym[1:].isdigit():
        return ("tip", int(sym[1:]))
    if sym == "Any":
        return ("any",)
    tag, _, arg = sym.partition(":")
    if tag == "i":
        return ("tip", int(arg)) if 1 <= int(arg) <= 8 else ("bad",)
    if tag == "np":
        dt, _, val = arg.partition(":")
        if "int" in dt and 1 <= int(val) <= 8:
            return ("soft", int(val))
        return ("bad",)
    if tag in ("sub", "enum"):
        return ("soft", int(arg)) if 1 <= int(arg) <= 8 else ("bad",)
    if tag == "b":
        return ("soft", 1) if arg == "1" else ("bad",)
    return ("bad",)


def show(sym):
    if sym[0] == "T" or sym == "Any":
        return "Tip." + sym
    tag, _, arg = sym.partition(":")
    if not _:
        return sym
    return {"i": arg, "f": f"float({arg!r})" if arg in ("nan", "inf", "-inf") else arg, "np": "numpy." + arg.replace(":", "(") + ")",
            "sub": f"IntSubclass({arg})", "enum": f"OtherIntEnum({arg})", "b": str(bool(int(arg or 0))) if tag == "b" else "", "s": repr(arg),
            "none": "None", "frac": f"Fraction({arg})", "dec": f"Decimal({arg})", "c": f"complex({arg})", "nest": f"[{arg}]",
            "bytes": f"bytes([{arg}])"}.get(tag, sym)


def show_sel(container, syms):
    if container == "default":
        return "<no tip argument>"
    if container == "scalar":
        return show(syms[0])
    return f"{container}({', '.join(show(s) for s in syms)})"


def build(container, syms):
    """the argument object"""
    if container == "str":
        return "".join(s[2:] for s in syms)
    if container == "bytes":
        return bytes(int(mk(s)) for s in syms)
    if container == "range":
        vals = [int(mk(s)) for s in syms]
        assert vals == list(range(vals[0], vals[0] + len(vals))) if vals else True
        return range(vals[0], vals[0] + len(vals)) if vals else range(0)
    return build_objs(container, [mk(s) for s in syms])


def build_objs(container, objs):
    if container == "scalar":
        return objs[0]
    if container == "list":
        return list(objs)
    if container == "tuple":
        return tuple(objs)
    if container == "set":
        return set(objs)
    if container == "frozenset":
        return frozenset(objs)
    if container == "deque":
        return collections.deque(objs)
    if container == "dictkeys":
        return dict.fromkeys(objs)
    if container == "dictview":
        return dict.fromkeys(objs).keys()
    if container == "iter":
        return iter(list(objs))
    if container == "gen":
        return (o for o in list(objs))
    if container == "intarr":
        return np.array([int(o) for o in objs], dtype=np.int64)
    if container in ("objarr", "objarr_strided", "objarr_F"):
        if container == "objarr":
            a = np.empty(len(objs), dtype=object)
            v = a
        elif container == "objarr_strided":  # a column of a C-ordered 2-D object array (non-contiguous view)
            a = np.empty((len(objs), 2), dtype=object)
            a[:, 1] = "x"
            v = a[:, 0]
        else:  # a row of a Fortran-ordered 2-D object array (non-contiguous view)
            a = np.empty((2, len(objs)), dtype=object, order="F")
            a[1, :] = "x"
            v = a[0, :]
        for i, o in enumerate(objs):
            v[i] = o
        return v
    raise KeyError(container)


def elements(container, syms):
    """semantics of the members the library sees, in iteration order (own model of the container)"""
    if container in ("set", "frozenset", "dictkeys", "dictview"):
        back, objs = {}, [mk(s) for s in syms]
        for s, o in zip(syms, objs):
            if o not in back:  # the first of several equal-comparing members stays in a set / dict
                back[o] = s
        return [sem(back[e]) for e in build_objs(container, objs)]
    out = [sem(s) for s in syms]
    if container in ("intarr", "bytes"):  # members arrive as numpy integers / plain ints of a bytes object
        out = [("soft", e[1]) if e[0] == "tip" else e for e in out]
    if container == "str":
        out = [("bad",) for _ in syms]
    return out


def expect_mask(container, syms):
    """-> ("mask", text) must be emitted | ("reject",) | ("soft", text) rejected or that text"""
    if container == "default":
        return ("mask", "")
    if container == "scalar":
        e = sem(syms[0])
        if e[0] == "any":
            return ("mask", "")
        if e[0] == "bad":
            return ("reject",)
        return ("mask" if e[0] == "tip" else "soft", str(1 << (e[1] - 1)))
    els = elements(container, syms)
    if any(e[0] in ("bad", "any") for e in els):
        return ("reject",)
    m = 0
    for e in els:
        m |= 1 << (e[1] - 1)
    soft = any(e[0] == "soft" for e in els) or not els or container in ("str", "bytes")
    return ("soft" if soft else "mask", str(m))


def expect_evo(container, syms, ordered):
    """-> ("ok"|"soft"|"reject", mask, [tip numbers in the given order])"""
    els = elements(container, syms)
    if any(e[0] in ("bad", "any") for e in els):
        return ("reject", None, None)
    nums = [e[1] for e in els]
    if len(set(nums)) != len(nums):
        return ("reject", None, None)
    m = 0
    for n in nums:
        m |= 1 << (n - 1)
    soft = any(e[0] == "soft" for e in els) or not els or container in ("str", "bytes") or (ordered and nums != sorted(nums))
    return ("soft" if soft else "ok", m, nums)


class Ctx:
    """state shared by the steps of one call sequence"""

    def __init__(self):
        self.wls = {}
        self.objs = []

    def wl(self, dev):
        if dev not in self.wls:
            self.wls[dev] = DEVICES[dev]()
        return self.wls[dev]


_LABS = {}


def lab(name, rows, cols, filled):
    """carrier labware (huge capacity); re-used for a while because constructing one dominates the run time otherwise"""
    k = (name, rows, cols, filled)
    ent = _LABS.get(k)
    if ent is None or ent[1] >= 400:
        ent = _LABS[k] = [Labware(name, rows, cols, min_volume=0, max_volume=1e9, initial_volumes=5e8 if filled else 0), 0]
    ent[1] += 1
    return ent[0]


def tip_arg(c, ctx):
    if "reuse" in c:
        obj, syms = ctx.objs[c["reuse"]]
        for op in c.get("mutate", []):
            if op[0] == "append":
                obj.append(mk(op[1])); syms.append(op[1])
            elif op[0] == "insert0":
                obj.insert(0, mk(op[1])); syms.insert(0, op[1])
            elif op[0] == "reverse":
                obj.reverse(); syms.reverse()
            elif op[0] == "pop":
                obj.pop(); syms.pop()
            elif op[0] == "clear":
                obj.clear(); syms.clear()
            elif op[0] == "set":
                obj[op[1]] = mk(op[2]); syms[op[1]] = op[2]
        container = "list"
    else:
        container, syms = c["container"], list(c["tips"])
        obj = NOARG if container == "default" else build(container, syms)
    ctx.objs.append((obj, syms))
    return obj, container, syms


def fmt_exc(e):
    return f"{type(e).__name__}: {str(e)[:80]}"


# ------------------------------------------------------------------ A;/D; records
def parse_ad(rec):
    f = rec.split(";")
    if f[0] not in ("A", "D") or len(f) != 11:
        raise ValueError(f"not an 11-field A/D record: {rec!r}")
    return {"type": f[0], "rack": f[1], "pos": f[4], "vol": f[6], "lc": f[7], "tiptype": f[8], "mask": f[9], "rec": rec}


def well_id(r, c):
    return f"{LETTERS[r]}{c + 1:02d}"


def check_ad(c, ctx):
    entry, dev = c["entry"], c.get("device", "evo")
    obj, container, syms = tip_arg(c, ctx)
    exp = expect_mask(container, syms)
    kw = {} if obj is NOARG else {"tip": obj}
    vol, pos, lc = c.get("vol", 10.0), c.get("pos", 1), c.get("lc", "")
    wells = c.get("wells", ["A01"])
    if container in ONE_SHOT and (entry == "transfer" or (entry in ("aspirate", "dispense") and len(wells) > 1)):
        return []  # region D1 (see the top of the file)
    head = f"{dev if entry != 'prepare_ad' else 'utils'}.{entry}(tip={show_sel(container, syms)})"
    exc, recs, want_n, want_types = None, [], None, None
    if entry == "prepare_ad":
        try:
            r = prepare_aspirate_dispense_parameters("S", pos, vol, lc, *([] if obj is NOARG else [obj]))
            recs = [{"type": "P", "mask": f"{r[4]}", "rec": repr(r)}]
        except Exception as e:  # noqa
            exc = e
        want_n = 1
    else:
        wl = ctx.wl(dev)
        n0 = len(wl)
        try:
            if entry == "aspirate_well":
                wl.aspirate_well("S", pos, vol, liquid_class=lc, **kw)
                want_n, want_types = 1, "A"
            elif entry == "dispense_well":
                wl.dispense_well("S", pos, vol, liquid_class=lc, **kw)
                want_n, want_types = 1, "D"
            elif entry == "aspirate":
                wl.aspirate(lab("S", 8, 3, True), wells[0] if len(wells) == 1 and c.get("single") else wells, vol, liquid_class=lc, **kw)
                want_n, want_types = len(wells), "A"
            elif entry == "dispense":
                wl.dispense(lab("S", 8, 3, False), wells[0] if len(wells) == 1 and c.get("single") else wells, vol, liquid_class=lc, **kw)
                want_n, want_types = len(wells), "D"
            elif entry == "transfer":
                src, dst = lab("S", 8, 3, True), lab("D", 8, 3, False)
                vols = c.get("vols", [vol] * len(wells))
                wl.transfer(src, wells, dst, c.get("dwells", wells), vols, wash_scheme=c.get("wash", 1), **kw)
                # default max_volume 950: a volume v is moved in ceil(v / 950) aspirate/dispense pairs
                want_n = 2 * sum(-(-int(v * 100) // 95000) for v in vols)
                want_types = "AD"
            else:
                raise KeyError(entry)
        except KeyError:
            raise
        except Exception as e:  # noqa
            exc = e
        recs = [parse_ad(r) for r in list(wl)[n0:] if r[:2] in ("A;", "D;")]
    if exp[0] == "reject" or (exp[0] == "soft" and exc is not None):
        if exc is None:
            return [f"{head}: not rejected, emitted {[r['rec'] for r in recs][:2]}"]
        if recs:
            return [f"{head}: rejected ({fmt_exc(exc)}) but records were emitted: {[r['rec'] for r in recs][:2]}"]
        return []
    if exc is not None:
        return [f"{head}: valid selection (mask {exp[1] or '<empty>'}) refused: {fmt_exc(exc)}"]
    p = []
    if len(recs) != want_n:
        p.append(f"{len(recs)} A/D records, expected {want_n}")
    for i, r in enumerate(recs):
        if r["mask"] != exp[1]:
            p.append(f"tip mask field {r['mask']!r}, expected {exp[1]!r} in {r['rec']}")
            break
        if want_types and r["type"] != want_types[i % len(want_types)]:
            p.append(f"record {i} is {r['type']}, expected {want_types[i % len(want_types)]}")
            break
    if entry == "transfer" and not p:
        for a, d in zip(recs[0::2], recs[1::2]):
            if a["mask"] != d["mask"] or a["vol"] != d["vol"] or a["rack"] != "S" or d["rack"] != "D":
                p.append(f"transfer pair differs: {a['rec']} / {d['rec']}")
                break
    if entry in ("aspirate_well", "dispense_well") and not p:
        want = f"{want_types};S;;;{pos};;{vol:.2f};{lc};;{exp[1]};"
        if recs[0]["rec"] != want:
            p.append(f"record {recs[0]['rec']!r}, expected {want!r}")
    return [f"{head}: " + "; ".join(p[:2])] if p else []


# ------------------------------------------------------------------ B; script commands
def split_args(rec, name):
    m = re.fullmatch(r"B;(\w+)\((.*)\);", rec)
    if not m or m.group(1) not in name:
        raise ValueError(f"not a B;{name} record: {rec!r}")
    return m.group(1), m.group(2).split(",")


def selected_wells(code):
    """own decoder of the EVOware well selection string -> number of selected wells"""
    body = code[4:]
    return sum(bin(ord(ch) - 48).count("1") for ch in body)


def evo_geometry(c, k):
    col, r0 = c.get("col", 0), c.get("r0", 0)
    step = c.get("rstep", 1)
    rows = [r0 + i * step for i in range(k)]
    if rows and rows[-1] >= 16:
        rows = list(range(k))
    return [well_id(r, col) for r in rows]


def check_evo(c, ctx):
    entry = c["entry"]
    obj, container, syms = tip_arg(c, ctx)
    k = len(elements(container, syms))
    if k > 16 or container in ONE_SHOT:
        return []
    status, mask, nums = expect_evo(container, syms, ordered=True)
    wells = evo_geometry(c, k)
    form = c.get("wells_form", "list")
    w_arg = wells
    if form == "array":
        w_arg = np.array(wells)
    elif form == "col2d":
        w_arg = np.array(wells).reshape((k, 1)) if k else np.array(wells)
    elif form == "F":
        w_arg = np.asfortranarray(np.array(wells).reshape((k, 1))) if k else np.array(wells)
    elif form == "tuple":
        w_arg = tuple(wells)
    elif form == "str" and k == 1:
        w_arg = wells[0]
    given = [round(10.126 + 7.25 * j, 3) for j in range(k)] if c.get("vols", "list") == "list" else None
    scalar = c.get("scalar", 25.5)
    v_arg = list(given) if given is not None else scalar
    grid, site, arm = c.get("grid", 30), c.get("site", 2), c.get("arm", 0)
    what = "Aspirate" if "aspirate" in entry else "Dispense"
    head = f"{entry}(tips={show_sel(container, syms)}, wells={wells}, volume={v_arg})"
    exc, out, prep = None, [], None
    try:
        if entry in ("cmd_aspirate", "cmd_dispense"):
            fn = evo_commands.evo_aspirate if entry == "cmd_aspirate" else evo_commands.evo_dispense
            out = [fn(n_rows=16, n_columns=3, wells=w_arg, labware_position=(grid, site), volume=v_arg, liquid_class="LC_1", tips=obj, arm=arm)]
        elif entry in ("wl_aspirate", "wl_dispense"):
            wl = ctx.wl("evo")
            n0 = len(wl)
            try:
                if entry == "wl_aspirate":
                    wl.evo_aspirate(lab("L", 16, 3, True), w_arg, (grid, site), obj, v_arg, "LC_1", arm=arm)
                else:
                    wl.evo_dispense(lab("L", 16, 3, False), w_arg, (grid, site), obj, v_arg, "LC_1", arm=arm)
            finally:
                out = [r for r in list(wl)[n0:] if r.startswith("B;")]
        elif entry == "prep_evo":
            prep = evo_commands.prepare_evo_aspirate_dispense_parameters(
                wells=w_arg, labware_position=(grid, site), volume=v_arg, liquid_class="LC_1", tips=obj, arm=arm, max_volume=950)
        else:
            raise KeyError(entry)
    except KeyError:
        raise
    except Exception as e:  # noqa
        exc = e
    if status == "reject" or (status == "soft" and exc is not None):
        if exc is None:
            return [f"{head}: not rejected: {out or prep}"]
        if out:
            return [f"{head}: rejected ({fmt_exc(exc)}) but emitted {out[:1]}"]
        return []
    if exc is not None:
        return [f"{head}: valid distinct ascending tips (mask {mask}) refused: {fmt_exc(exc)}"]
    p = []
    if entry == "prep_evo":
        tt, vl = prep[4], prep[2]
        names = [getattr(t, "name", repr(t)) for t in tt]
        if not all(isinstance(t, Tip) for t in tt) or names != [f"T{n}" for n in nums]:
            p.append(f"returned tips {names}, expected {[f'T{n}' for n in nums]}")
        want_v = [round(v, 2) for v in given] if given is not None else [round(scalar, 2)] * k
        if [float(v) for v in vl] != want_v and not all(abs(float(a) - b) < 1e-9 for a, b in zip(vl, want_v)) or len(vl) != k:
            p.append(f"returned volumes {vl}, expected {want_v}")
        if c.get("clobber"):  # the caller scribbles over what it got back
            tt.clear(); tt.append(Tip.T8); vl.clear(); vl.extend([999.0] * 8)
            if isinstance(prep[0], list):
                prep[0].clear()
        return [f"{head}: " + "; ".join(p)] if p else []
    if len(out) != 1:
        return [f"{head}: {len(out)} B; records emitted, expected 1"]
    _, a = split_args(out[0], (what,))
    if len(a) != 20:
        return [f"{head}: {len(a)} arguments in {out[0]}"]
    if a[0] != str(mask):
        p.append(f"tip mask {a[0]!r}, expected {str(mask)!r}")
    for i in range(1, 9):
        slot = a[1 + i]
        if i in nums:
            want = round(given[nums.index(i)], 2) if given is not None else round(scalar, 2)
            ok = len(slot) > 2 and slot[0] == slot[-1] == '"'
            try:
                ok = ok and abs(float(slot[1:-1]) - want) < 1e-9
            except ValueError:
                ok = False
            if not ok:
                p.append(f"volume slot {i} is {slot}, expected \"{want}\" (the volume given for tip {i})")
                break
        elif slot != "0":
            p.append(f"volume slot {i} is {slot} although tip {i} is not selected")
            break
    if a[10:14] != ["0"] * 4 or a[1] != '"LC_1"' or a[14:17] != [str(grid), str(site - 1), "1"] or a[18:] != ["0", str(arm)]:
        p.append("fixed arguments changed")
    elif selected_wells(a[17].strip('"')) != k:
        p.append(f"{selected_wells(a[17].strip(chr(34)))} wells selected for {k} tips")
    return [f"{head}: " + "; ".join(p[:2]) + f" in {out[0]}"] if p else []


def check_wash(c, ctx):
    entry = c["entry"]
    obj, container, syms = tip_arg(c, ctx)
    status, mask, nums = expect_evo(container, syms, ordered=False)
    waste, cleaner, arm = c.get("waste", [52, 2]), c.get("cleaner", [52, 1]), c.get("arm", 0)
    head = f"{entry}(tips={show_sel(container, syms)})"
    exc, out, prep = None, [], None
    kw = dict(tips=obj, waste_location=tuple(waste), cleaner_location=tuple(cleaner), arm=arm)
    try:
        if entry == "cmd_wash":
            out = [evo_commands.evo_wash(**kw)]
        elif entry == "wl_wash":
            wl = ctx.wl("evo")
            n0 = len(wl)
            try:
                wl.evo_wash(**kw)
            finally:
                out = [r for r in list(wl)[n0:] if r.startswith("B;")]
        elif entry == "prep_wash":
            prep = evo_commands.prepare_evo_wash_parameters(**kw)
        else:
            raise KeyError(entry)
    except KeyError:
        raise
    except Exception as e:  # noqa
        exc = e
    if status == "reject" or (status == "soft" and exc is not None):
        if exc is None:
            return [f"{head}: not rejected: {out or prep}"]
        if out:
            return [f"{head}: rejected ({fmt_exc(exc)}) but emitted {out[:1]}"]
        return []
    if exc is not None:
        return [f"{head}: valid distinct tips (mask {mask}) refused: {fmt_exc(exc)}"]
    if entry == "prep_wash":
        tt = prep[0]
        names = [getattr(t, "name", repr(t)) for t in tt]
        bad = not all(isinstance(t, Tip) for t in tt) or names != [f"T{n}" for n in nums]
        if c.get("clobber") and isinstance(tt, list):
            tt.clear(); tt.append(Tip.T8)
        return [f"{head}: returned tips {names}, expected {[f'T{n}' for n in nums]}"] if bad else []
    if len(out) != 1:
        return [f"{head}: {len(out)} B; records emitted, expected 1"]
    _, a = split_args(out[0], ("Wash",))
    want = [str(mask), str(waste[0]), str(waste[1] - 1), str(cleaner[0]), str(cleaner[1] - 1), '"3.0"', "500", '"4.0"', "500", "10", "70", "30",
            "1", "0", "1000", str(arm)]
    if a[0] != want[0]:
        return [f"{head}: tip mask {a[0]!r}, expected {want[0]!r} in {out[0]}"]
    if a != want:
        return [f"{head}: arguments {a}, expected {want}"]
    return []


def check_i2t(c, ctx):
    n = c["n"]
    ctx.objs.append((None, []))
    try:
        r = int_to_tip(n)
    except Exception as e:  # noqa
        return [f"int_to_tip({n}) refused: {fmt_exc(e)}"] if 1 <= n <= 8 else []
    if not 1 <= n <= 8:
        return [f"int_to_tip({n}) not rejected, returned {r!r}"]
    if not isinstance(r, Tip) or r.name != f"T{n}" or int(r) != 1 << (n - 1) or f"{r}" != str(1 << (n - 1)):
        return [f"int_to_tip({n}) returned {r!r} (formats as {r}), expected member T{n} with value {1 << (n - 1)}"]
    return []


KINDS = {"ad": check_ad, "evo": check_evo, "wash": check_wash, "i2t": check_i2t}


def run_case(c, ctx=None):
    """-> (list of problems, number of library calls checked, index of the failing call of a sequence)"""
    if c["kind"] == "seq":
        probs, shared, n, bad = [], Ctx(), 0, None
        for i, st in enumerate(c["steps"]):
            q, m, _ = run_case(st, Ctx() if c.get("isolated") else shared)
            n += m
            if q and bad is None:
                bad = i
            probs += [f"call {i + 1} of {len(c['steps'])} in one process: {x}" for x in q]
            if probs and not c.get("isolated"):
                break
        return probs[:3], n, bad
    ctx = ctx or Ctx()
    try:
        return KINDS[c["kind"]](c, ctx), 1, None
    except Exception as e:  # noqa  (the oracle could not interpret what the library produced -> output grammar broken)
        return [f"{c['kind']} case {json.dumps(c)[:160]}: output could not be interpreted: {fmt_exc(e)}"], 1, None


def classify(msg):
    for needle, name in (("not rejected", "accepts an invalid selection"), ("but records were emitted", "emits although rejected"), ("but emitted", "emits although rejected"),
                         ("refused", "refuses a valid selection"), ("tip mask", "wrong mask"), ("volume slot", "wrong volume slot"), ("returned tips", "wrong tips returned"),
                         ("transfer pair", "pair differs"), ("records, expected", "record count"), ("could not be interpreted", "grammar")):
        if needle in msg:
            return name
    return "other"


# ------------------------------------------------------------------ generators
NUMS = [str(n) for n in range(1, 9)]
TIPS = [f"T{n}" for n in range(1, 9)]
VALID = NUMS + TIPS
BAD = ["i:0", "i:9", "i:-1", "i:-2", "i:-7", "i:-8", "i:-9", "i:10", "i:12", "i:16", "i:32", "i:64", "i:128", "i:255", "i:256", "i:-128",
       "i:2147483648", "i:18446744073709551616", "i:-18446744073709551617", "i:1180591620717411303424",
       "f:1.0", "f:8.0", "f:0.0", "f:-0.0", "f:2.5", "f:4.000000000000001", "f:nan", "f:inf", "f:-inf", "f:1e308", "f:5e-324", "f:128.0", "f:-1.0",
       "np:float64:2.0", "np:float32:4.0", "np:int64:0", "np:int64:9", "np:int8:-1", "np:uint8:128", "np:int64:16",
       "s:1", "s:T1", "s:", "none", "frac:3", "dec:3", "c:3", "nest:1", "nest:1,T2", "nest:", "b:0", "bytes:1", "enum:0", "enum:9", "sub:0", "sub:9"]
SOFT = ["np:int64:1", "np:int64:4", "np:int64:8", "np:int8:3", "np:uint8:8", "np:int32:2", "np:uint64:5", "np:int16:7", "sub:1", "sub:4", "sub:8",
        "enum:3", "enum:8", "b:1"]
UNHASHABLE = ("nest:",)
NOT_SCALAR = ("nest:", "s:", "bytes:")  # as a bare `tip` these ARE collections; they are generated as containers instead
WELL_ENTRIES = [(e, d) for e in ("aspirate_well", "dispense_well") for d in ("evo", "fluent", "base")] + [("prepare_ad", "evo")]
LAB_ENTRIES = [(e, d) for e in ("aspirate", "dispense", "transfer") for d in ("evo", "fluent")]
EVO_ENTRIES = ["cmd_aspirate", "cmd_dispense", "wl_aspirate", "wl_dispense", "prep_evo"]
WASH_ENTRIES = ["cmd_wash", "wl_wash", "prep_wash"]
REITERABLE = ["list", "tuple", "set", "frozenset", "deque", "dictkeys", "dictview", "objarr", "objarr_strided", "objarr_F"]


def value_of(sym):
    """integer value the object compares equal to (only used to FIND confusable representations, never as an oracle)"""
    if sym in TIPS:
        return 1 << (int(sym[1:]) - 1)
    if sym == "Any":
        return -1
    o = mk(sym)
    try:
        return int(o) if o == int(o) else None
    except Exception:  # noqa
        return None


def eq_group(v):
    g = [f"i:{v}" if not 1 <= v <= 8 else str(v), f"f:{float(v)}", f"np:int64:{v}", f"sub:{v}", f"frac:{v}", f"dec:{v}", f"c:{v}"]
    if 0 <= v <= 11:
        g.append(f"enum:{v}")
    if v in (0, 1):
        g.append(f"b:{v}")
    if v == -1:
        g.append("Any")
    g += [t for t in TIPS if value_of(t) == v]
    return g


def twin_sym(s):
    """number <-> member that compares equal to it (4 <-> Tip.T3, 8 <-> Tip.T4, Tip.T5 <-> 16 ...)"""
    v = value_of(s)
    if s in NUMS:
        return next((x for x in TIPS if value_of(x) == v), s)
    return str(v) if 1 <= v <= 8 else f"i:{v}"


def ad_case(entry, dev, container, syms, **kw):
    c = {"kind": "ad", "entry": entry, "device": dev, "container": container, "tips": list(syms)}
    c.update(kw)
    return c


def lab_kw(entry, i):
    """deterministic variety of wells / volumes for the labware-level entry points"""
    i = i % 6
    if entry == "transfer":
        return [{"wells": ["A01"], "vols": [10.0]}, {"wells": ["A01", "B01"], "vols": [10.0, 1000.0]}, {"wells": ["B02", "A01", "H03"], "vols": [1900.5, 5.25, 950.0], "wash": "reuse"},
                {"wells": ["A01", "B01"], "dwells": ["C03", "A02"], "vols": [55.5, 7.0], "wash": "flush"}, {"wells": ["H01"], "vols": [2851.0], "wash": 3},
                {"wells": ["A01", "A02", "A03"], "vols": [1.0, 2.0, 3.0], "wash": 2}][i]
    return [{"wells": ["A01"], "single": True}, {"wells": ["A01", "B01"]}, {"wells": ["C02", "A01", "H03"], "vol": 33.33}, {"wells": ["A01"]},
            {"wells": ["A01", "B01", "C01", "D01", "E01", "F01", "G01", "H01"], "vol": 1.0}, {"wells": ["B03", "B02"], "vol": 949.99}][i]


def subset_variants(m):
    """the members of subset m (bit i = tip i+1) in several orders / representations / containers"""
    mem = [n for n in range(1, 9) if m >> (n - 1) & 1]
    r = random.Random(m)
    mixed = [r.choice([str(n), f"T{n}"]) for n in mem]
    dup = mixed + [r.choice([str(n), f"T{n}"]) for n in r.choices(mem, k=r.randint(1, 4))]
    r.shuffle(dup)
    out = [("list", [str(n) for n in mem]), ("tuple", [f"T{n}" for n in reversed(mem)]), ("list", dup), ("list", mixed),
           ("set", dup), ("frozenset", mixed[::-1]), ("objarr", dup), ("deque", mixed), ("dictkeys", dup), ("objarr_strided", mixed[::-1]),
           ("objarr_F", dup), ("dictview", mixed), ("iter", dup), ("gen", mixed), ("intarr", [str(n) for n in mem]), ("bytes", [str(n) for n in mem])]
    if mem == list(range(mem[0], mem[0] + len(mem))):
        out.append(("range", [str(n) for n in mem]))
    return mem, mixed, out


def gen_seq_cases(tier):
    """call sequences in one process: equal-comparing representations, caller-side mutation, clobbered results"""
    thorough = tier != "quick"

    def fam(kind, container, syms):
        if kind == "adw":
            return ad_case("aspirate_well", "evo", container, syms)
        if kind == "add":
            return ad_case("dispense_well", "fluent", container, syms)
        if kind == "prep":
            return ad_case("prepare_ad", "evo", container, syms)
        if kind == "transfer":
            return ad_case("transfer", "evo", container, syms, wells=["A01", "B01"], vols=[10.0, 1000.0])
        if kind == "evo":
            return {"kind": "evo", "entry": "cmd_aspirate", "container": container, "tips": list(syms)}
        if kind == "evod":
            return {"kind": "evo", "entry": "wl_dispense", "container": container, "tips": list(syms)}
        return {"kind": "wash", "entry": "cmd_wash", "container": container, "tips": list(syms)}

    fams = ["adw", "add", "prep", "evo", "evod", "wash"] + (["transfer"] if thorough else [])
    for v in [1, 2, 3, 4, 5, 6, 7, 8, 16, 32, 64, 128, -1, 0, 9]:
        g = eq_group(v)
        core = [x for x in g if x in VALID or x.startswith("i:") or x == "Any"]
        for a, b in itertools.permutations(g, 2):
            if sem(a)[0] == "bad" and sem(b)[0] == "bad":
                continue
            if not thorough and a not in core and b not in core:
                continue
            for k in fams:
                for cont in (("list", "tuple") if thorough else ("list",)):
                    yield {"kind": "seq", "steps": [fam(k, cont, [a]), fam(k, cont, [b])]}
                for pre in (["T2"], ["1"]):
                    for pa, pb in ((pre + [a], pre + [b]), ([a] + pre, [b] + pre)) if thorough else ((pre + [a], pre + [b]),):
                        yield {"kind": "seq", "steps": [fam(k, "list", pa), fam(k, "tuple", pb), fam(k, "list", pa)]}
            if not any(a.startswith(x) or b.startswith(x) for x in NOT_SCALAR):
                for k in ("adw", "add", "prep") + (("transfer",) if thorough else ()):
                    yield {"kind": "seq", "steps": [fam(k, "scalar", [a]), fam(k, "scalar", [b]), fam(k, "list", [a]), fam(k, "scalar", [a])]}
    # the same selection through different entry points one after the other (state shared between functions)
    for sel in (["4"], ["T3"], ["T4", "4"], ["1", "T2", "3"], ["T8"], ["8"], ["2", "T2"]):
        tw = [twin_sym(s) for s in sel]
        steps = []
        for k in ("adw", "wash", "evo", "add", "prep", "evod"):
            steps += [fam(k, "list", sel), fam(k, "list", tw)]
        yield {"kind": "seq", "steps": steps}
        yield {"kind": "seq", "steps": steps[::-1]}
    # the caller re-uses ONE list object and changes it between the calls
    muts = [[["append", "T3"]], [["reverse"]], [["append", "4"]], [["pop"]], [["set", 0, "T8"]], [["clear"]], [["append", "T1"]], [["append", "1"]],
            [["insert0", "8"]], [["append", "Any"]], [["pop"]], [["append", "i:0"]], [["clear"], ["append", "T4"]], [["append", "8"]]]
    for base in (["1", "2"], ["T3"], ["4", "T4"], [], ["T1", "T2"]):
        for k in ("adw", "add", "prep", "wash", "transfer"):
            steps = [fam(k, "list", base)]
            for mu in muts:
                st = fam(k, "list", [])
                st.update({"reuse": 0, "mutate": mu})
                steps.append(st)
            yield {"kind": "seq", "steps": steps}
    for base, adds in ((["1"], ["T2", "3", "T5", "8"]), (["T1", "2"], ["4", "T8"]), ([], ["T3", "T4", "5"])):
        for k in ("evo", "evod"):
            steps = [fam(k, "list", base)]
            for s in adds:
                st = fam(k, "list", [])
                st.update({"reuse": 0, "mutate": [["append", s]]})
                steps.append(st)
            st = fam(k, "list", [])
            st.update({"reuse": 0, "mutate": [["clear"], ["append", "T3"]]})
            steps.append(st)
            st = fam(k, "list", [])
            st.update({"reuse": 0, "mutate": [["set", 0, "4"]]})
            steps.append(st)
            yield {"kind": "seq", "steps": steps}
    # results of the prepare_* helpers clobbered by the caller, then the same and the equal-comparing call again
    for sel in (["1"], ["T3"], ["4"], ["1", "T2"], ["T3", "T4"], ["3", "4"], ["2", "T3", "8"], NUMS, TIPS):
        tw = [twin_sym(s) for s in sel]
        for vols in ("list", "scalar"):
            pe = {"kind": "evo", "entry": "prep_evo", "container": "list", "tips": sel, "vols": vols, "clobber": True}
            steps = [pe, dict(pe), dict(pe, clobber=False), {"kind": "evo", "entry": "cmd_aspirate", "container": "list", "tips": sel, "vols": vols},
                     {"kind": "evo", "entry": "cmd_dispense", "container": "tuple", "tips": sel, "vols": vols}]
            if expect_evo("list", tw, True)[0] != "reject":
                steps += [dict(pe, tips=tw), dict(pe, tips=tw, clobber=False), {"kind": "evo", "entry": "cmd_aspirate", "container": "list", "tips": tw, "vols": vols}]
            yield {"kind": "seq", "steps": steps}
        pw = {"kind": "wash", "entry": "prep_wash", "container": "list", "tips": sel, "clobber": True}
        yield {"kind": "seq", "steps": [pw, dict(pw), dict(pw, clobber=False), {"kind": "wash", "entry": "cmd_wash", "container": "list", "tips": sel},
                                        dict(pw, tips=tw), dict(pw, tips=tw, clobber=False), {"kind": "wash", "entry": "wl_wash", "container": "tuple", "tips": tw}]}


def gen_enumerated(tier):
    thorough = tier != "quick"
    yield {"kind": "i2t", "n": 0}
    for n in list(range(-300, 301)) + [2**31 - 1, 2**31, 2**32, 2**63, 2**64, -2**63, -2**64 - 1, 2**70]:
        yield {"kind": "i2t", "n": n}
    # scalars, no argument, every invalid / soft symbol alone and in every position of short collections
    for e, d in WELL_ENTRIES + LAB_ENTRIES:
        yield ad_case(e, d, "default", [], **(lab_kw(e, 1) if (e, d) in LAB_ENTRIES else {}))
        for i, s in enumerate(VALID + ["Any"] + BAD + SOFT):
            if not s.startswith(NOT_SCALAR):
                yield ad_case(e, d, "scalar", [s], **(lab_kw(e, i) if (e, d) in LAB_ENTRIES else {"pos": 1 + i % 96, "vol": [10.0, 0.0, 7.126, 949.995][i % 4]}))
    for i, b in enumerate(BAD + SOFT + ["Any"]):
        for ctxt in ([], ["1"], ["T2"], ["1", "T3"], ["T8", "8"], ["T4", "4", "3"]):
            for pos in range(len(ctxt) + 1):
                sel = ctxt[:pos] + [b] + ctxt[pos:]
                for e, d in WELL_ENTRIES:
                    yield ad_case(e, d, "list" if (pos + i) % 2 else "tuple", sel)
                for j, (e, d) in enumerate(LAB_ENTRIES):
                    if thorough or (i + j + pos) % 3 == 0:
                        yield ad_case(e, d, "list", sel, **lab_kw(e, i + pos))
                for e in EVO_ENTRIES:
                    yield {"kind": "evo", "entry": e, "container": "list" if pos % 2 else "tuple", "tips": sel, "vols": "list" if i % 2 else "scalar"}
                for e in WASH_ENTRIES:
                    yield {"kind": "wash", "entry": e, "container": "list", "tips": sel}
                if not b.startswith(UNHASHABLE):
                    yield ad_case("aspirate_well", "evo", "set", sel)
                    yield ad_case("dispense_well", "fluent", "frozenset", sel)
                    yield {"kind": "wash", "entry": "cmd_wash", "container": "set", "tips": sel}
                yield ad_case("aspirate_well", "fluent", "objarr", sel)
                yield ad_case("dispense_well", "evo", "iter", sel)
    # strings / bytes / ranges / int arrays as the collection
    for e, d in WELL_ENTRIES:
        for chars in ([], ["s:1"], ["s:1", "s:2"], ["s:T", "s:1"]):
            yield ad_case(e, d, "str", chars)
        for lo, hi in [(1, 8), (1, 1), (8, 8), (3, 5), (0, 2), (7, 9), (0, 0), (9, 9), (-1, 1), (1, 0), (2, 8), (1, 7)]:
            yield ad_case(e, d, "range", [str(n) if 1 <= n <= 8 else f"i:{n}" for n in range(lo, hi + 1)])
        for vals in ([1], [8], [1, 2, 3], [8, 8, 1], [0], [9], [1, 9], [255], [4, 4, 4, 4]):
            yield ad_case(e, d, "bytes", [str(n) if 1 <= n <= 8 else f"i:{n}" for n in vals])
            yield ad_case(e, d, "intarr", [str(n) if 1 <= n <= 8 else f"i:{n}" for n in vals])
    for lo, hi in [(1, 8), (1, 1), (8, 8), (3, 5), (0, 2), (7, 9), (2, 8)]:
        rs = [str(n) if 1 <= n <= 8 else f"i:{n}" for n in range(lo, hi + 1)]
        for e in EVO_ENTRIES:
            yield {"kind": "evo", "entry": e, "container": "range", "tips": rs}
        for e in WASH_ENTRIES:
            yield {"kind": "wash", "entry": e, "container": "range", "tips": rs}
    # all 255 subsets: ascending numbers, descending members, mixed, shuffled with repeats, every container
    for m in range(1, 256):
        mem, mixed, variants = subset_variants(m)
        for vi, (cont, sel) in enumerate(variants):
            for e, d in WELL_ENTRIES:
                yield ad_case(e, d, cont, sel, pos=1 + m % 96)
            for j, (e, d) in enumerate(LAB_ENTRIES):
                if thorough or vi < 3 or (vi + j + m) % 7 == 0:
                    yield ad_case(e, d, cont, sel, **lab_kw(e, m + vi + j))
            if cont not in ONE_SHOT:
                for e in WASH_ENTRIES:
                    yield {"kind": "wash", "entry": e, "container": cont, "tips": sel, "arm": m % 2}
            else:
                yield {"kind": "wash", "entry": "cmd_wash", "container": cont, "tips": mixed}
        asc = [("list", [str(n) for n in mem]), ("tuple", [f"T{n}" for n in mem]), ("list", mixed), ("objarr", mixed), ("deque", [f"T{n}" for n in mem]),
               ("list", [f"T{n}" for n in reversed(mem)]), ("intarr", [str(n) for n in mem]), ("objarr_strided", mixed)]
        for vi, (cont, sel) in enumerate(asc):
            for j, e in enumerate(EVO_ENTRIES):
                for vols in ("list", "scalar"):
                    if thorough or vi < 3 or (vi + j + m) % 5 == 0:
                        yield {"kind": "evo", "entry": e, "container": cont, "tips": sel, "vols": vols, "col": (m + vi) % 3, "r0": (m * 7 + j) % (17 - len(mem)),
                               "wells_form": ["list", "array", "col2d", "F", "tuple"][(m + vi + j) % 5], "arm": (m + j) % 2}
    # every sequence of up to 3 of the 16 tip symbols (order, repetition, mixed representation)
    for L in (0, 1, 2, 3):
        for sel in itertools.product(VALID, repeat=L):
            sel = list(sel)
            h = sum(VALID.index(s) * 17**i for i, s in enumerate(sel))
            for j, (e, d) in enumerate(WELL_ENTRIES):
                if L <= 2 or thorough or (h + j) % 2 == 0:
                    yield ad_case(e, d, "tuple" if h % 3 == 0 else "list", sel)
            for j, (e, d) in enumerate(LAB_ENTRIES):
                if L <= 2 or thorough or (h + j) % 11 == 0:
                    yield ad_case(e, d, "list", sel, **lab_kw(e, h + j))
            for j, e in enumerate(EVO_ENTRIES):
                if L <= 2 or thorough or (h + j) % 5 < 2:
                    yield {"kind": "evo", "entry": e, "container": "list", "tips": sel, "vols": "list" if (h + j) % 2 else "scalar"}
            for j, e in enumerate(WASH_ENTRIES):
                if L <= 2 or thorough or (h + j) % 3 == 0:
                    yield {"kind": "wash", "entry": e, "container": "tuple" if h % 2 else "list", "tips": sel}
    if thorough:
        for sel in itertools.product(VALID, repeat=4):
            yield ad_case("aspirate_well", "evo", "list", list(sel))
            yield {"kind": "wash", "entry": "cmd_wash", "container": "list", "tips": list(sel)}


def rand_selection(rng, ascending=False):
    r = rng.random()
    if ascending:
        mem = sorted(rng.sample(range(1, 9), rng.choice([1, 1, 2, 2, 3, 4, 5, 8])))
        sel = [rng.choice([str(n), f"T{n}"]) for n in mem]
    else:
        L = rng.choice([0, 1, 1, 2, 2, 3, 3, 4, 5, 6, 8, 10, 12, 16])
        pool = rng.choice([VALID, VALID, NUMS, TIPS, ["4", "T3", "T4", "8", "3"], ["1", "T1", "8", "T8"]])
        sel = [rng.choice(pool) for _ in range(L)]
    if r < 0.12:
        sel.insert(rng.randint(0, len(sel)), rng.choice(BAD + ["Any"]))
    elif r < 0.2:
        sel.insert(rng.randint(0, len(sel)), rng.choice(SOFT))
    elif r < 0.24 and sel:
        i = rng.randrange(len(sel))
        g = [x for x in eq_group(value_of(sel[i])) if x != sel[i]]
        sel[i] = rng.choice(g)
    return sel


def rand_container(rng, sel, one_shot_ok):
    conts = ["list"] * 4 + ["tuple"] * 2 + ["objarr", "objarr_strided", "objarr_F", "deque"]
    if not any(s.startswith(UNHASHABLE) for s in sel) and "f:nan" not in sel:
        conts += ["set", "frozenset", "dictkeys", "dictview"]
    if one_shot_ok:
        conts += ["iter", "gen"]
    return rng.choice(conts)


def rand_single(rng):
    k = rng.random()
    if k < 0.45:
        e, d = rng.choice(WELL_ENTRIES + LAB_ENTRIES)
        sel = rand_selection(rng)
        kw = lab_kw(e, rng.randrange(6)) if (e, d) in LAB_ENTRIES else {"pos": rng.randint(1, 384), "vol": rng.choice([10.0, 0.5, 123.456, 949.99, 0.0]),
                                                                         "lc": rng.choice(["", "Water_DispZmax", "LC 2"])}
        one = (e, d) in WELL_ENTRIES or (e != "transfer" and len(kw["wells"]) == 1)
        if rng.random() < 0.1 and sel and not sel[0].startswith(NOT_SCALAR):
            return ad_case(e, d, "scalar", sel[:1], **kw)
        return ad_case(e, d, rand_container(rng, sel, one), sel, **kw)
    if k < 0.8:
        sel = rand_selection(rng, ascending=rng.random() < 0.75)
        cont = rng.choice(["list", "list", "tuple", "objarr", "deque", "objarr_strided"])
        n = max(1, len(sel))
        return {"kind": "evo", "entry": rng.choice(EVO_ENTRIES), "container": cont, "tips": sel, "vols": rng.choice(["list", "scalar"]), "col": rng.randrange(3),
                "r0": rng.randrange(max(1, 17 - n)), "rstep": rng.choice([1, 1, 2]) if n <= 8 else 1, "wells_form": rng.choice(["list", "array", "col2d", "F", "tuple"]),
                "arm": rng.randrange(2), "grid": rng.randint(1, 67), "site": rng.randint(1, 128), "scalar": rng.choice([25.5, 0.0, 949.994, 3.14159])}
    sel = rand_selection(rng, ascending=rng.random() < 0.3)
    if rng.random() < 0.5:
        rng.shuffle(sel)
    return {"kind": "wash", "entry": rng.choice(WASH_ENTRIES), "container": rand_container(rng, sel, True), "tips": sel, "arm": rng.randrange(2),
            "waste": [rng.randint(1, 67), rng.randint(1, 128)], "cleaner": [rng.randint(1, 67), rng.randint(1, 128)]}


def twin_of(rng, c):
    """the same case with members replaced by equal-comparing representations"""
    t = json.loads(json.dumps(c))
    t.pop("reuse", None); t.pop("mutate", None)
    sel = []
    for s in t.get("tips", []):
        v = value_of(s) if not s.startswith(("nest:", "s:", "none", "bytes:")) and s != "f:nan" and "inf" not in s else None
        g = eq_group(v) if v is not None and -200 <= v <= 300 else [s]
        sel.append(rng.choice(g) if rng.random() < 0.7 else s)
    t["tips"] = sel
    if t.get("container") in ("set", "frozenset", "dictkeys", "dictview", "scalar", "range", "str", "bytes", "intarr", "default"):
        t["container"] = "list"
    if t["kind"] == "ad" and t["container"] in ONE_SHOT:
        t["container"] = "tuple"
    return t


def rand_seq(rng):
    steps = []
    for _ in range(rng.choice([2, 3, 3, 5, 8, 12, 25])):
        r = rng.random()
        if steps and r < 0.35:
            steps.append(twin_of(rng, rng.choice(steps)))
        elif steps and r < 0.45:
            j = rng.randrange(len(steps))
            if steps[j].get("container") == "list" and "reuse" not in steps[j] and steps[j]["kind"] != "i2t":
                st = json.loads(json.dumps(steps[j]))
                st["tips"] = []
                st["reuse"] = j
                st["mutate"] = [rng.choice([["append", rng.choice(VALID)], ["reverse"], ["pop"], ["append", rng.choice(VALID)], ["clear"]])]
                if st["mutate"][0][0] == "pop" and not steps[j]["tips"]:
                    st["mutate"] = [["append", "T1"]]
                # a later reuse of the same object sees all earlier mutations: keep at most one reuse per object
                if not any(s.get("reuse") == j for s in steps):
                    steps.append(st)
                    continue
            steps.append(rand_single(rng))
        else:
            c = rand_single(rng)
            if c["kind"] in ("evo", "wash") and c["entry"].startswith("prep") and rng.random() < 0.5:
                c["clobber"] = True
            steps.append(c)
    return {"kind": "seq", "steps": steps}


# ------------------------------------------------------------------ driver
def key_of(c):
    return json.dumps(c, sort_keys=True)


def part_of(c):
    if c["kind"] == "seq":
        return "call sequences in one process (all entry points)"
    if c["kind"] == "ad":
        return {"prepare_ad": "worklists.utils.prepare_aspirate_dispense_parameters"}.get(c["entry"], f"{DEVICES[c['device']].__name__}.{c['entry']} (A;/D; records)")
    if c["kind"] == "i2t":
        return "evotools.types.int_to_tip"
    return {"cmd_aspirate": "evotools.commands.evo_aspirate", "cmd_dispense": "evotools.commands.evo_dispense", "wl_aspirate": "EvoWorklist.evo_aspirate",
            "wl_dispense": "EvoWorklist.evo_dispense", "prep_evo": "evotools.commands.prepare_evo_aspirate_dispense_parameters", "cmd_wash": "evotools.commands.evo_wash",
            "wl_wash": "EvoWorklist.evo_wash", "prep_wash": "evotools.commands.prepare_evo_wash_parameters"}[c["entry"]]


def replay_path(c):
    short = hashlib.sha1(key_of(c).encode()).hexdigest()[:10]
    return os.path.join("replays", PROP, f"bounded_{short}.json")


def write_replay(c, what):
    rel = replay_path(c)
    os.makedirs(os.path.join(VERIF, "replays", PROP), exist_ok=True)
    with open(os.path.join(VERIF, rel), "w") as fh:
        json.dump({"property": PROP, "bounded_replay": {"script": "c10.py", "case": c}, "what": what}, fh, indent=1)
    return rel


def fails_in_fresh_process(rel):
    try:
        r = subprocess.run([sys.executable, os.path.abspath(__file__), "--replay", os.path.join(VERIF, rel)], capture_output=True, timeout=120,
                           env=dict(os.environ, PYVC_REPO=REPO), cwd=VERIF)
        return r.returncode == 1
    except Exception:  # noqa
        return True


HIST_SEARCHES = [3]  # at most this many failures are traced back through the history of the run (each costs several interpreter starts)


def settle_replay(c, what, history, bad):
    """write the smallest replay that fails in a fresh interpreter: the failing call alone, the sequence up to it, the whole
    sequence, or - when the failure depends on calls of earlier cases - a sequence with the needed history"""
    cands = []
    if c["kind"] == "seq" and not c.get("isolated") and bad is not None:
        inner = what.split("in one process: ", 1)[-1]
        if "reuse" not in c["steps"][bad]:
            cands.append((c["steps"][bad], inner))
        if bad + 1 < len(c["steps"]):
            cands.append(({"kind": "seq", "steps": c["steps"][:bad + 1]}, f"call {bad + 1} of {bad + 1} in one process: {inner}"))
    cands.append((c, what))
    for cand, w in cands:
        rel = write_replay(cand, w)
        if fails_in_fresh_process(rel):
            return rel, w
        os.remove(os.path.join(VERIF, rel))
    if HIST_SEARCHES[0] <= 0:
        return None, what
    HIST_SEARCHES[0] -= 1
    for k in (1, 3, 10, 30, 100, 300, 1000, 3000, 10000, len(history)):
        k = min(k, len(history))
        seq = {"kind": "seq", "isolated": True, "steps": history[len(history) - k:] + [c]}
        w = f"only after {k} earlier case(s) in the same process: {what}"
        rel = write_replay(seq, w)
        if fails_in_fresh_process(rel):
            return rel, w
        os.remove(os.path.join(VERIF, rel))
        if k == len(history):
            break
    return write_replay(c, what), f"(not reproducible in a fresh process, depends on the whole run) {what}"


def main():
    if len(sys.argv) >= 3 and sys.argv[1] == "--replay":
        path = sys.argv[2] if os.path.isabs(sys.argv[2]) or os.path.exists(sys.argv[2]) else os.path.join(VERIF, sys.argv[2])
        case = json.load(open(path))["bounded_replay"]["case"]
        probs, _, _ = run_case(case)
        print(f"replay {PROP} case: {json.dumps(case)[:2000]}")
        for q in probs:
            print("VIOLATION", q)
        print("still fails" if probs else "passes on this tree")
        sys.exit(1 if probs else 0)
    tier = sys.argv[1] if len(sys.argv) > 1 else "quick"
    seed = int(sys.argv[2]) if len(sys.argv) > 2 else 0
    budget = 14 if tier == "quick" else 220
    t0 = time.time()
    rng = random.Random(seed)
    seen, pending, fail_kinds, samples, history = set(), [], collections.Counter(), [], []
    parts = collections.OrderedDict()
    evaluations = 0

    def feed(c, source):
        nonlocal evaluations
        k = hashlib.blake2b(key_of(c).encode(), digest_size=12).digest()  # canonical JSON of the case, hashed to bound memory
        if k in seen:
            return
        seen.add(k)
        probs, n, bad = run_case(c)
        evaluations += n
        name = part_of(c)
        p = parts.setdefault((name, source), {"function": name, "kind": "bounded " + ("enumeration" if source == "enumerated" else f"seeded random (seed {seed})"),
                                              "bound": BOUNDS[source if c["kind"] != "seq" else "seq_" + source], "evaluations": 0})
        p["evaluations"] += n
        if len(samples) < 5 and len(seen) % 9973 in (1, 4000) and c["kind"] != "i2t":
            samples.append(c)
        if probs:
            culprit = c["steps"][bad] if c["kind"] == "seq" and bad is not None else c
            cat = (part_of(culprit), classify(probs[0]))
            fail_kinds[cat] += 1
            if fail_kinds[cat] <= 2 and len(pending) < 10:
                pending.append((c, probs[0], len(history), bad))
        if len(history) < 20000:
            history.append(c)

    for c in gen_seq_cases(tier):
        feed(c, "enumerated")
    n_enum_seq = len(seen)
    g = rand_seq_stream(rng)
    t_seq = time.time() + (1.5 if tier == "quick" else 25)
    while time.time() < t_seq:
        feed(next(g), "random")
    complete = True
    for c in gen_enumerated(tier):
        feed(c, "enumerated")
        if time.time() - t0 > budget * 0.9:
            complete = False
            break
    i = 0
    while time.time() - t0 < budget - (4 if pending and tier == "quick" else 0):
        i += 1
        feed(rand_single(rng) if i % 4 else rand_seq(rng), "random")
    failures = []
    for c, what, hlen, bad in pending:
        rel, what = settle_replay(c, what, history[:hlen], bad)
        if rel and not any(f["replay"] == rel for f in failures):
            failures.append({"what": what[:400], "replay": rel})
    out = {"evaluations": evaluations, "distinct": len(seen),
           "rule": "a case is (entry point, device, container type, sequence of tip symbols [numbers 1..8, Tip members, Tip.Any, invalid and undecided "
                   "representations], geometry/volumes) or a sequence of such calls executed in one process; evaluations counts checked library calls, "
                   "distinct = distinct canonical JSON of the top-level case; enumeration first (call sequences, scalars, invalid members in every position, "
                   "all 255 subsets in 16 orders/containers, all sequences of length <= 3 over the 16 tip symbols), then seeded random cases and sequences",
           "samples": samples[:5], "parts": list(parts.values()), "failures": failures, "seconds": round(time.time() - t0, 1),
           "failure_classes": len(fail_kinds), "enumeration_complete": complete, "enumerated_call_sequences": n_enum_seq}
    print(json.dumps(out))


def rand_seq_stream(rng):
    while True:
        yield rand_seq(rng)


BOUNDS = {
    "enumerated": f"every scalar symbol (16 valid, Tip.Any, {len(BAD)} invalid, {len(SOFT)} undecided) and no argument; each invalid/undecided symbol at every position of 6 context "
                  "collections; all 255 subsets of the 8 tips x 16 order/representation/container variants (ascending numbers, descending members, mixed, shuffled with "
                  "repeats; list, tuple, set, frozenset, deque, dict keys/view, object arrays incl. non-contiguous views, iterator, generator, int array, bytes, range); "
                  "all 4369 sequences of length 0..3 over the 16 tip symbols (thorough: also length 4 for aspirate_well / evo_wash); int_to_tip on -300..300 and 8 huge ints; "
                  "quick tier thins the labware-level (aspirate/dispense/transfer) and EVO-command combinations of the longer selections and runs the length-3 sequences "
                  "through every second (entry point, device) pair of the well-level entry points",
    "random": "selections of 0..16 members (valid, invalid, undecided, equal-comparing substitutes), all containers, all entry points, wells/volumes/positions/arms random",
    "seq_enumerated": "for every tip value v in 1..8, 16, 32, 64, 128, -1, 0, 9: every ordered pair of distinct equal-comparing representations (number, member, float, numpy int, "
                      "int subclass, Fraction, Decimal, complex, foreign enum, bool) called one after the other through 6-7 entry points, alone and next to a second tip, scalar and "
                      "collection; one list object re-used across 15 caller-side mutations (5 bases x 5 entry points, ascending growth for EVO commands); prepare_* results "
                      "clobbered by the caller then called again (9 selections); same selection through all entry points in both orders",
    "seq_random": "sequences of 2..25 random calls over all entry points on shared worklists; 35% of the steps repeat an earlier step in an equal-comparing representation, "
                  "10% re-use a caller-mutated list object, prepare_* results clobbered at random",
}


if __name__ == "__main__":
    main()
