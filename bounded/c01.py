#!/usr/bin/env python
"""Bounded contract monitor for C01: the emitted worklist reproduces the tracked labware state when executed.

A case = device (evo/fluent) + worklist settings + labware set + a sequence of operations (aspirate, dispense, transfer,
distribute, wash/flush/commit/comment).  After EVERY successful operation three independently obtained states are compared:
  (S) the state obtained by executing all records emitted so far with the own .gwl interpreter below (own parser, own
      position<->well mapping per device, exact Fractions, tip contents carry the composition of the aspirated cavity),
  (L) what the Labware objects report (volumes, composition arrays, get_well_composition),
  (M) an operation-level model of what the user asked for (volumes only; order independent).
Oracles
  volume      S == L within 0.005 per rounded record that touched the cavity (1e-9 when every number is a multiple of 1/4,
              so that floats, the two-decimal format and Fractions are all exact), M == L within 1e-6 (1e-9 exact).
  composition S == L per component name (own naming rule for default component names), arrays finite and in [0, 1].
  routing     per operation: aspirate/dispense give exactly one A/D per non-zero entry, in order, with the rack and the
              device-specific number of the named well; transfer gives A,D(,wash) triples whose (src number, dst number)
              -> volume map equals the requested one (repeats summed), every step <= max_volume, wash token as requested;
              distribute gives one R whose decoded destination set (range minus exclusions) is the requested set and whose
              source range is the whole trough column (EVO; the Fluent source range is the known finding, skipped).
  format      every record parses strictly (field counts, integer positions, two-decimal volumes, W1..W4/W/WD/F/B/S/C).
  acceptance  an operation that is feasible in any execution order (every cavity: cur - out >= min, cur + in <= max) with
              valid arguments must not be refused (auto_split on: whatever the volume).
Cases: small-scope enumerations (distribute to every subset of small plates; every ordered pair-of-pairs same-plate transfer;
first/middle/last well of every geometry 1..16 x {1,2,3,12,24} and troughs 1..16 virtual rows) + seeded random sequences
biased towards repeated wells, same-labware chains, 2-D / broadcast arguments, volumes 0 / at the limits / far above
max_volume, dyadic (exact), centi and off-grid volumes (1/3, nextafter), component names that collide, troughs built with
the generic Labware constructor, two labwares created from the same initial_volumes array object.
Not claimed: a transfer of (almost) exactly k x max_volume for a max_volume that is not a multiple of 1/4 (the last split
step can come out a few ulp above max_volume and the transfer is refused; round-off of the splitting helper, see C06).
"""
import hashlib
import json
import logging
import math
import os
import random
import re
import sys
import time
import warnings
from fractions import Fraction as F

REPO = os.environ.get("PYVC_REPO", "/repo")
sys.path.insert(0, REPO)
VERIF = os.path.dirname(os.path.dirname(os.path.abspath(__file__)))
PROP = "C01"

import numpy as np  # noqa: E402
import robotools  # noqa: E402

assert os.path.realpath(robotools.__file__).startswith(os.path.realpath(REPO) + os.sep), robotools.__file__
logging.disable(logging.CRITICAL)
warnings.simplefilter("ignore")
DEVICES = {"evo": robotools.EvoWorklist, "fluent": robotools.FluentWorklist}
ROWS = "ABCDEFGHIJKLMNOPQRSTUVWXYZ"


class Bad(Exception):
    """a record that the interpreter cannot execute / an observation that contradicts the property"""


# ------------------------------------------------------------------ independent model: wells, numbering, records
def wid(r, c):
    return f"{ROWS[r]}{c + 1:02d}"


def wrc(w):
    return ROWS.index(w[0]), int(w[1:]) - 1


def flatF(x):
    """column-major flattening of a scalar / list / rectangular list of lists (own implementation)"""
    if not isinstance(x, list):
        return [x]
    if x and isinstance(x[0], list):
        return [x[i][j] for j in range(len(x[0])) for i in range(len(x))]
    return list(x)


def bcast(x, n):
    return x * n if len(x) == 1 else x


class Lw:
    """independent model of one labware: cavities with exact volume and absolute amounts per component name"""

    def __init__(self, spec, device):
        self.spec, self.name, self.trough = spec, spec["name"], spec["trough"]
        self.R, self.C = spec["rows"], spec["cols"]
        self.flu_tr = self.trough and device == "fluent"
        self.lo, self.hi = F(spec["min"]), F(spec["max"])
        self.n = self.C if self.trough else self.R * self.C
        self.vol, self.amt = [], []
        for k in range(self.n):
            r, c = self.rc(k)
            v = F(spec["init"][c] if self.trough else spec["init"][r][c])
            self.vol.append(v)
            self.amt.append({self.cname(r, c): v} if v > 0 else {})

    def rc(self, k):
        return (0, k) if self.trough else divmod(k, self.C)

    def cname(self, r, c):
        names = self.spec.get("names")
        if self.trough and self.spec.get("generic"):     # Labware(rows=1, virtual_rows=R): plate-style naming of a one-row labware
            n = (names or {}).get(wid(0, c))
            return n if n is not None else self.name
        if self.trough:
            n = names[c] if names else None
            return n if n is not None else (f"{self.name}.column_{c + 1:02d}" if self.C > 1 else self.name)
        n = (names or {}).get(wid(r, c))
        return n if n is not None else (f"{self.name}.{wid(r, c)}" if self.R > 1 else self.name)

    def cav(self, w):
        r, c = wrc(w)
        assert r < self.R and c < self.C, (self.name, w)
        return c if self.trough else r * self.C + c

    def pos(self, w):
        r, c = wrc(w)
        return 1 + c if self.flu_tr else 1 + c * self.R + r

    def cav_at(self, p):
        if p < 1:
            raise Bad(f"position {p} < 1 on {self.name}")
        c, r = (p - 1, 0) if self.flu_tr else divmod(p - 1, self.R)
        if c >= self.C:
            raise Bad(f"position {p} outside {self.name} ({self.R}x{self.C})")
        return c if self.trough else r * self.C + c

    def wells_of(self, k):
        r, c = self.rc(k)
        return [wid(vr, c) for vr in sorted({0, self.R - 1})] if self.trough else [wid(r, c)]


NUM = re.compile(r"^\d+(\.\d*)?([eE][-+]?\d+)?$")


def parse(rec):
    """strict parser of one .gwl record -> tuple"""
    if not isinstance(rec, str) or "\n" in rec or "\r" in rec:
        raise Bad(f"not a single-line record: {rec!r}")
    f = rec.split(";")
    k = f[0]
    if k in ("A", "D"):
        if len(f) != 11 or not re.fullmatch(r"\d+", f[4]) or not re.fullmatch(r"\d+\.\d\d", f[6]) or f[8] != "" \
                or not re.fullmatch(r"\d*", f[9]):
            raise Bad(f"malformed {k} record: {rec!r}")
        return (k, f[1], int(f[4]), F(f[6]), f[7])
    if k == "R":
        ints = [4, 5, 9, 10, 13, 14, 15]
        if len(f) < 16 or any(not re.fullmatch(r"\d+", f[i]) for i in ints) or not NUM.match(f[11]) \
                or any(not re.fullmatch(r"\d+", x) for x in f[16:]) or f[15] not in ("0", "1"):
            raise Bad(f"malformed R record: {rec!r}")
        return ("R", dict(src=f[1], s0=int(f[4]), s1=int(f[5]), dst=f[6], d0=int(f[9]), d1=int(f[10]), vol=F(float(f[11])),
                          lc=f[12], diti=int(f[13]), multi=int(f[14]), dir=int(f[15]), excl=[int(x) for x in f[16:]]))
    if rec in ("W;", "W1;", "W2;", "W3;", "W4;", "WD;"):
        return ("W", rec)
    if rec == "F;":
        return ("F",)
    if rec == "B;":
        return ("B",)
    if k == "S" and len(f) == 2 and re.fullmatch(r"\d+", f[1]):
        return ("S", int(f[1]))
    if k == "C" and len(f) == 2:
        return ("C", f[1])
    raise Bad(f"unknown / malformed record: {rec!r}")


class Sim:
    """interpreter of the Tecan worklist records on the independent labware model"""

    def __init__(self, specs, device):
        self.device = device
        self.lw = {s["name"]: Lw(s, device) for s in specs}
        self.tip = None                     # fractions {component: share} of what the current tip holds
        self.touch = {n: [0] * m.n for n, m in self.lw.items()}    # rounded (off-grid) records per cavity
        self.used = {n: set() for n in self.lw}
        self.n_off, self.minv = 0, None

    def rack(self, name):
        if name not in self.lw:
            raise Bad(f"record addresses unknown rack {name!r}")
        return self.lw[name]

    def take(self, m, k, v, off):
        old = m.vol[k]
        frac = {n: a / old for n, a in m.amt[k].items() if a > 0} if old > 0 else None
        m.vol[k] = old - v
        s = max(F(0), (old - v) / old) if old > 0 else F(0)
        m.amt[k] = {n: a * s for n, a in m.amt[k].items()}
        self.mark(m, k, off)
        return frac

    def put(self, m, k, v, frac, off):
        m.vol[k] += v
        for n, f in (frac or {}).items():
            m.amt[k][n] = m.amt[k].get(n, F(0)) + F(f) * v
        if v > 0 or off:    # smallest filling after a dispense: scales the effect of the two-decimal rounding on the shares
            after = m.vol[k] if m.vol[k] > 0 else F(1, 1000)
            self.minv = after if self.minv is None else min(self.minv, after)
        self.mark(m, k, off)

    def mark(self, m, k, off):
        self.used[m.name].add(k)
        if off:
            self.touch[m.name][k] += 1
            self.n_off += 1

    def step(self, p, off=False, comp=None, rsrc=None):
        """p: parsed record; comp: explicit composition of a directly dispensed liquid; rsrc: (rack, column) of an R source
        when the source fields are not to be decoded (known finding, Fluent)"""
        if p[0] == "A":
            m = self.rack(p[1])
            self.tip = self.take(m, m.cav_at(p[2]), p[3], off)
        elif p[0] == "D":
            m = self.rack(p[1])
            self.put(m, m.cav_at(p[2]), p[3], self.tip if comp is None else comp, off)
        elif p[0] == "R":
            r = p[1]
            if r["d0"] > r["d1"] or any(not r["d0"] <= x <= r["d1"] for x in r["excl"]) or len(set(r["excl"])) != len(r["excl"]):
                raise Bad(f"R record with an empty/invalid destination range: {r}")
            if rsrc is None:
                m = self.rack(r["src"])
                cavs = {m.cav_at(x) for x in range(r["s0"], r["s1"] + 1)}
                if len(cavs) != 1:
                    raise Bad(f"R source range {r['s0']}..{r['s1']} is not one trough column of {m.name}")
                k = cavs.pop()
            else:
                m, k = self.rack(rsrc[0]), rsrc[1]
            d = self.rack(r["dst"])
            targets = [x for x in range(r["d0"], r["d1"] + 1) if x not in r["excl"]]
            frac = self.take(m, k, r["vol"] * len(targets), False)
            for x in targets:
                self.put(d, d.cav_at(x), r["vol"], frac, False)
            self.tip = None
        elif p[0] in ("W", "F"):
            self.tip = None


# ------------------------------------------------------------------ the operation-level model (what the user asked for)
def isdy(x):
    x = F(x)
    return x.denominator in (1, 2, 4) and abs(x) < 2 ** 40


def oncenti(v):
    return abs(v * 100 - round(v * 100)) < 1e-9


def specs_exact(specs):
    key = id(specs)
    if key not in _EXACT or _EXACT[key][0] is not specs:
        _EXACT.clear()
        _EXACT[key] = (specs, all(isdy(x) for sp in specs for x in [sp["min"], sp["max"]] + (
            sp["init"] if sp["trough"] else [y for row in sp["init"] for y in row])))
    return _EXACT[key][1]


_EXACT = {}


def comment_lines(label):
    return [ln.strip() for ln in (label or "").split("\n") if ln.strip()]


def plan(op, model, specs, wl, device):
    """-> dict(outs, ins, must, nums, plus what the records of this operation must look like)"""
    t = op["op"]
    P = dict(outs=[], ins=[], must=True, nums=[], off=False, comments=comment_lines(op.get("label")))
    name = lambda i: specs[i]["name"]  # noqa: E731
    if t in ("aspirate", "dispense"):
        m = model[name(op["lw"])]
        wells, vols = flatF(op["wells"]), flatF(op["vols"])
        vols = bcast(vols, len(wells))
        assert len(wells) == len(vols)
        P["recs"] = [("A" if t == "aspirate" else "D", m.name, m.pos(w), F(v)) for w, v in zip(wells, vols) if v > 0]
        P["outs" if t == "aspirate" else "ins"] = [(m.name, m.cav(w), F(v)) for w, v in zip(wells, vols)]
        P["nums"] = vols
        if t == "dispense" and isinstance(op.get("comps"), list):
            P["comps"] = [{k: F(x) for k, x in c.items()} for c, v in zip(op["comps"], vols) if v > 0]
    elif t == "transfer":
        s, d = model[name(op["src"])], model[name(op["dst"])]
        sw, dw, vols = flatF(op["sw"]), flatF(op["dw"]), flatF(op["vols"])
        n = max(len(sw), len(dw), len(vols))
        sw, dw, vols = bcast(sw, n), bcast(dw, n), bcast(vols, n)
        assert len(sw) == len(dw) == len(vols) == n
        P["pairs"] = {}
        for a, b, v in zip(sw, dw, vols):
            P["outs"].append((s.name, s.cav(a), F(v)))
            P["ins"].append((d.name, d.cav(b), F(v)))
            if v > 0:
                key = (s.pos(a), d.pos(b))
                P["pairs"][key] = P["pairs"].get(key, F(0)) + F(v)
        P["npos"] = sum(1 for v in vols if v > 0)
        P["nums"] = vols
        if not wl["auto_split"] and any(v > wl["max_volume"] for v in vols):
            P["must"] = False
        if wl["auto_split"] and not oncenti(wl["max_volume"]):
            P["off"] = True
        if wl["auto_split"] and not isdy(wl["max_volume"]):
            # round-off zone of k * max_volume for a non-dyadic max_volume: the last split step can come out a few ulp above
            # max_volume and the transfer is refused (float noise of the splitting helper, see C06) -> no acceptance claim
            for v in vols:
                q = F(v) / F(wl["max_volume"])
                if round(q) >= 2 and abs(q - round(q)) <= F(1, 10 ** 9) * q:
                    P["must"] = False
    elif t == "distribute":
        s, d = model[name(op["src"])], model[name(op["dst"])]
        dw, v = flatF(op["dw"]), op["vol"]
        P["outs"] = [(s.name, op["col"], F(v) * len(dw))]
        P["ins"] = [(d.name, d.cav(w), F(v)) for w in dw]
        P["dst_pos"] = sorted(d.pos(w) for w in dw)
        assert len(set(P["dst_pos"])) == len(dw), "generator: distribute needs pairwise distinct positions"
        P["nums"] = [v]
        P["comments"] = comment_lines(op.get("label"))
    else:
        P["must"] = True
    nums = [x for x in P["nums"]]
    P["off"] = P["off"] or any(not oncenti(x) for x in nums)
    # robust feasibility: holds in whatever order the steps are executed
    exact = all(isdy(x) for x in nums) and isdy(wl["max_volume"]) and specs_exact(specs)
    P["exact"] = exact
    eps = 0 if exact else F(1, 10 ** 6)
    tot_out, tot_in = {}, {}
    for (n_, k, v) in P["outs"]:
        tot_out[(n_, k)] = tot_out.get((n_, k), 0) + v
    for (n_, k, v) in P["ins"]:
        tot_in[(n_, k)] = tot_in.get((n_, k), 0) + v
    for (n_, k), v in tot_out.items():
        if model[n_].vol[k] - v < model[n_].lo + eps:
            P["must"] = False
    for (n_, k), v in tot_in.items():
        if model[n_].vol[k] + v > model[n_].hi - eps:
            P["must"] = False
    P["delta"] = {key: tot_in.get(key, 0) - tot_out.get(key, 0) for key in set(tot_in) | set(tot_out)}
    return P


def apply_plan(P, model):
    for (n_, k), dv in P["delta"].items():
        model[n_].vol[k] += dv


# ------------------------------------------------------------------ running the real thing
def build(spec, arrays):
    """arrays: float64 arrays already handed to earlier labwares; `init_ref` re-uses such an array object (as user scripts do)"""
    kw = dict(min_volume=spec["min"], max_volume=spec["max"])
    if spec.get("init_ref") is not None:
        init = arrays[spec["init_ref"]]
    elif spec["trough"] and not spec.get("as_array"):
        init = list(spec["init"])
    else:
        init = np.array(spec["init"], dtype=float)
    arrays.append(init)
    if spec["trough"] and spec.get("generic"):
        return robotools.Labware(spec["name"], 1, spec["cols"], virtual_rows=spec["rows"], initial_volumes=init, component_names=spec.get("names"), **kw)
    if spec["trough"]:
        return robotools.Trough(spec["name"], spec["rows"], spec["cols"], initial_volumes=init, column_names=spec.get("names"), **kw)
    return robotools.Labware(spec["name"], spec["rows"], spec["cols"], initial_volumes=init, component_names=spec.get("names"), **kw)


def _layout(a):
    """every other 2-D argument is handed over in column-major (Fortran) memory layout: same content, same shape -
    results must not depend on the memory layout of an argument"""
    if isinstance(a, np.ndarray) and a.ndim == 2 and min(a.shape) > 1 and (a.shape[0] + a.shape[1]) % 2 == 0:
        return np.asfortranarray(a)
    return a


def run_op(wl, labs, op, tipfrac):
    t = op["op"]
    A = (lambda x: _layout(np.array(x)) if isinstance(x, list) else x) if op.get("np") else (lambda x: x)  # noqa: E731
    kw = dict(op.get("kw") or {})
    if t == "aspirate":
        wl.aspirate(labs[op["lw"]], A(op["wells"]), A(op["vols"]), label=op.get("label"), **kw)
    elif t == "dispense":
        comps = op.get("comps")
        if comps == "tip":
            n = len(flatF(op["wells"]))
            comps = [{k: float(v) for k, v in (tipfrac or {}).items()} for _ in range(n)]
        wl.dispense(labs[op["lw"]], A(op["wells"]), A(op["vols"]), label=op.get("label"), compositions=comps, **kw)
    elif t == "transfer":
        wl.transfer(labs[op["src"]], A(op["sw"]), labs[op["dst"]], A(op["dw"]), A(op["vols"]), label=op.get("label"),
                    wash_scheme=op.get("wash", 1), partition_by=op.get("pb", "auto"), **kw)
    elif t == "distribute":
        wl.distribute(labs[op["src"]], op["col"], labs[op["dst"]], A(op["dw"]), volume=op["vol"], label=op.get("label") or "", **kw)
    elif t == "wash":
        wl.wash(op["scheme"])
    elif t == "flush":
        wl.flush()
    elif t == "commit":
        wl.commit()
    elif t == "comment":
        wl.comment(op["text"])
    elif t == "decontaminate":
        wl.decontaminate()
    else:
        raise AssertionError(t)


def wash_token(op, wl):
    w = op.get("wash", 1)
    if w == "flush":
        return ("F",)
    if w == "reuse":
        return None
    return ("W", "W;" if wl["diti_mode"] else f"W{int(w)};")


def check_records(op, P, recs, model, specs, wl, device):
    """routing / format oracle for the records of ONE operation; recs are parsed records"""
    t = op["op"]
    out = []
    ncom = len(P["comments"])
    if t in ("aspirate", "dispense", "transfer", "distribute"):
        if [r for r in recs[:ncom]] != [("C", c) for c in P["comments"]] or any(r[0] == "C" for r in recs[ncom:]):
            out.append(f"{t}: comment records {[r for r in recs if r[0] == 'C']} do not render the label {op.get('label')!r} first")
        body = [r for r in recs if r[0] != "C"]
    if t in ("aspirate", "dispense"):
        got = [r[:4] for r in body]
        exp = P["recs"]
        if len(got) != len(exp) or any(g[:3] != e[:3] or abs(g[3] - e[3]) > F(5001, 10 ** 6) for g, e in zip(got, exp)):
            out.append(f"{t}: records {[(g[0], g[1], g[2], float(g[3])) for g in got]} do not address the named wells; expected "
                       f"{[(e[0], e[1], e[2], float(e[3])) for e in exp]}")
    elif t == "transfer":
        sname, dname = specs[op["src"]]["name"], specs[op["dst"]]["name"]
        tok, i, pairs, cnt, npairs = wash_token(op, wl), 0, {}, {}, 0
        while i < len(body):
            if body[i][0] == "B":
                i += 1
                continue
            if body[i][0] != "A" or i + 1 >= len(body) or body[i + 1][0] != "D":
                out.append(f"transfer: records are not A,D pairs at body index {i}: {body[i:i + 3]}")
                break
            a, d = body[i], body[i + 1]
            i += 2
            if a[1] != sname or d[1] != dname:
                out.append(f"transfer: pair addresses racks {a[1]!r}->{d[1]!r}, requested {sname!r}->{dname!r}")
            if a[3] != d[3]:
                out.append(f"transfer: aspirated {float(a[3])} but dispensed {float(d[3])}")
            if a[3] > F(wl["max_volume"]) + F(5001, 10 ** 6):
                out.append(f"transfer: step of {float(a[3])} exceeds max_volume {wl['max_volume']}")
            key = (a[2], d[2])
            pairs[key] = pairs.get(key, F(0)) + a[3]
            cnt[key] = cnt.get(key, 0) + 1
            npairs += 1
            if tok is not None:
                if i >= len(body) or body[i] != tok:
                    out.append(f"transfer: expected wash record {tok} after the pair, got {body[i] if i < len(body) else None}")
                else:
                    i += 1
        exp = P["pairs"]
        if set(pairs) != set(exp):
            out.append(f"transfer: (source number, destination number) pairs in the records {sorted(pairs)} differ from the requested {sorted(exp)}")
        else:
            for key in exp:
                if abs(pairs[key] - exp[key]) > F(5, 1000) * cnt[key] + F(1, 10 ** 9):
                    out.append(f"transfer: pair {key} moves {float(pairs[key])} in the records, requested {float(exp[key])}")
        if not wl["auto_split"] and npairs != P["npos"]:
            out.append(f"transfer without auto_split: {npairs} A/D pairs for {P['npos']} non-zero volumes")
    elif t == "distribute":
        if len(body) != 1 or body[0][0] != "R":
            out.append(f"distribute: expected exactly one R record, got {body}")
            return out
        r = body[0][1]
        s = model[specs[op["src"]]["name"]]
        if r["src"] != s.name or r["dst"] != specs[op["dst"]]["name"]:
            out.append(f"distribute: R addresses racks {r['src']!r}->{r['dst']!r}")
        if device == "evo" and (r["s0"], r["s1"]) != (1 + op["col"] * s.R, (op["col"] + 1) * s.R):   # Fluent: known finding
            out.append(f"distribute: R source range {r['s0']}..{r['s1']} is not trough column {op['col']} of {s.R} virtual rows")
        got = sorted(x for x in range(r["d0"], r["d1"] + 1) if x not in r["excl"])
        if got != P["dst_pos"]:
            out.append(f"distribute: R record dispenses into positions {got}, requested {P['dst_pos']}")
        if abs(r["vol"] - F(op["vol"])) > F(1, 10 ** 9):
            out.append(f"distribute: R volume {float(r['vol'])} != requested {op['vol']}")
        if r["vol"] > F(wl["max_volume"]) or float(r["multi"] * r["vol"]) > wl["max_volume"] * (1 + 1e-12) or r["multi"] < 1:
            out.append(f"distribute: multi_disp {r['multi']} x {float(r['vol'])} vs max_volume {wl['max_volume']}")
    else:
        exp = {"wash": [("W", "W;" if wl["diti_mode"] else f"W{int(op.get('scheme', 1))};")], "flush": [("F",)], "commit": [("B",)],
               "decontaminate": [("W", "WD;")], "comment": [("C", c) for c in comment_lines(op.get("text"))]}[t]
        if recs != exp:
            out.append(f"{t}: records {recs} != {exp}")
    return out


def compare(sim, model, labs, specs, exact, full):
    out = []
    tolc = 1e-6
    if sim.n_off:
        tolc = None if not sim.minv else 1e-6 + 0.011 * sim.n_off / float(sim.minv)
        if tolc is not None and tolc > 0.02:
            tolc = None
    for spec, lab in zip(specs, labs):
        m, mm = sim.lw[spec["name"]], model[spec["name"]]
        V = lab.volumes
        if V.shape != ((1, m.C) if m.trough else (m.R, m.C)):
            return [f"{m.name}: volumes shape {V.shape}"]
        comp = lab.composition
        for nm, arr in comp.items():
            if arr.shape != V.shape or not np.isfinite(arr).all() or (arr < -1e-9).any() or (arr > 1 + 1e-9).any():
                out.append(f"{m.name}: composition array of {nm!r} is not a finite share in [0,1]: {arr.tolist()}")
        ks = range(m.n) if (full and m.n <= 96) else sorted(sim.used[m.name] | {0, m.n - 1})
        Vl = V.tolist()
        for k in range(m.n):
            r, c = m.rc(k)
            lv = Vl[r][c]
            if lv == m.vol[k] == mm.vol[k]:
                continue
            tol = (1e-9 if exact else 1e-6 + 0.005 * sim.touch[m.name][k]) + 1e-12 * abs(lv)
            if not abs(lv - float(m.vol[k])) <= tol:
                out.append(f"{m.name}.{wid(r, c)}: executing the records gives {float(m.vol[k])}, the Labware reports {lv}")
            if not abs(lv - float(mm.vol[k])) <= (1e-9 if exact else 1e-6) + 1e-12 * abs(lv):
                out.append(f"{m.name}.{wid(r, c)}: the requested operations give {float(mm.vol[k])}, the Labware reports {lv}")
        if tolc is None:
            continue
        for k in ks:
            r, c = m.rc(k)
            if m.vol[k] <= F(1, 10 ** 6) + F(5, 1000) * sim.touch[m.name][k]:
                continue
            exp = {n: float(a / m.vol[k]) for n, a in m.amt[k].items()}
            got = {n: float(arr[r, c]) for n, arr in comp.items() if arr[r, c] > 0 or n in exp}
            views = [("composition", got)] + [(f"get_well_composition({w})", dict(lab.get_well_composition(w))) for w in m.wells_of(k)]
            for vn, g in views:
                bad = [n for n in set(exp) | set(g) if not abs(exp.get(n, 0.0) - g.get(n, 0.0)) <= tolc]
                if bad:
                    out.append(f"{m.name}.{wid(r, c)} {vn}: executing the records gives {{{', '.join(f'{n}: {exp.get(n, 0.0):.6g}' for n in sorted(bad))}}}"
                               f", the Labware reports {{{', '.join(f'{n}: {g.get(n, 0.0):.6g}' for n in sorted(bad))}}}")
                    break
    return out


def check_case(case):
    """-> (list of failure strings, number of operations that succeeded, number of pipetting records)"""
    device, wlc, specs = case["device"], case["wl"], case["labwares"]
    arrays = []
    labs = [build(s, arrays) for s in specs]
    wl = DEVICES[device](max_volume=wlc["max_volume"], auto_split=wlc["auto_split"], diti_mode=wlc.get("diti_mode", False))
    sim = Sim(specs, device)
    model = {s["name"]: Lw(s, device) for s in specs}
    fails, nok, npip, exact = [], 0, 0, True
    for i, op in enumerate(case["ops"]):
        P = plan(op, model, specs, wlc, device)
        exact = exact and P["exact"]
        n0 = len(wl)
        try:
            run_op(wl, labs, op, sim.tip)
        except Exception as e:  # noqa
            if P["must"]:
                fails.append(f"op {i} ({op['op']}): feasible operation with valid arguments was refused: {type(e).__name__}: {e}")
            break
        nok += 1
        try:
            recs = [parse(r) for r in list(wl)[n0:]]
            fails += [f"op {i} {x}" for x in check_records(op, P, recs, model, specs, wlc, device)]
            comps = list(P.get("comps") or [])
            for p in recs:
                npip += p[0] in "ADR"
                comp = comps.pop(0) if (p[0] == "D" and comps) else None
                rsrc = (specs[op["src"]]["name"], op["col"]) if (p[0] == "R" and device == "fluent" and op["op"] == "distribute") else None
                sim.step(p, off=P["off"], comp=comp, rsrc=rsrc)
        except Bad as e:
            fails.append(f"op {i} ({op['op']}): {e}")
            break
        apply_plan(P, model)
        fails += [f"after op {i} ({op['op']}): {x}" for x in compare(sim, model, labs, specs, exact, full=(i == len(case["ops"]) - 1))]
        if fails:
            break
    return fails, nok, npip


# ------------------------------------------------------------------ generators
NAMES = ["P", "P2", "T", "Tr", "plate A", "src.1", "dst", "A", "Stock_1"]
LABELS = [None, None, None, "step", " two\nlines ", "x"]


def gridval(rng, grid, lo, hi):
    """a float in [lo, hi] on the grid of the case, biased to the ends; None when the interval is empty"""
    lo, hi = F(lo), F(hi)
    if hi < lo:
        return None
    q = {"dyadic": 4, "centi": 100}.get(grid)
    if q:
        a, b = math.ceil(lo * q), math.floor(hi * q)
        if b < a:
            return None
        return rng.choice([a, b, b] + [rng.randint(a, b) for _ in range(5)] + [rng.randint(a, min(b, a + 40 * q)) for _ in range(2)]) / q
    x = float(lo) + rng.random() * float(hi - lo)
    x = rng.choice([x, x, x, round(x, 3), round(x, 3), round(x, 1), float(hi), float(lo), float(lo + (hi - lo) / 3), math.nextafter(float(hi), 0.0)])
    return x if lo <= F(x) <= hi else None


def shape(rng, flat, allow_scalar=True):
    """one of the equivalent argument shapes of a flat list (scalar, singleton, list, 2-D column-major)"""
    n = len(flat)
    if len(set(map(str, flat))) == 1 and allow_scalar and rng.random() < 0.5:
        return rng.choice([flat[0], [flat[0]], [[flat[0]]]])
    divs = [a for a in range(1, n + 1) if n % a == 0]
    if n > 1 and rng.random() < 0.35:
        a = rng.choice(divs)
        return [[flat[j * a + i] for j in range(n // a)] for i in range(a)]
    return list(flat)


def gen_labwares(rng, grid, wmax, need_trough=False):
    n = rng.choice([1, 2, 2, 2, 3])
    specs = []
    for idx, name in enumerate(rng.sample(NAMES, n)):
        trough = rng.random() < 0.4 or (need_trough and idx == 0)
        if trough:
            R, C = rng.choice([1, 2, 3, 4, 8, 16, rng.randint(1, 16)]), rng.choice([1, 1, 2, 3, 4])
        else:
            R, C = rng.choice([(1, 1), (1, 3), (2, 1), (3, 1), (2, 2), (2, 2), (3, 2), (3, 2), (2, 3), (4, 3), (3, 4), (5, 2), (16, 1),
                               (1, 24), (8, 12), (rng.randint(1, 16), rng.randint(1, 24)), (16, 24) if rng.random() < 0.3 else (4, 6)])
        scale = rng.choice([0.5, 2, 2, 10, 40])
        vmax = gridval(rng, grid, scale * wmax, scale * wmax * 1.05) or float(math.ceil(scale * wmax)) + 1
        vmin = rng.choice([0, 0, 0, gridval(rng, grid, 0, F(vmax) / 10) or 0])
        def cell():
            u = rng.random()
            if u < 0.25:
                return rng.choice([0, vmin, vmax])
            return (gridval(rng, grid, vmin, vmax) if u < 0.65 else gridval(rng, grid, F(vmax) / 4, F(vmax) * F(3, 4))) or 0
        names = None
        mode = rng.choice(["default", "default", "named", "collide"])
        if trough:
            init = [cell() for _ in range(C)]
            if mode != "default":
                pool = ["water", "acid", name, f"{name}.column_01"] if mode == "collide" else [f"L{c}" for c in range(C)]
                names = [(rng.choice(pool) if mode == "collide" else pool[c]) if (init[c] > 0 and rng.random() < 0.8) else None for c in range(C)]
        else:
            init = [[cell() for _ in range(C)] for _ in range(R)]
            if mode != "default":
                pool = ["water", "acid", name, f"{name}.A01", "T"]
                names = {wid(r, c): (rng.choice(pool) if mode == "collide" else f"L{r}_{c}")
                         for r in range(R) for c in range(C) if init[r][c] > 0 and rng.random() < 0.8}
        spec = dict(name=name, trough=trough, rows=R, cols=C, min=vmin, max=vmax, init=init, names=names)
        if trough and rng.random() < 0.15:      # a trough built with the generic constructor
            spec.update(generic=True, names={wid(0, c): n for c, n in enumerate(names) if n is not None} if names else None)
        specs.append(spec)
    if rng.random() < 0.12:                     # a second labware created from the very same initial_volumes array object
        i = rng.randrange(len(specs))
        specs[i]["as_array"] = True
        specs.append(dict(specs[i], name=specs[i]["name"] + "_b", init_ref=i))
    return specs


def pick_wells(rng, m, n, pool_size=None, want=None):
    """n wells drawn with replacement from a small pool (collisions); want='out'/'in' prefers wells that can give / take"""
    allw = [wid(r, c) for c in range(m.C) for r in range(m.R)]
    if want and rng.random() < 0.85:
        good = [w for w in allw if (m.vol[m.cav(w)] > m.lo if want == "out" else m.vol[m.cav(w)] < m.hi)]
        allw = good or allw
    pool = rng.sample(allw, min(len(allw), pool_size or rng.choice([1, 2, 3, 4, 6])))
    return [rng.choice(pool) for _ in range(n)]


KW = [{}, {}, {}, {"liquid_class": "Water_DispZmax"}, {"tip": 3}, {"tip": [1, 2]}, {"rack_id": "bc01", "rack_type": "96 Well"},
      {"tube_id": "t7", "forced_rack_type": "frt", "liquid_class": "LC 1"}]


def gen_op(rng, grid, device, wl, specs, model):
    ms = [model[s["name"]] for s in specs]
    margin = 0 if grid == "dyadic" else F(2, 100)
    wmax = F(wl["max_volume"])
    troughs = [i for i, m in enumerate(ms) if m.trough]
    t = rng.choice(["transfer"] * 9 + ["aspirate"] * 3 + ["dispense"] * 3 + ["distribute"] * (5 if troughs else 0) + ["misc"] * 2)
    if t in ("aspirate", "dispense"):
        i = rng.randrange(len(ms))
        m = ms[i]
        wells = pick_wells(rng, m, rng.choice([1, 1, 2, 3, 4, 6]), want="out" if t == "aspirate" else "in")
        used, vols = {}, []
        for w in wells:
            k = m.cav(w)
            room = (m.vol[k] - m.lo if t == "aspirate" else m.hi - m.vol[k]) - used.get(k, 0) - margin
            v = gridval(rng, grid, 0, min(room, wmax)) if rng.random() < 0.85 else 0.0
            v = v or 0.0
            vols.append(v)
            used[k] = used.get(k, 0) + F(v)
        if rng.random() < 0.25:
            vols = [min([v for v in vols if v > 0] or [0.0])] * len(vols)
        op = dict(op=t, lw=i, wells=shape(rng, wells, allow_scalar=len(wells) == 1), vols=shape(rng, vols), label=rng.choice(LABELS),
                  kw=rng.choice(KW), np=rng.random() < 0.4)
        if t == "dispense":
            ext = [{}, {"X": 1.0}, {"X": 0.5, "Y": 0.5}, {f"{m.name}.A01": 1.0}, {"water": 0.25}, {m.name: 0.75, "X": 0.25}]
            op["comps"] = "tip" if rng.random() < 0.5 else [rng.choice(ext) for _ in wells]
        return op
    if t == "transfer":
        si = rng.randrange(len(ms))
        di = si if (rng.random() < 0.4 or len(ms) == 1) else rng.choice([j for j in range(len(ms)) if j != si])
        s, d = ms[si], ms[di]
        n = rng.choice([1, 1, 2, 2, 3, 4, 5, 8])
        mode = rng.choice(["pairs", "pairs", "one2many", "many2one", "column"])
        sw, dw = pick_wells(rng, s, n, want="out"), pick_wells(rng, d, n, want="in")
        if mode == "one2many":
            sw = [sw[0]] * n
        elif mode == "many2one":
            dw = [dw[0]] * n
        elif mode == "column":
            n = min(s.R, d.R, rng.choice([2, 3, 8]))
            r0, cs, cd = rng.randrange(min(s.R, d.R) - n + 1), rng.randrange(s.C), rng.randrange(d.C)
            sw, dw = [wid(r0 + j, cs) for j in range(n)], [wid(r0 + j, cd) for j in range(n)]
            if si == di and rng.random() < 0.5 and n > 1:      # shift down one row: serial dilution within a column
                dw = [wid(min(r0 + j + 1, s.R - 1), cs) for j in range(n)]
        chain = si == di and rng.random() < 0.3
        out, inn, vols = {}, {}, []
        for a, b in zip(sw, dw):
            ka, kb = s.cav(a), d.cav(b)
            avail = s.vol[ka] - s.lo - out.get(ka, 0) - margin + (inn.get(ka, 0) if chain else 0)
            cap = d.hi - d.vol[kb] - inn.get(kb, 0) - margin + (out.get(kb, 0) if chain and si == di else 0)
            top = min(avail, cap, wmax * 12 if wl["auto_split"] else wmax)
            r = rng.random()
            v = 0.0 if r < 0.05 else (gridval(rng, grid, 0, top) if r < 0.8 else gridval(rng, grid, top * F(9, 10), top))
            v = v or 0.0
            vols.append(v)
            out[ka] = out.get(ka, 0) + F(v)
            inn[kb] = inn.get(kb, 0) + F(v)
        if rng.random() < 0.25:
            vols = [min([v for v in vols if v > 0] or [0.0])] * len(vols)
        one_s, one_d = len(set(sw)) == 1, len(set(dw)) == 1
        return dict(op="transfer", src=si, dst=di, sw=shape(rng, sw, allow_scalar=one_s), dw=shape(rng, dw, allow_scalar=one_d),
                    vols=shape(rng, vols), label=rng.choice(LABELS),
                    wash=rng.choice([1, 1, 2, 3, 4, "flush", "reuse", 2.0]), pb=rng.choice(["auto", "auto", "source", "destination"]),
                    kw=rng.choice(KW), np=rng.random() < 0.4)
    if t == "distribute":
        si = rng.choice(troughs)
        s = ms[si]
        di = rng.randrange(len(ms))
        d = ms[di]
        col = rng.choice([c for c in range(s.C) if s.vol[c] > s.lo] or [0]) if rng.random() < 0.85 else rng.randrange(s.C)
        allw = [wid(r, c) for c in range(d.C) for r in range(d.R)]
        if d.flu_tr:
            allw = [wid(rng.randrange(d.R), c) for c in range(d.C)]
        if rng.random() < 0.8:
            allw = [w for w in allw if d.vol[d.cav(w)] < d.hi] or allw
        kind = rng.choice(["subset", "subset", "all", "column", "row"])
        if kind == "all" and len(allw) <= 96:
            dw = allw
        elif kind == "column" and not d.flu_tr:
            c = rng.randrange(d.C)
            dw = [wid(r, c) for r in range(d.R)]
        elif kind == "row" and not d.flu_tr:
            r = rng.randrange(d.R)
            dw = [wid(r, c) for c in range(d.C)]
        else:
            dw = rng.sample(allw, rng.randint(1, min(len(allw), 7)))
        if any(d.vol[d.cav(w)] >= d.hi for w in dw) and rng.random() < 0.8:
            dw = [w for w in dw if d.vol[d.cav(w)] < d.hi] or dw
        rng.shuffle(dw)
        n = len(dw)
        cnt = {}
        for w in dw:
            cnt[d.cav(w)] = cnt.get(d.cav(w), 0) + 1
        top = min([(s.vol[col] - s.lo - margin) / n, wmax] + [(d.hi - d.vol[k] - margin) / c for k, c in cnt.items()])
        if di == si and col in cnt:
            top = min(top, (d.hi - d.vol[col] - margin) / cnt[col])
        v = 0 if rng.random() < 0.07 else (gridval(rng, grid, 0, top) or 0)
        kw = rng.choice([{}, {}, {"multi_disp": rng.randint(1, 12)}, {"diti_reuse": 3, "liquid_class": "LC", "direction": "right_to_left"},
                         {"src_rack_id": "s1", "dst_rack_type": "dt", "multi_disp": 6}])
        return dict(op="distribute", src=si, col=col, dst=di, dw=shape(rng, dw, allow_scalar=False) if n > 1 else rng.choice([dw, dw[0]]),
                    vol=v, label=rng.choice(LABELS) or "", kw=kw, np=rng.random() < 0.4)
    return rng.choice([dict(op="wash", scheme=rng.choice([1, 2, 3, 4])), dict(op="flush"), dict(op="commit"),
                       dict(op="comment", text=rng.choice(["hello", "a\n b \n\nc"]))] + ([] if wl["diti_mode"] else [dict(op="decontaminate")]))


WMAX = {"dyadic": [950, 950, 100, 50.5, 7.25, 1000.0, 0.75], "centi": [950, 99.99, 10.1, 200.7], "off": [950, 7.256, 100 / 3, 33.3]}


def gen_case(rng):
    grid = rng.choice(["dyadic"] * 5 + ["centi"] * 2 + ["off"] * 2)
    device = rng.choice(["evo", "fluent"])
    wl = dict(max_volume=rng.choice(WMAX[grid]), auto_split=rng.random() < 0.8, diti_mode=rng.random() < 0.2)
    specs = gen_labwares(rng, grid, wl["max_volume"], need_trough=rng.random() < 0.3)
    model = {s["name"]: Lw(s, device) for s in specs}
    ops = []
    for _ in range(rng.choice([1, 1, 2, 3, 4, 6])):
        op = gen_op(rng, grid, device, wl, specs, model)
        ops.append(op)
        P = plan(op, model, specs, wl, device)
        if P["must"] or rng.random() < 0.5:
            apply_plan(P, model)      # keep the generator's idea of the state (an order-dependent chain may still be refused)
    return dict(kind="random", grid=grid, device=device, wl=wl, labwares=specs, ops=ops)


def plate(name, R, C, lo, hi, init):
    return dict(name=name, trough=False, rows=R, cols=C, min=lo, max=hi, init=init, names=None)


def gen_enumerated(tier):
    import itertools
    thorough = tier == "thorough"
    # E1: distribute from a trough column to every non-empty subset of a small plate
    for (R, C) in [(3, 2), (2, 3), (3, 3)] + ([(4, 2), (1, 5), (2, 5)] if thorough else []):
        wells = [wid(r, c) for c in range(C) for r in range(R)]
        for mask in range(1, 2 ** len(wells)):
            dw = [w for b, w in enumerate(wells) if mask >> b & 1]
            for device in DEVICES:
                col = mask % 2
                yield dict(kind="E1 distribute subsets", device=device, wl=dict(max_volume=950, auto_split=True, diti_mode=False),
                           labwares=[dict(name="T", trough=True, rows=3, cols=2, min=10, max=5000, init=[2000, 3000.5], names=None),
                                     plate("P", R, C, 0, 100, [[(r + c) % 3 * 10.25 for c in range(C)] for r in range(R)])],
                           ops=[dict(op="distribute", src=0, col=col, dst=1, dw=dw[::-1] if mask % 3 == 0 else dw, vol=10.25, label="", kw={})])
    # E2: transfers within one pre-filled plate: every ordered pair of (source, destination) pairs (swaps, chains, repeats)
    for (R, C) in [(3, 1), (2, 2)]:
        wells = [wid(r, c) for c in range(C) for r in range(R)]
        for sw in itertools.product(wells, repeat=2):
            for dw in itertools.product(wells, repeat=2):
                for device in DEVICES:
                    for pb, wmax in ([("source", 950), ("destination", 20)] if not thorough else
                                     [("source", 950), ("destination", 950), ("source", 20), ("destination", 20), ("auto", 12.5)]):
                        yield dict(kind="E2 same-plate transfers", device=device, wl=dict(max_volume=wmax, auto_split=True, diti_mode=False),
                                   labwares=[plate("P", R, C, 0, 400, [[100 + 10 * (r * C + c) for c in range(C)] for r in range(R)])],
                                   ops=[dict(op="transfer", src=0, dst=0, sw=list(sw), dw=list(dw), vols=[30.25, 40.5], wash=1, pb=pb, kw={})])
    # E3: first / middle / last well of every geometry, plates and troughs, all four operations
    geos = [(False, R, C) for R in range(1, 17) for C in (1, 2, 3, 12, 24)] + [(True, R, C) for R in range(1, 17) for C in (1, 2, 3)]
    for (tr, R, C) in geos:
        for device in DEVICES:
            ws = sorted({wid(0, 0), wid(R - 1, C - 1), wid(R // 2, C // 2), wid(R - 1, 0), wid(0, C - 1)})
            a = dict(name="X", trough=tr, rows=R, cols=C, min=0, max=1000, init=[500.0] * C if tr else [[500.0] * C for _ in range(R)], names=None)
            b = plate("Y", 16 if R > 8 else 8, 3, 0, 1000, [[0.0] * 3 for _ in range(16 if R > 8 else 8)])
            tgt = [wid(j, j % 3) for j in range(len(ws))]
            ops = [dict(op="transfer", src=0, dst=1, sw=ws, dw=tgt, vols=[1.25 * (j + 1) for j in range(len(ws))], wash="flush", pb="auto", kw={}),
                   dict(op="aspirate", lw=0, wells=ws[::-1], vols=2.5, kw={}),
                   dict(op="dispense", lw=0, wells=ws, vols=[0.75 * (j + 1) for j in range(len(ws))], comps="tip", kw={}),
                   dict(op="transfer", src=1, dst=0, sw=tgt, dw=ws, vols=0.5, wash=2, pb="destination", kw={})]
            if tr:
                dws = ws if device == "evo" else [wid(R // 2, c) for c in range(C)]
                ops.append(dict(op="distribute", src=0, col=C - 1, dst=0, dw=dws, vol=3.25, label="d", kw={}))
                ops.append(dict(op="distribute", src=0, col=0, dst=1, dw=tgt + ["H03"], vol=1.5, label="", kw={"multi_disp": 4}))
            yield dict(kind="E3 geometries", device=device, wl=dict(max_volume=950, auto_split=True, diti_mode=False), labwares=[a, b], ops=ops)


# ------------------------------------------------------------------ driver
def key_of(case):
    return json.dumps(case, sort_keys=True)


def shrink(case, kind):
    """drop operations that are not needed for the same kind of failure (keeps replays readable)"""
    def failing(c):
        try:
            return any(kind_of(x) == kind for x in check_case(c)[0])
        except Exception:  # noqa
            return False
    ops = list(case["ops"])
    i = len(ops) - 1
    while i >= 0 and len(ops) > 1:
        cand = dict(case, ops=ops[:i] + ops[i + 1:])
        if failing(cand):
            ops = cand["ops"]
        i -= 1
    return dict(case, ops=ops)


def kind_of(msg):
    return re.sub(r"\d+(\.\d+)?", "#", msg)[:60]


def replay(path):
    with open(path if os.path.isabs(path) or os.path.exists(path) else os.path.join(VERIF, path)) as fh:
        rp = json.load(fh)
    case = rp["bounded_replay"]["case"]
    fails, nok, npip = check_case(case)
    print(json.dumps({"case": case, "operations_succeeded": nok, "pipetting_records": npip, "failures": fails}, indent=1))
    if fails:
        print(f"VIOLATION property={PROP} replay={path}")
        return 1
    print("case passes on this tree")
    return 0


def main():
    if len(sys.argv) >= 3 and sys.argv[1] == "--replay":
        sys.exit(replay(sys.argv[2]))
    tier = sys.argv[1] if len(sys.argv) > 1 else "quick"
    seed = int(sys.argv[2]) if len(sys.argv) > 2 else 0
    budget, n_random = (16, 2500) if tier == "quick" else (240, 60000)
    t0 = time.time()
    rng = random.Random(seed)
    seen, failures, fail_kinds, parts, samples = set(), [], {}, {}, []
    evaluations = nontrivial = 0

    def feed(c, source):
        nonlocal evaluations, nontrivial
        k = key_of(c)
        if k in seen:
            return
        evaluations += 1
        fails, nok, npip = check_case(c)
        if npip > 0:
            seen.add(k)
            nontrivial += 1
        d = parts.setdefault((c["kind"].split()[0] if source == "enumerated" else "random", source), [0, 0, 0])
        d[0] += 1
        d[1] += nok
        d[2] += npip
        if len(samples) < 4 and evaluations % 211 == 1 and sum(s["rows"] * s["cols"] for s in c["labwares"]) < 40:
            samples.append(c)
        for q in fails[:1]:
            fk = (kind_of(q), c["device"])
            fail_kinds[fk] = fail_kinds.get(fk, 0) + 1
            if fail_kinds[fk] > 1 or len(failures) >= 12:
                continue
            small = shrink(c, kind_of(q))
            q2 = (check_case(small)[0] or [q])[0]
            short = hashlib.sha1(key_of(small).encode()).hexdigest()[:10]
            rel = os.path.join("replays", PROP, f"bounded_{short}.json")
            os.makedirs(os.path.join(VERIF, "replays", PROP), exist_ok=True)
            with open(os.path.join(VERIF, rel), "w") as fh:
                json.dump({"property": PROP, "bounded_replay": {"script": "c01.py", "case": small}, "what": q2}, fh, indent=1)
            failures.append({"what": f"[{c['device']}] {q2}"[:500], "replay": rel})

    for c in gen_enumerated(tier):
        feed(c, "enumerated")
        if time.time() - t0 > budget * 0.55:
            break
    n = 0
    while n < n_random and time.time() - t0 < budget:
        feed(gen_case(rng), "random")
        n += 1
    bounds = {"E1": "every non-empty subset of a 3x2 / 2x3 / 3x3 (thorough: + 4x2, 1x5, 2x5) plate as distribute destination, both trough columns, both devices",
              "E2": "one plate 3x1 / 2x2, all ordered (src,src)x(dst,dst) well pairs incl. repeats, swaps and chains, split and unsplit, both devices",
              "E3": "plates 1..16 rows x {1,2,3,12,24} columns and troughs 1..16 virtual rows x 1..3 columns, corner + middle wells, 4-6 operations, both devices",
              "random": "1-3 labwares (plates up to 16x24, troughs up to 16 virtual rows x 4 columns), 1-6 operations, 1-8 wells per operation, "
                        "volumes 0 .. 12 x max_volume on a dyadic / centi / off-grid scale, all wash schemes and partition modes"}
    out = {"evaluations": evaluations, "distinct": nontrivial,
           "rule": "a case is (device, worklist settings, labware set, operation sequence); enumerated small scopes + seeded random sequences; "
                   "distinct = distinct canonical JSON of the case; non-trivial = at least one A/D/R record was emitted and executed by the interpreter",
           "samples": samples[:4],
           "parts": [{"function": f"Evo/FluentWorklist aspirate/dispense/transfer/distribute sequences [{k}]",
                      "kind": "bounded " + ("enumeration" if src == "enumerated" else f"seeded random (seed {seed})"), "bound": bounds[k],
                      "evaluations": v[0], "operations": v[1], "pipetting_records": v[2]} for (k, src), v in sorted(parts.items())],
           "failures": failures, "seconds": round(time.time() - t0, 1), "failure_classes": len(fail_kinds)}
    print(json.dumps(out))


if __name__ == "__main__":
    main()
