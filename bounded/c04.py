#!/venv/bin/python
"""Bounded contract monitor for C04: exact volume bookkeeping per real well, including trough aliasing.

Oracles (all independent of robotools; own flattening, own well-id/position maps, exact `fractions.Fraction` sums):
  model    every real well == initial + sum(added) - sum(removed), computed from the ARGUMENTS of each call with our own
           semantics (column-major flattening of wells and volumes, len-1 broadcast, one charge per occurrence, every
           virtual row of a trough column -> the single real well (0, column)); multi-well calls are simulated
           sequentially, so a rejected call leaves exactly the sub-steps before the offending one booked.
  frame    wells that a call does not name, labware that does not take part, and every array owned by the caller
           (initial_volumes / wells / volumes ndarrays) are bit-identical before and after the call.
  records  for aspirate/dispense/transfer the A;/D; records emitted by the call are parsed and executed by our own
           interpreter (own position<->well map for EVO and Fluent); the volume change of every real well must equal the
           executed records (0.005 uL rounding per record) - this also pins down what a transfer that failed half-way booked.
  decide   a call that is safe for every ordering must be accepted; one whose net effect leaves a well beyond a limit
           must be rejected with a VolumeViolationException; malformed calls (negative volume, length mismatch) must raise
           and change nothing.
"""
import hashlib
import json
import logging
import os
import random
import re
import sys
import time
import warnings
from fractions import Fraction as Fr

REPO = os.environ.get("PYVC_REPO", "/repo")
sys.path.insert(0, REPO)
VERIF = os.path.dirname(os.path.dirname(os.path.abspath(__file__)))
PROP = "C04"

import numpy as np  # noqa: E402

warnings.simplefilter("ignore")
logging.disable(logging.CRITICAL)
from robotools import EvoWorklist, FluentWorklist, Labware, Trough  # noqa: E402
from robotools import VolumeOverflowError, VolumeUnderflowError, VolumeViolationException  # noqa: E402

ROWS = "ABCDEFGHIJKLMNOPQRSTUVWXYZ"


class Ambiguous(Exception):
    """A limit decision that float round-off could flip - the case is discarded."""


# ------------------------------------------------------------------ own semantics
def flat_f(x):
    """Column-major flattening of a scalar / list / rectangular list of lists."""
    if not isinstance(x, list):
        return [x]
    if x and isinstance(x[0], list):
        return [x[r][c] for c in range(len(x[0])) for r in range(len(x))]
    return list(x)


def is_trough(s):
    return s["vrows"] is not None


def widx(s, well):
    """Well id -> index of the REAL well."""
    r, c = ROWS.index(well[0]), int(well[1:]) - 1
    assert len(well) == 3 and 0 <= c < s["cols"] and r < (s["vrows"] if is_trough(s) else s["rows"]), well
    return (0 if is_trough(s) else r, c)


def pos2idx(s, dev, pos):
    """Worklist position number -> real well (EVO counts the virtual rows of a trough, the Fluent does not)."""
    if is_trough(s) and dev == "fluent":
        r, c = 0, pos - 1
    else:
        n = s["vrows"] if is_trough(s) else s["rows"]
        c, r = divmod(pos - 1, n)
    if not (pos >= 1 and c < s["cols"]):
        return None
    return (0 if is_trough(s) else r, c)


def init_model(s):
    i, R, C = s["init"], s["rows"], s["cols"]
    if not isinstance(i, list):
        return [[Fr(i)] * C for _ in range(R)]
    if isinstance(i[0], list):
        return [[Fr(i[r][c]) for c in range(C)] for r in range(R)]
    return [[Fr(i[r * C + c]) for c in range(C)] for r in range(R)]  # flat lists are row-major


def exactish(*xs):
    """True if float arithmetic on these values (sums, differences) is exact: multiples of 2**-10 below 2**40."""
    return all(Fr(x).denominator <= 1024 and 1024 % Fr(x).denominator == 0 and abs(x) < 2**40 for x in xs)


def agree(f_says, x_says):
    """A limit decision is only definitive when float64 evaluation and exact arithmetic agree."""
    if f_says != x_says:
        raise Ambiguous()
    return f_says


def cmp_lim(x, lim, exact_ok):
    """Sign of x - lim for sums of several steps; near the limit only definitive if the arithmetic was exact."""
    if not exact_ok and abs(x - lim) <= Fr(1, 10**9) * max(1, abs(lim)):
        raise Ambiguous()
    return (x > lim) - (x < lim)


def pairs(wells, vols):
    W, V = flat_f(wells), flat_f(vols)
    if len(V) == 1:
        V = V * len(W)
    if len(V) != len(W) or any(v < 0 for v in V):
        return None
    return list(zip(W, V))


class State:
    """M: exact initial+added-removed per real well; F: the float64 value a sequential float evaluation holds."""

    def __init__(self, L):
        self.M = {n: init_model(s) for n, s in L.items()}
        self.F = {n: [[float(x) for x in row] for row in m] for n, m in self.M.items()}

    def book(self, n, r, c, signed):
        self.M[n][r][c] += Fr(signed)
        self.F[n][r][c] += float(signed)

    def resync(self, obs, exact_too=False):
        self.F = {n: [row[:] for row in obs[n]] for n in obs}
        if exact_too:
            self.M = {n: [[Fr(x) for x in row] for row in obs[n]] for n in obs}


def seq(st, s, pr, sign):
    """Sequentially book (well, volume) pairs on labware s; returns 'ok' / 'over' / 'under' (stops at the offender)."""
    n = s["name"]
    for w, v in pr:
        r, c = widx(s, w)
        cur = st.F[n][r][c]
        new_f, new_x = cur + sign * float(v), Fr(cur) + sign * Fr(v)
        if v == 0 and sign < 0 and cur < s["min"]:
            raise Ambiguous()  # removing nothing from a well that starts below min_volume: either outcome is fine
        if sign > 0 and agree(new_f > s["max"], new_x > Fr(s["max"])):
            return "over"
        if sign < 0 and agree(new_f < s["min"], new_x < Fr(s["min"])):
            return "under"
        st.book(n, r, c, sign * v)
    return "ok"


def triples(op):
    S, D, V = flat_f(op["sw"]), flat_f(op["dw"]), flat_f(op["vols"])
    n = max(len(S), len(D), len(V))
    S, D, V = [x * n if len(x) == 1 else x for x in (S, D, V)]
    if len({len(S), len(D), len(V)}) != 1 or any(not v >= 0 for v in V):
        return None
    return list(zip(S, D, V))


def expect(st, L, wl, op):
    """Model step. Returns the expectation; books sequential operations on st (an accepted transfer is booked by the caller)."""
    k = op["op"]
    if k in ("add", "remove", "aspirate", "dispense", "evo_aspirate", "evo_dispense"):
        s = L[op["lw"]]
        pr = pairs(op["wells"], op["vols"])
        touched = {(s["name"], widx(s, w)) for w in flat_f(op["wells"])}
        if pr is None:
            return {"out": "error", "touched": touched}
        if k not in ("add", "remove") and any(v > wl["max_volume"] for _, v in pr):
            return {"out": "free", "touched": touched}
        sign = 1 if k in ("add", "dispense", "evo_dispense") else -1
        return {"out": seq(st, s, pr, sign), "touched": touched}
    if k == "distribute":
        s, d = L[op["src"]], L[op["dst"]]
        W = flat_f(op["dw"])
        touched = {(s["name"], (0, op["col"]))} | {(d["name"], widx(d, w)) for w in W}
        if op["vol"] > wl["max_volume"]:
            return {"out": "error", "touched": touched}
        cur = st.F[s["name"]][0][op["col"]]
        if agree(cur - float(op["vol"]) * len(W) < s["min"], Fr(cur) - Fr(op["vol"]) * len(W) < Fr(s["min"])):
            return {"out": "under", "touched": touched}
        st.M[s["name"]][0][op["col"]] -= Fr(op["vol"]) * len(W)
        st.F[s["name"]][0][op["col"]] = cur - float(op["vol"]) * len(W)
        return {"out": seq(st, d, [(w, op["vol"]) for w in W], 1), "touched": touched}
    if k == "transfer":
        s, d = L[op["src"]], L[op["dst"]]
        touched = {(s["name"], widx(s, w)) for w in flat_f(op["sw"])} | {(d["name"], widx(d, w)) for w in flat_f(op["dw"])}
        tr = triples(op)
        if tr is None:
            return {"out": "error", "touched": touched}
        if not wl["auto_split"] and any(v > wl["max_volume"] for _, _, v in tr):
            return {"out": "free", "touched": touched}
        ev = {}
        for sw, dw, v in tr:
            if v > 0:
                ev.setdefault((s["name"], widx(s, sw)), []).append(-Fr(v))
                ev.setdefault((d["name"], widx(d, dw)), []).append(Fr(v))
        net = {n: [row[:] for row in m] for n, m in st.M.items()}
        safe, bad = True, False
        for (n, (r, c)), es in ev.items():
            cur, mn, mx = Fr(st.F[n][r][c]), Fr(L[n]["min"]), Fr(L[n]["max"])
            net[n][r][c] += sum(es)
            ok = exactish(cur, *es) or (len(es) == 1 and abs(es[0]) < wl["max_volume"])  # one unsplit step is correctly rounded
            if len(es) == 1 and not exactish(cur, *es):
                f = st.F[n][r][c] + float(es[0])
                agree(f > L[n]["max"], cur + es[0] > mx), agree(f < L[n]["min"], cur + es[0] < mn)
            lo, hi, fin = cur + sum(e for e in es if e < 0), cur + sum(e for e in es if e > 0), cur + sum(es)
            if any(e < 0 for e in es) and cmp_lim(lo, mn, ok) < 0:
                safe = False
            if any(e > 0 for e in es) and cmp_lim(hi, mx, ok) > 0:
                safe = False
            if cmp_lim(fin, mx, ok) > 0 or (fin < cur and cmp_lim(fin, mn, ok) < 0):
                bad = True
        return {"out": "transfer", "touched": touched, "safe": safe, "bad": bad, "net": net}
    raise ValueError(k)


# ------------------------------------------------------------------ the real thing
def build(case):
    L, LW, owned = {}, {}, []
    for s in case["lw"]:
        L[s["name"]] = s
        ik, iv = s["ik"], s["init"]
        if ik == "nd":
            iv = np.array(iv, dtype=float)
        elif ik == "ndint":
            iv = np.array(iv, dtype=int)
        elif ik == "share":
            iv = LW[s["share"]][1]
        if isinstance(iv, np.ndarray) and ik != "share":
            owned.append((s["name"] + ".initial_volumes", iv, iv.copy()))
        kw = dict(min_volume=s["min"], max_volume=s["max"], initial_volumes=iv)
        if s["kind"] == "plate":
            lw = Labware(s["name"], s["rows"], s["cols"], **kw)
        elif s["kind"] == "trough":
            lw = Trough(s["name"], s["vrows"], s["cols"], **kw)
        else:
            lw = Labware(s["name"], 1, s["cols"], virtual_rows=s["vrows"], **kw)
        LW[s["name"]] = (lw, iv)
    w = case["wl"]
    WL = {"evo": EvoWorklist(max_volume=w["max_volume"], auto_split=w["auto_split"]),
          "fluent": FluentWorklist(max_volume=w["max_volume"], auto_split=w["auto_split"])}
    return L, {n: x[0] for n, x in LW.items()}, WL, owned




def _layout(a):
    """every other 2-D argument is handed over in column-major (Fortran) memory layout: same content, same shape -
    results must not depend on the memory layout of an argument"""
    if isinstance(a, np.ndarray) and a.ndim == 2 and min(a.shape) > 1 and (a.shape[0] + a.shape[1]) % 2 == 0:
        return np.asfortranarray(a)
    return a

def arg(x, nd, owned, what):
    if nd and isinstance(x, list):
        a = _layout(np.array(x))
        owned.append((what, a, a.copy()))
        return a
    return x


def call(op, LW, WL, owned):
    k = op["op"]
    lab = op.get("label")
    if k in ("add", "remove"):
        return getattr(LW[op["lw"]], k)(arg(op["wells"], op.get("wnd"), owned, "wells"), arg(op["vols"], op.get("vnd"), owned, "volumes"), lab)
    if k in ("aspirate", "dispense"):
        return getattr(WL[op["dev"]], k)(LW[op["lw"]], arg(op["wells"], op.get("wnd"), owned, "wells"),
                                         arg(op["vols"], op.get("vnd"), owned, "volumes"), label=lab)
    if k in ("evo_aspirate", "evo_dispense"):
        return getattr(WL["evo"], k)(LW[op["lw"]], op["wells"], (10, 1), op["tips"], op["vols"], "LC", label=lab)
    if k == "transfer":
        return WL[op["dev"]].transfer(LW[op["src"]], arg(op["sw"], op.get("wnd"), owned, "source_wells"), LW[op["dst"]],
                                      arg(op["dw"], op.get("wnd"), owned, "destination_wells"),
                                      arg(op["vols"], op.get("vnd"), owned, "volumes"), label=lab,
                                      partition_by=op.get("pb", "auto"), wash_scheme=op.get("wash", 1))
    if k == "distribute":
        return WL[op["dev"]].distribute(LW[op["src"]], op["col"], LW[op["dst"]], arg(op["dw"], op.get("wnd"), owned, "destination_wells"),
                                        volume=op["vol"], label=lab or "")
    raise ValueError(k)


def observe(LW):
    return {n: lw.volumes.tolist() for n, lw in LW.items()}


def close(model, obs):
    return obs == obs and abs(float(model) - obs) <= 1e-9 * max(1.0, abs(float(model)))


def run_case(case):
    """Returns (failures, stats); failures = list of one-line strings (empty = pass)."""
    stats = {"ops": 0, "accepted": 0, "kinds": {}}
    try:
        L, LW, WL, owned = build(case)
    except Exception as e:  # noqa
        return [f"constructor raised {type(e).__name__}: {e}"], stats
    st = State(L)
    fails = []

    def compare(obs, tag):
        for n, m in st.M.items():
            for r, row in enumerate(m):
                for c, x in enumerate(row):
                    if not close(x, obs[n][r][c]):
                        fails.append(f"{tag}: {n}[{r},{c}] is {obs[n][r][c]!r} but initial+added-removed = {float(x)!r}")
                        return

    compare(observe(LW), "after construction")
    for i, op in enumerate(case["ops"]):
        if fails:
            break
        tag = f"op#{i} {op['op']}"
        before = observe(LW)
        try:
            ex = expect(st, L, case["wl"], op)
        except Ambiguous:
            stats["ambiguous"] = True
            break
        dev = op.get("dev", "evo")
        nrec = len(WL[dev])
        exc = None
        try:
            call(op, LW, WL, owned)
        except Exception as e:  # noqa
            exc = e
        after = observe(LW)
        stats["ops"] += 1
        stats["kinds"][op["op"]] = stats["kinds"].get(op["op"], 0) + 1
        out = ex["out"]
        # -- frame
        for n in after:
            for r, row in enumerate(after[n]):
                for c, x in enumerate(row):
                    if (n, (r, c)) not in ex["touched"] and repr(x) != repr(before[n][r][c]):
                        fails.append(f"{tag}: well {n}[{r},{c}] was not addressed but changed {before[n][r][c]!r} -> {x!r}")
        for what, a, cp in owned:
            if not (a.shape == cp.shape and np.array_equal(a, cp)):
                fails.append(f"{tag}: caller-owned array {what} was modified: {cp.tolist()} -> {a.tolist()}")
        if fails:
            break
        # -- outcome
        viol = isinstance(exc, VolumeViolationException)
        if out == "ok" and exc is not None:
            fails.append(f"{tag}: valid call within all limits raised {type(exc).__name__}: {exc}")
        elif out == "over" and not isinstance(exc, VolumeOverflowError):
            fails.append(f"{tag}: expected VolumeOverflowError, got {type(exc).__name__ if exc else 'normal return'}")
        elif out == "under" and not isinstance(exc, VolumeUnderflowError):
            fails.append(f"{tag}: expected VolumeUnderflowError, got {type(exc).__name__ if exc else 'normal return'}")
        elif out == "error":
            if exc is None:
                fails.append(f"{tag}: malformed call (negative volume / length mismatch / oversized) was accepted")
            elif after != before:
                fails.append(f"{tag}: malformed call raised {type(exc).__name__} but changed volumes")
        elif out == "transfer":
            if exc is None:
                if ex["bad"]:
                    fails.append(f"{tag}: accepted although its net effect leaves a well beyond a limit")
                st.M = ex["net"]
            elif viol:
                if ex["safe"]:
                    fails.append(f"{tag}: raised {type(exc).__name__} although every sub-step is within limits: {exc}")
            else:
                fails.append(f"{tag}: valid transfer raised {type(exc).__name__}: {exc}")
        if fails:
            break
        if exc is None:
            stats["accepted"] += 1
        # -- records executed by our own interpreter
        # (a multi-well aspirate/dispense that is rejected half-way books the earlier wells but emits nothing: that is C03's topic)
        if (op["op"] == "transfer" or (op["op"] in ("aspirate", "dispense") and exc is None)) and out != "free":
            delta, cnt = {}, {}
            for rec in list(WL[dev])[nrec:]:
                f = rec.split(";")
                if f[0] in ("A", "D"):
                    s = next((s for s in L.values() if s["name"] == f[1]), None)
                    idx = pos2idx(s, dev, int(f[4])) if s else None
                    if idx is None:
                        fails.append(f"{tag}: record {rec!r} addresses no well")
                        break
                    key = (s["name"], idx)
                    delta[key] = delta.get(key, 0) + (Fr(f[6]) if f[0] == "D" else -Fr(f[6]))
                    cnt[key] = cnt.get(key, 0) + 1
                elif f[0] not in ("C", "W1", "W2", "W3", "W4", "W", "F", "B"):
                    fails.append(f"{tag}: unexpected record {rec!r}")
            for n in after:
                for r, row in enumerate(after[n]):
                    for c, x in enumerate(row):
                        d, k = delta.get((n, (r, c)), 0), cnt.get((n, (r, c)), 0)
                        if not fails and abs(Fr(x) - Fr(before[n][r][c]) - d) > Fr(5, 1000) * k + Fr(1, 10**6):
                            fails.append(f"{tag}: {n}[{r},{c}] changed by {x - before[n][r][c]!r} but the emitted A/D records move {float(d)!r}")
        if fails:
            break
        # -- bookkeeping
        if out in ("free",) or (out == "transfer" and exc is not None):
            st.resync(after, exact_too=True)  # what such a call booked is pinned down by frame + records only
        else:
            compare(after, tag)
            st.resync(after)
    return fails, stats


# ------------------------------------------------------------------ generators
def q(rng, hi, dy):
    """A volume in [0, hi]: dyadic (multiple of 0.25) or decimal."""
    hi = max(float(hi), 0.0)
    if dy:
        return rng.randint(0, int(hi * 4)) / 4
    return rng.choice([round(rng.uniform(0, hi), 2), round(rng.uniform(0, hi), 1), rng.uniform(0, hi), rng.randint(0, int(hi)) / 3])


def gen_lw(rng, name, dy):
    kind = rng.choice(["plate", "plate", "plate", "trough", "trough", "vtrough"])
    if kind == "plate":
        rows, cols, vrows = rng.choice([1, 2, 2, 3, 4, 8]), rng.choice([1, 2, 3, 3, 4, 6, 12]), None
    else:
        rows, cols, vrows = 1, rng.choice([1, 2, 2, 3, 4]), rng.choice([1, 2, 3, 4, 8, 16])
    mn, mx = rng.choice([(0, 100), (0, 250), (10, 100), (20, 250), (12.5, 1000), (0, 50000), (0.25, 7.5)])
    vals = [[q(rng, mx, dy) if rng.random() < 0.85 else rng.choice([0, mn, mx]) for _ in range(cols)] for _ in range(rows)]
    s = {"name": name, "kind": kind, "rows": rows, "vrows": vrows, "cols": cols, "min": mn, "max": mx}
    if kind == "trough":
        ik = rng.choice(["scalar", "flat", "flat", "nd"])
        s["init"] = vals[0][0] if ik == "scalar" else vals[0]
    else:
        ik = rng.choice(["scalar", "nested", "flat", "flat", "nd", "nd", "ndflat", "ndint"])
        if ik == "scalar":
            s["init"] = vals[0][0]
        elif ik == "ndint":
            s["init"] = [[int(x) for x in row] for row in vals]
        elif ik in ("flat", "ndflat"):
            s["init"] = [x for row in vals for x in row]
        else:
            s["init"] = vals
    s["ik"] = "nd" if ik == "ndflat" else ik
    return s


def gen_wells(rng, s):
    """Returns a wells argument (str / list / list of lists); biased toward repeats, aliases and 2-D blocks."""
    nr = s["vrows"] if is_trough(s) else s["rows"]
    grid = [[f"{ROWS[r]}{c + 1:02d}" for c in range(s["cols"])] for r in range(nr)]
    allw = [w for row in grid for w in row]
    m = rng.random()
    if m < 0.15:
        return rng.choice(allw)
    if m < 0.5:  # list from a small pool -> repeats
        pool = rng.sample(allw, min(len(allw), rng.randint(1, 3)))
        return [rng.choice(pool) for _ in range(rng.randint(1, 6))]
    if m < 0.6:
        return rng.sample(allw, min(len(allw), rng.randint(1, 8)))
    r0, c0 = rng.randrange(nr), rng.randrange(s["cols"])
    r1, c1 = rng.randint(r0 + 1, min(nr, r0 + 4)), rng.randint(c0 + 1, min(s["cols"], c0 + 3))
    return [row[c0:c1] for row in grid[r0:r1]]


def gen_vols(rng, wells, hi, dy):
    n = len(flat_f(wells))
    m = rng.random()
    if m < 0.3 or n == 1:
        v = q(rng, hi, dy)
        return rng.choice([v, [v], 0 if rng.random() < 0.1 else v])
    vals = [0 if rng.random() < 0.12 else q(rng, hi, dy) for _ in range(n)]
    if isinstance(wells, list) and isinstance(wells[0], list) and m < 0.8:
        R, C = len(wells), len(wells[0])
        if rng.random() < 0.4 and R != C:
            R, C = C, R  # same size, other shape: only column-major pairing on both sides matches
        return [[vals[c * R + r] for c in range(C)] for r in range(R)]
    return vals


def gen_op(rng, L, st, wl, dy):
    M = st.M
    names = list(L)
    k = rng.choice(["add", "remove", "aspirate", "dispense", "transfer", "transfer", "transfer", "distribute", "distribute", "evo"])
    dev = rng.choice(["evo", "fluent"])
    op = {"dev": dev, "wnd": rng.random() < 0.5, "vnd": rng.random() < 0.5}
    troughs = [n for n in names if is_trough(L[n])]
    if k == "distribute" and not troughs:
        k = "transfer"
    if k in ("add", "remove", "aspirate", "dispense"):
        s = L[rng.choice(names)]
        W = gen_wells(rng, s)
        fw = flat_f(W)
        cnt = {w: sum(1 for x in fw if widx(s, x) == widx(s, w)) for w in fw}
        room = [((Fr(s["max"]) - M[s["name"]][widx(s, w)[0]][widx(s, w)[1]]) if k in ("add", "dispense")
                 else (M[s["name"]][widx(s, w)[0]][widx(s, w)[1]] - Fr(s["min"]))) / cnt[w] for w in fw]
        lim = max(min(room), 0)
        m = rng.random()
        if m < 0.2:
            V = float(lim)  # exactly up to the limit, counting every occurrence
        elif m < 0.3:
            V = float(lim) + rng.choice([0.25, 1, 0.01])
        else:
            V = gen_vols(rng, W, min(float(lim) * rng.choice([1, 1, 1.5]) + 1, wl["max_volume"]), dy)
        if k in ("aspirate", "dispense") and isinstance(V, float):
            V = min(V, wl["max_volume"])
        op.update(op=k, lw=s["name"], wells=W, vols=V)
    elif k == "evo":
        s = L[rng.choice(names)]
        nr = s["vrows"] if is_trough(s) else s["rows"]
        c = rng.randrange(s["cols"])
        rows = sorted(rng.sample(range(min(nr, 8)), rng.randint(1, min(nr, 8))))
        tips = sorted(rng.sample(range(1, 9), len(rows)))
        hi = min(float(s["max"]) / 4, wl["max_volume"])
        V = q(rng, hi, dy) if rng.random() < 0.4 else [q(rng, hi, dy) for _ in rows]
        op.update(op=rng.choice(["evo_aspirate", "evo_dispense"]), lw=s["name"], wells=[f"{ROWS[r]}{c + 1:02d}" for r in rows],
                  tips=tips, vols=V, wnd=False, vnd=False)
    elif k == "transfer":
        s, d = L[rng.choice(names)], L[rng.choice(names)]
        SW = gen_wells(rng, s)
        n = len(flat_f(SW))
        m = rng.random()
        if m < 0.2:
            DW = rng.choice(flat_f(gen_wells(rng, d)))
        elif m < 0.3 and n > 1:
            SW, DW = rng.choice(flat_f(SW)), gen_wells(rng, d)
            n = len(flat_f(DW))
        else:
            pool = flat_f(gen_wells(rng, d))
            DW = [rng.choice(pool) for _ in range(n)]
            if isinstance(SW, list) and isinstance(SW[0], list) and rng.random() < 0.5:
                R, C = len(SW), len(SW[0])
                DW = [[DW[c * R + r] for c in range(C)] for r in range(R)]
        n = max(n, len(flat_f(DW)))
        avail = min(float(M[s["name"]][widx(s, w)[0]][widx(s, w)[1]] - Fr(s["min"])) for w in flat_f(SW))
        hi = max(avail, 0) / n * rng.choice([1, 1, 1, 2.5]) + rng.choice([0, 1])
        if rng.random() < 0.15 and wl["auto_split"]:
            hi = hi * n  # large volumes -> splitting
        if not wl["auto_split"]:
            hi = min(hi, wl["max_volume"])
        V = gen_vols(rng, [0] * n if n > 1 else "x", hi, dy)
        if isinstance(V, list) and len(V) == n and isinstance(SW, list) and isinstance(SW[0], list) and rng.random() < 0.6:
            R, C = rng.choice([(len(SW), len(SW[0])), (len(SW[0]), len(SW))])
            V = [[V[c * R + r] for c in range(C)] for r in range(R)]
        if rng.random() < 0.03:
            V = [-1.5] + [1.0] * (n - 1) if n > 1 else -2.0
        op.update(op="transfer", src=s["name"], sw=SW, dst=d["name"], dw=DW, vols=V,
                  pb=rng.choice(["auto", "auto", "source", "destination"]), wash=rng.choice([1, 1, 2, "flush", "reuse"]))
    else:
        s, d = L[rng.choice(troughs)], L[rng.choice(names)]
        col = rng.randrange(s["cols"])
        DW = gen_wells(rng, d)
        if isinstance(DW, str):
            DW = [DW]
        n = len(flat_f(DW))
        avail = max(float(M[s["name"]][0][col] - Fr(s["min"])), 0)
        m = rng.random()
        v = avail / n if m < 0.15 else (avail / n + 0.25 if m < 0.25 else q(rng, avail / n, dy))
        op.update(op="distribute", src=s["name"], col=col, dst=d["name"], dw=DW, vol=min(v, wl["max_volume"]))
    if rng.random() < 0.3:
        op["label"] = f"step {rng.randint(1, 9)}"
    return op


def gen_case(rng):
    dy = rng.random() < 0.7
    L = {}
    for name in "ABC"[: rng.choice([1, 2, 2, 3])]:
        L[name] = gen_lw(rng, name, dy)
    for s in list(L.values()):
        if s["ik"] == "nd" and rng.random() < 0.5:  # a second labware built from the very same ndarray
            t = dict(s, name=s["name"] + "2", ik="share", share=s["name"])
            L[t["name"]] = t
            break
    wl = {"max_volume": rng.choice([950, 950, 950, 200, 1000, 62.5]), "auto_split": rng.random() < 0.7}
    st = State(L)
    ops = []
    for _ in range(rng.randint(1, 8)):
        op = gen_op(rng, L, st, wl, dy)
        ops.append(op)
        try:
            ex = expect(st, L, wl, op)
            if ex["out"] == "transfer" and ex["safe"]:
                st.M = ex["net"]
                st.F = {n: [[float(x) for x in row] for row in m] for n, m in st.M.items()}
        except Ambiguous:
            break
    return {"lw": list(L.values()), "wl": wl, "dyadic": dy, "ops": ops}


def enum_cases():
    """Small-scope exhaustive part: every well-argument shape x every volume-argument shape x op x device on a 2x2 plate
    and a 2-virtual-row x 2-column trough."""
    plate = {"name": "P", "kind": "plate", "rows": 2, "vrows": None, "cols": 2, "min": 10, "max": 100, "init": [40, 50, 60, 70], "ik": "flat"}
    trough = {"name": "T", "kind": "trough", "rows": 1, "vrows": 2, "cols": 2, "min": 10, "max": 100, "init": [40, 60], "ik": "flat"}
    wshapes = ["A01", ["B02"], ["A01", "A01"], ["B01", "A02", "B01"], [["A01", "A02"], ["B01", "B02"]], [["A01", "A02"]],
               [["A01"], ["B01"]], ["A01", "B01", "A02", "B02", "A01"], [["B01", "B02"], ["A01", "A02"]]]
    for s in (plate, trough):
        for W in wshapes:
            n = len(flat_f(W))
            vshapes = [5, [5], 0, [float(i + 1) for i in range(n)], 35, [float(n - i) for i in range(n)], [1.0, 2.0]]
            if isinstance(W, list) and isinstance(W[0], list):
                R, C = len(W), len(W[0])
                vshapes.append([[1.0 + r * C + c for c in range(C)] for r in range(R)])
                vshapes.append([[1.0 + r * R + c for c in range(R)] for r in range(C)])
            for V in vshapes:
                for k in ("add", "remove", "aspirate", "dispense"):
                    for dev in (("evo", "fluent") if k in ("aspirate", "dispense") else ("evo",)):
                        for nd in (False, True):
                            yield {"lw": [s], "wl": {"max_volume": 950, "auto_split": True}, "dyadic": True,
                                   "ops": [{"op": k, "dev": dev, "lw": s["name"], "wells": W, "vols": V, "wnd": nd, "vnd": nd},
                                           {"op": k, "dev": dev, "lw": s["name"], "wells": W, "vols": V, "wnd": nd, "vnd": nd}]}
    for dev in ("evo", "fluent"):
        for W in wshapes + [["A01", "B02", "B02", "B02"]]:
            for v in (2.5, 0, 5, 30):
                for dst in (plate, trough):
                    W2 = [W] if isinstance(W, str) else W
                    yield {"lw": [trough, plate], "wl": {"max_volume": 950, "auto_split": True}, "dyadic": True,
                           "ops": [{"op": "distribute", "dev": dev, "src": "T", "col": c, "dst": dst["name"], "dw": W2, "vol": v} for c in (0, 1)]}
                for V in (2.5, [1.0, 2.0, 3.0, 4.0, 5.0][: len(flat_f(W))]):
                    for a, b in ((plate, plate), (plate, trough), (trough, plate), (trough, trough)):
                        yield {"lw": [plate, trough], "wl": {"max_volume": 950, "auto_split": dev == "evo"}, "dyadic": True,
                               "ops": [{"op": "transfer", "dev": dev, "src": a["name"], "sw": W, "dst": b["name"], "dw": "B02", "vols": V},
                                       {"op": "transfer", "dev": dev, "src": a["name"], "sw": "A01", "dst": b["name"], "dw": W, "vols": V}]}


# ------------------------------------------------------------------ driver
def key_of(case):
    return hashlib.sha1(json.dumps(case, sort_keys=True).encode()).hexdigest()


def shrink(case):
    """Greedy: drop operations / labware while the case keeps failing."""
    cur = case
    for i in range(len(cur["ops"]) - 1, -1, -1):
        cand = dict(cur, ops=cur["ops"][:i] + cur["ops"][i + 1:])
        try:
            if cand["ops"] and run_case(cand)[0]:
                cur = cand
        except Exception:  # noqa
            pass
    return cur


def main(argv):
    if argv and argv[0] == "--replay":
        path = argv[1] if os.path.isabs(argv[1]) or os.path.exists(argv[1]) else os.path.join(VERIF, argv[1])
        case = json.load(open(path))["bounded_replay"]["case"]
        fails, _ = run_case(case)
        print(json.dumps(case))
        print("observed:", fails if fails else "no violation - all oracles hold on the current tree")
        return 1 if fails else 0
    tier = argv[0] if argv else "quick"
    seed = int(argv[1]) if len(argv) > 1 else 0
    budget, n_rand = (15, 4000) if tier == "quick" else (240, 60000)
    t0 = time.time()
    rng = random.Random(seed)
    seen, failures, samples, kinds = set(), [], [], {}
    evals = distinct = n_enum = 0

    def do(case, part):
        nonlocal evals, distinct
        k = key_of(case)
        if k in seen:
            return
        seen.add(k)
        fails, st = run_case(case)
        evals += 1
        if st["accepted"] or fails:
            distinct += 1
        for kk, v in st["kinds"].items():
            kinds[kk] = kinds.get(kk, 0) + v
        if len(samples) < 3 and part == "random" and st["accepted"] and len(json.dumps(case)) < 700:
            samples.append(case)
        cls = fails and re.sub(r"[^a-z ]", "", fails[0].split(":")[0].split(" ")[-1] + fails[0].split(":")[1])[:40]
        if fails and len(failures) < 5 and not any(f["cls"] == cls for f in failures):
            small = shrink(case)
            sf = run_case(small)[0] or fails
            short = key_of(small)[:10]
            rp = os.path.join("replays", PROP, f"bounded_{short}.json")
            os.makedirs(os.path.join(VERIF, "replays", PROP), exist_ok=True)
            with open(os.path.join(VERIF, rp), "w") as fh:
                json.dump({"property": PROP, "bounded_replay": {"script": "c04.py", "case": small}, "what": sf[0]}, fh, indent=1)
            failures.append({"what": sf[0], "replay": rp, "cls": cls})

    for case in enum_cases():
        do(case, "enum")
    n_enum = evals
    for _ in range(n_rand):
        if time.time() - t0 > budget:
            break
        do(gen_case(rng), "random")
    for f in failures:
        f.pop("cls")
    out = {"evaluations": evals, "distinct": distinct,
           "rule": "a case = labware configuration(s) + history of 1-8 calls; distinct by SHA-1 of its canonical JSON; "
                   "non-trivial = at least one call was accepted and booked",
           "samples": samples,
           "parts": [{"function": "add/remove/aspirate/dispense/distribute/transfer on 2x2 plate and 2x2 trough", "kind": "bounded exhaustive enumeration",
                      "bound": "all listed well-shapes x volume-shapes x op x device x list/ndarray, two calls each", "evaluations": n_enum},
                     {"function": "histories over " + ", ".join(f"{k}:{v}" for k, v in sorted(kinds.items())), "kind": "bounded seeded random histories",
                      "bound": f"seed {seed}, <= {n_rand} cases or {budget} s; plates <= 8x12, troughs <= 16 virtual rows x 4, <= 8 calls", "evaluations": evals - n_enum}],
           "failures": failures}
    print(json.dumps(out))
    return 0


if __name__ == "__main__":
    rc = main(sys.argv[1:])
    sys.exit(rc)
