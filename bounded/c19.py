#!/usr/bin/env python
"""C19 bounded contract monitor: robotools.utils.get_trough_wells(n, wells) cycles through the given wells (read in
column-major order) and returns exactly n of them.

Oracle (own index arithmetic only, nothing of robotools is used to compute an expectation):
  flat   = the given wells read column-major: a 1-D collection as it stands, a 2-D collection m (R rows x C columns) as
           [m[r][c] for c in range(C) for r in range(R)]; well IDs of labware are predicted by own naming (row letter + 2-digit
           column) and own slicing of that plate, never by reading robotools objects.
  L1     the result is a `list` whose elements are strings
  L2     len(result) == n                                    (n == 0 -> [])
  L3     result[i] == flat[i % len(flat)] for every i < n    (n <= 20000: element by element; larger n: for every residue j the
                                                               slice result[j::len] consists of flat[j] only)
  R1     negative n, non-integer n (float incl. integral / nan / inf, None, str, complex, Fraction, Decimal, 0-d / 1-element arrays,
         lists) and empty well collections (1-D, 2-D with a zero axis, nested empty lists) are rejected with ValueError / TypeError
         (any other exception type counts as a crash, not a rejection)
  R2     "integer-like" n that is not a plain int (bool, IntEnum member, int subclass, numpy integer scalar) is either rejected as
         in R1 or answered exactly like int(n) - never with a different list
  S1     the call does not modify its input (list, array, trough.wells - which is the labware's own array) and does not return it
  S2     results are independent objects: a result the caller modified in place must not show up in, or be changed by, any later
         call; all results handed out during a call sequence are re-checked at the end of the sequence
  S3     the answer follows the *current* content of a well object the caller changed in place between two calls

A case is a call sequence inside this process ({"objs": [...persistent well objects...], "steps": [...]}); the plain cases are
sequences of one call.  Every listed failure has a replay that was checked to fail in a fresh process.  A failure that shows only
because of what earlier cases of the run left behind in the library is stored with its position in the (deterministic) case stream
("context": tier, seed, number of enumerated / random cases before it); --replay then runs the case alone and, if that passes,
again after re-running that part of the stream.

No suspected defects on the unchanged tree.
"""
import collections
import decimal
import enum
import fractions
import hashlib
import json
import logging
import os
import random
import re
import subprocess
import sys
import time
import warnings

REPO = os.environ.get("PYVC_REPO", "/repo")
sys.path.insert(0, REPO)
import numpy as np  # noqa: E402

import robotools  # noqa: E402
from robotools import Labware, Trough  # noqa: E402
from robotools.utils import get_trough_wells  # noqa: E402

assert os.path.realpath(robotools.__file__).startswith(os.path.realpath(REPO) + os.sep), robotools.__file__
logging.disable(logging.CRITICAL)
warnings.simplefilter("ignore")

PROP = "C19"
VERIF = os.path.dirname(os.path.dirname(os.path.abspath(__file__)))
LETTERS = "ABCDEFGHIJKLMNOPQRSTUVWXYZ"
DIRECT_LIMIT = 20000

FORMS_1D = ["list", "tuple", "arr", "arr_obj", "arr_wide", "arr_rev", "arr_strided", "arr_ro", "col2d", "row2d", "nested_col",
            "nested_row", "col2d_F"]
FORMS_2D = ["nested", "nested_tuple", "arr_C", "arr_F", "arr_T", "arr_obj2", "arr_sub", "arr_flip", "arr_step", "list_of_arrays"]
MUTABLE_FORMS = ["list", "arr", "arr_obj", "arr_wide", "nested", "arr_C", "arr_F", "arr_obj2"]
EMPTY_VARIANTS = ["list", "tuple", "arr", "arr_str", "arr_obj", "0x3", "3x0", "0x0", "nested_1x0", "nested_3x0"]


# ---------------------------------------------------------------- own model of wells
def wid(r, c):
    return f"{LETTERS[r]}{c + 1:02d}"


def plate(R, C):
    return [[wid(r, c) for c in range(C)] for r in range(R)]


def is2d(model):
    return bool(model) and isinstance(model[0], list)


def flat_of(model):
    """column-major reading of the logical content"""
    if isinstance(model, str):
        return [model]
    if is2d(model):
        return [row[c] for c in range(len(model[0])) for row in model]
    return list(model)


def freeze(x):
    """deep, comparable snapshot of an argument object"""
    if isinstance(x, np.ndarray):
        return ("nd", tuple(x.shape), str(x.dtype), x.tolist())
    if isinstance(x, (list, tuple)):
        return (type(x).__name__, [freeze(e) for e in x])
    return x


def logical(x):
    """own column-major reading of an argument object (used to self-check the builders, not the library)"""
    if isinstance(x, np.ndarray):
        x = x.tolist()
    if isinstance(x, str):
        return [x]
    rows = [e.tolist() if isinstance(e, np.ndarray) else e for e in x]
    if rows and isinstance(rows[0], (list, tuple)):
        return [str(r[c]) for c in range(len(rows[0])) for r in rows]
    return [str(e) for e in rows]


def build_wells(spec):
    """-> (argument object, model = logical content as 1-D list / 2-D nested list, keepalive)"""
    form = spec["form"]
    keep = None
    if form == "empty":
        v = spec["variant"]
        arg = {"list": lambda: [], "tuple": lambda: (), "arr": lambda: np.array([]), "arr_str": lambda: np.array([], dtype="<U3"),
               "arr_obj": lambda: np.array([], dtype=object), "0x3": lambda: np.empty((0, 3), dtype="<U3"),
               "3x0": lambda: np.empty((3, 0), dtype="<U3"), "0x0": lambda: np.empty((0, 0), dtype=object),
               "nested_1x0": lambda: [[]], "nested_3x0": lambda: [[], [], []]}[v]()
        return arg, [], None
    if form in ("trough", "labware"):
        R, C = spec["R"], spec["C"]
        if form == "trough":
            lw = Trough("T", R, C, min_volume=0, max_volume=1000)
        else:
            lw = Labware("P", R, C, min_volume=0, max_volume=1000)
        full = plate(R, C)
        w = lw.wells
        sel = spec["sel"]
        k = sel[0]
        if k == "all":
            arg, model = w, full
        elif k == "col":
            arg, model = w[:, sel[1]], [full[r][sel[1]] for r in range(R)]
        elif k == "cols":
            arg, model = w[:, sel[1]:sel[2]], [row[sel[1]:sel[2]] for row in full]
        elif k == "rows":
            arg, model = w[sel[1]:sel[2], :], [list(row) for row in full[sel[1]:sel[2]]]
        elif k == "rowscol":
            arg, model = w[sel[1]:sel[2], sel[3]], [full[r][sel[3]] for r in range(sel[1], sel[2])]
        elif k == "fancy":
            arg, model = w[sel[1], sel[2]], [full[r][sel[2]] for r in sel[1]]
        elif k == "fancy2":
            arg, model = w[np.ix_(sel[1], sel[2])], [[full[r][c] for c in sel[2]] for r in sel[1]]
        elif k == "T":
            arg, model = w.T, [[full[r][c] for r in range(R)] for c in range(C)]
        elif k == "step":
            arg, model = w[::sel[1], :], [list(row) for row in full[::sel[1]]]
        elif k == "tolist":
            arg, model = w.tolist(), full
        else:
            raise ValueError(sel)
        keep = (lw, full)
    else:
        data = spec["data"]
        if form == "str_scalar":
            arg, model = data, data
        elif not is2d(data):
            d = list(data)
            model = d
            wide = f"<U{max(len(x) for x in d) + 5}"
            if form == "list":
                arg = list(d)
            elif form == "tuple":
                arg = tuple(d)
            elif form == "arr":
                arg = np.array(d)
            elif form == "arr_obj":
                arg = np.array(d, dtype=object)
            elif form == "arr_wide":
                arg = np.array(d, dtype=wide)
            elif form == "arr_rev":
                arg = np.array(d[::-1])[::-1]
            elif form == "arr_strided":
                arg = np.array([x for w_ in d for x in (w_, "JUNK")])[::2]
            elif form == "arr_ro":
                arg = np.array(d)
                arg.flags.writeable = False
            elif form == "col2d":
                arg = np.array(d).reshape(-1, 1)
            elif form == "col2d_F":
                arg = np.asfortranarray(np.array(d).reshape(-1, 1))
            elif form == "row2d":
                arg = np.array(d).reshape(1, -1)
            elif form == "nested_col":
                arg = [[x] for x in d]
            elif form == "nested_row":
                arg = [list(d)]
            else:
                raise ValueError(form)
        else:
            m = [list(r) for r in data]
            model = m
            R, C = len(m), len(m[0])
            if form == "nested":
                arg = [list(r) for r in m]
            elif form == "nested_tuple":
                arg = tuple(tuple(r) for r in m)
            elif form == "arr_C":
                arg = np.array(m)
            elif form == "arr_F":
                arg = np.asfortranarray(np.array(m))
            elif form == "arr_T":
                arg = np.array([list(col) for col in zip(*m)]).T
            elif form == "arr_obj2":
                arg = np.empty((R, C), dtype=object)
                for r in range(R):
                    for c in range(C):
                        arg[r, c] = m[r][c]
            elif form == "arr_sub":
                big = [["PAD"] * (C + 2)] + [["PAD"] + r + ["PAD"] for r in m] + [["PAD"] * (C + 2)]
                arg = np.array(big)[1:R + 1, 1:C + 1]
            elif form == "arr_flip":
                arg = np.array(m[::-1])[::-1, :]
            elif form == "arr_step":
                big = []
                for r in m:
                    big.append([x for w_ in r for x in (w_, "JUNK")])
                    big.append(["JUNK"] * (2 * C))
                arg = np.array(big)[::2, ::2]
            elif form == "list_of_arrays":
                arg = [np.array(r) for r in m]
            else:
                raise ValueError(form)
    if logical(arg) != flat_of(model):  # builder self-check (bug in this script, not in the library)
        raise AssertionError(f"builder of {spec} is inconsistent")
    return arg, model, keep


def premutate(arg, model, op):
    """the caller changes a well object in place (arg and own model alike); -> new model"""
    two = is2d(model)
    k = op[0]
    if k == "append" and isinstance(arg, list) and not two:
        arg.append(op[1])
        return model + [op[1]]
    if k == "pop" and isinstance(arg, list) and not two and len(model) > 1:
        arg.pop()
        return model[:-1]
    if k in ("reverse", "pop"):
        if isinstance(arg, list):
            arg.reverse()
        else:
            arg[:] = arg[::-1].copy()
        return model[::-1]
    if k == "rotate" and not two:
        if isinstance(arg, list):
            arg.append(arg.pop(0))
        else:
            arg[:] = np.roll(arg, -1)
        return model[1:] + model[:1]
    # set one element (also the fallback)
    idx, new = (op[1], op[2]) if k == "set" else (0, "Q42")
    if isinstance(arg, np.ndarray) and arg.dtype.kind == "U":
        new = new[:max(1, arg.dtype.itemsize // 4)]  # what a fixed-width string array can hold
    if two:
        R, C = len(model), len(model[0])
        r, c = divmod(idx % (R * C), C)
        if isinstance(arg, list):
            arg[r][c] = new
        else:
            arg[r, c] = new
        model = [list(row) for row in model]
        model[r][c] = new
        return model
    i = idx % len(model)
    arg[i] = new
    model = list(model)
    model[i] = new
    return model


# ---------------------------------------------------------------- n
class MyInt(int):
    pass


def build_n(spec):
    """-> (object passed as n, category 'int' | 'like' | 'bad', integer value or None)"""
    t, v = spec["t"], spec.get("v")
    if t == "int":
        return int(v), "int", int(v)
    if t == "bool":
        return bool(v), "like", int(bool(v))
    if t == "intenum":
        return enum.IntEnum("Tip", {"T": int(v)}).T, "like", int(v)
    if t == "intsub":
        return MyInt(v), "like", int(v)
    if t == "np":
        return getattr(np, spec["dtype"])(v), "like", int(v)
    if t == "float":
        return float(v), "bad", None
    if t == "npfloat":
        return getattr(np, spec["dtype"])(float(v)), "bad", None
    if t == "none":
        return None, "bad", None
    if t == "str":
        return str(v), "bad", None
    if t == "complex":
        return complex(v, 0), "bad", None
    if t == "fraction":
        return fractions.Fraction(v[0], v[1]), "bad", None
    if t == "decimal":
        return decimal.Decimal(str(v)), "bad", None
    if t == "nparr0":
        return np.array(v), "bad", None
    if t == "nparr1":
        return np.array([v]), "bad", None
    if t == "list":
        return [v], "bad", None
    if t == "tuple":
        return (v,), "bad", None
    raise ValueError(spec)


def n_text(spec):
    t = spec["t"]
    if t == "int":
        return str(spec["v"])
    return f"{t}{'/' + spec['dtype'] if 'dtype' in spec else ''}({spec.get('v')!r})"


def w_text(spec):
    s = json.dumps(spec)
    return s if len(s) <= 150 else s[:147] + "..."


# ---------------------------------------------------------------- the oracle
def check_result(res, flat, n):
    """-> problem text or None"""
    if type(res) is not list:
        return f"TYPE result is a {type(res).__name__}, not a list"
    if len(res) != n:
        return f"LEN result has {len(res)} elements, expected exactly n = {n}"
    L = len(flat)
    if n <= DIRECT_LIMIT:
        for i, x in enumerate(res):
            if not isinstance(x, str):
                return f"TYPE element {i} is a {type(x).__name__}, not a string"
            if str(x) != flat[i % L]:
                return f"ELEM element {i} is {str(x)!r}, expected {flat[i % L]!r} = column-major well {i % L} of {L}"
        return None
    for j in range(min(L, n)):
        sub = res[j::L]
        if sub.count(flat[j]) != len(sub):
            i = next(j + k * L for k, x in enumerate(sub) if not (x == flat[j]))
            return f"ELEM element {i} is {str(res[i])!r}, expected {flat[j]!r} = column-major well {j} of {L}"
    for i in list(range(0, 3000)) + list(range(n - 3000, n)):
        if not isinstance(res[i], str) or str(res[i]) != flat[i % L]:
            return f"ELEM element {i} is {res[i]!r}, expected the string {flat[i % L]!r}"
    return None


def mutate_result(lst, op):
    """what a caller may do with the returned plain list"""
    k = op[0]
    if k == "append":
        lst.append(op[1])
    elif k == "extend":
        lst.extend(["X98", "X99"])
    elif k == "reverse":
        lst.reverse()
    elif k == "clear":
        lst.clear()
    elif k == "sort":
        lst.sort()
    elif k == "insert0":
        lst.insert(0, op[1])
    elif k == "pop":
        if lst:
            lst.pop()
        else:
            lst.append("X97")
    elif k == "del0":
        if lst:
            del lst[0]
        else:
            lst.append("X97")
    elif k == "set":
        if lst:
            lst[op[1] % len(lst)] = op[2]
        else:
            lst.append(op[2])
    else:
        raise ValueError(op)


def run_case(case):
    """execute one call sequence -> list of problem texts (empty = property holds on this case)"""
    problems = []
    objs = [list(build_wells(s)) + [s, False] for s in case.get("objs", [])]
    held = []  # (step number, result object, expected content as own list of str)
    for si, step in enumerate(case["steps"]):
        if "o" in step:
            ob = objs[step["o"]]
            if "pre" in step:
                ob[1] = premutate(ob[0], ob[1], step["pre"])
                ob[4] = True
            arg, model, keep, wspec, changed = ob
            wdesc = f"obj{step['o']} = {w_text(wspec)}" + (f" changed in place by the caller, now holding {str(model)[:160]}" if changed else "")
        else:
            arg, model, keep = build_wells(step["w"])
            wdesc = w_text(step["w"])
        n_obj, ncat, nval = build_n(step["n"])
        flat = flat_of(model)
        head = f"step {si}: " if len(case["steps"]) > 1 else ""
        head += f"get_trough_wells({n_text(step['n'])}, {wdesc})"
        before = freeze(arg)
        exc = res = None
        try:
            res = get_trough_wells(n=n_obj, trough_wells=arg) if step.get("kw") else get_trough_wells(n_obj, arg)
        except Exception as e:  # noqa
            exc = e
        if freeze(arg) != before:
            problems.append(f"{head}: INPUT the given wells were modified by the call")
        if keep is not None and keep[0].wells.tolist() != keep[1]:
            problems.append(f"{head}: INPUT the wells array of the labware was modified by the call")
        must_reject = ncat == "bad" or nval < 0 or not flat
        why = "non-integer n" if ncat == "bad" else "negative n" if (nval is not None and nval < 0) else "empty well collection"
        if must_reject:
            if exc is None:
                problems.append(f"{head}: ACCEPT {why} not rejected, returned {str(res)[:80]}")
            elif not isinstance(exc, (ValueError, TypeError)):
                problems.append(f"{head}: CRASH {why} not rejected with ValueError/TypeError but {type(exc).__name__}: {exc}")
            continue
        if exc is not None:
            if ncat == "like" and isinstance(exc, (ValueError, TypeError)):
                continue
            problems.append(f"{head}: REFUSED valid call raised {type(exc).__name__}: {str(exc)[:120]}")
            continue
        if res is arg:
            problems.append(f"{head}: INPUT the result is the input object itself")
            continue
        what = check_result(res, flat, nval)
        if what:
            problems.append(f"{head}: {what}")
            continue
        expected = [flat[i % len(flat)] for i in range(nval)] if nval <= DIRECT_LIMIT else None
        if "mut" in step:
            mutate_result(res, step["mut"])
            if expected is not None:
                mutate_result(expected, step["mut"])
        if expected is not None:
            held.append((si, res, expected))
        if len(problems) >= 3:
            break
    for si, res, expected in held:
        if len(res) != len(expected) or any(str(a) != b for a, b in zip(res, expected)):
            problems.append(f"HELD the list returned in step {si} (get_trough_wells({n_text(case['steps'][si]['n'])}, ..)) was changed by other calls / "
                            f"shares state with another result: now {str([str(x) for x in res])[:100]}, the caller left it as {str(expected)[:100]}")
            break
    return problems


# ---------------------------------------------------------------- generators
def I(v):  # noqa: E743
    return {"t": "int", "v": v}


def single(n, w, **kw):
    return {"steps": [dict({"n": n, "w": w}, **kw)]}


def ids_1d(L, style=0):
    """L well IDs (distinct) in several naming styles"""
    if style == 0:  # one trough column A01..Z01 (continuing in the next column beyond 26)
        return [wid(r % 26, r // 26) for r in range(L)]
    if style == 1:  # column-major through an 8-row plate
        return [wid(i % 8, i // 8) for i in range(L)]
    if style == 2:  # row of a plate
        return [wid(0, c) for c in range(L)]
    if style == 3:  # descending
        return [wid(r % 26, r // 26) for r in range(L)][::-1]
    # irregular names, mixed widths
    return [f"{LETTERS[(7 * i + 3) % 26]}{(5 * i) % 24 + 1}" + ("" if i % 3 else "x") + ("" if i < 26 else str(i // 26)) for i in range(L)]


def n_grid(L, R=None, big=True):
    s = {0, 1, 2, L - 1, L, L + 1, 2 * L - 1, 2 * L, 2 * L + 1, 3 * L, 7 * L, 7 * L + 3, 8, 9, 16, 17, 26, 27}
    if R:
        s |= {R - 1, R, R + 1, L + R}
    if big:
        s |= {96, 100 * L, 100 * L + L // 2, 384, 1000}
    return sorted(x for x in s if x >= 0)


BAD_N = [{"t": "float", "v": v} for v in ["0.5", "3.0", "0.0", "-0.0", "2.5", "1e308", "nan", "inf", "-inf", "-1.0", "-0.5", "1e-320", "4.000000000000001"]] + [
    {"t": "npfloat", "dtype": "float64", "v": "3.0"}, {"t": "npfloat", "dtype": "float32", "v": "2.0"}, {"t": "npfloat", "dtype": "float16", "v": "nan"},
    {"t": "none"}, {"t": "str", "v": "3"}, {"t": "str", "v": ""}, {"t": "str", "v": "A01"}, {"t": "complex", "v": 3}, {"t": "fraction", "v": [3, 1]},
    {"t": "fraction", "v": [7, 2]}, {"t": "decimal", "v": 3}, {"t": "decimal", "v": "2.5"}, {"t": "nparr0", "v": 3}, {"t": "nparr1", "v": 3},
    {"t": "nparr0", "v": 2.0}, {"t": "list", "v": 3}, {"t": "tuple", "v": 3}]
NEG_N = [-1, -2, -3, -8, -26, -27, -1000, -2**31, -2**31 - 1, -2**63, -2**63 - 1, -2**64, -10**30]
NP_INTS = [("int8", 100), ("uint8", 200), ("int16", 300), ("uint16", 40000), ("int32", 70000), ("uint32", 5), ("int64", 12), ("uint64", 7), ("intp", 9)]


def like_ns(v):
    out = [{"t": "intenum", "v": v}, {"t": "intsub", "v": v}, {"t": "np", "dtype": "int64", "v": v}]
    if v >= 0:
        out.append({"t": "np", "dtype": "uint8" if v < 256 else "uint32", "v": v})
    if v in (0, 1):
        out.append({"t": "bool", "v": bool(v)})
    return out


def shapes_upto(total):
    return [(R, C) for R in range(1, total + 1) for C in range(1, total + 1) if R * C <= total]


def gen_enumerated(tier):
    quick = tier == "quick"
    # E: empty collections are rejected for every n
    for v in EMPTY_VARIANTS:
        for n in [I(0), I(1), I(3), I(8), I(-1), {"t": "float", "v": "1.0"}, {"t": "intenum", "v": 2}, {"t": "np", "dtype": "int64", "v": 0}]:
            yield single(n, {"form": "empty", "variant": v})
    # F: non-integer and negative n are rejected, integer-like n never gives a different list
    some_w = [{"form": "list", "data": ids_1d(3)}, {"form": "arr", "data": ids_1d(8)}, {"form": "arr_C", "data": plate(4, 2)},
              {"form": "trough", "R": 8, "C": 1, "sel": ["all"]}, {"form": "list", "data": ["A01"]}, {"form": "tuple", "data": ids_1d(26)}]
    for w in some_w:
        for n in BAD_N:
            yield single(n, w)
            yield single(n, w, kw=True)
        for v in NEG_N:
            yield single(I(v), w)
            for n in like_ns(v)[:2] + ([{"t": "np", "dtype": "int64", "v": v}] if v >= -2**63 else []):
                yield single(n, w)
        for v in [0, 1, 2, 3, 4, 7, 8, 9, 16, 26, 27, 255, 256, 1000]:
            for n in like_ns(v):
                yield single(n, w)
        for dt, v in NP_INTS:
            yield single({"t": "np", "dtype": dt, "v": v}, w)
    # D: repeated IDs
    reps = [["A01", "A01", "B01"], ["A01", "B01", "A01"], ["A01", "B01", "C01", "D01", "A01", "B01"], ["A01"] * 5, ["A01", "B01", "B01", "A01"],
            ["A01", "B01", "C01", "A01", "B01", "C01", "A01"], ids_1d(9) + ["A01"], ["B01"] + ids_1d(8), ids_1d(8) * 2, ids_1d(13) * 2,
            ["A01", "a01", "A1", "A01 "[:3]], ids_1d(25) + ["Y01"]]
    for d in reps:
        L = len(d)
        for form in FORMS_1D:
            for n in n_grid(L, big=False):
                yield single(I(n), {"form": form, "data": d})
    reps2 = [[["A01", "A01"], ["B01", "B01"]], [["A01", "B01"], ["A01", "B01"]], [["A01", "A02", "A01"], ["B01", "B02", "B01"]],
             [["A01", "B01", "C01"], ["B01", "C01", "A01"], ["C01", "A01", "B01"]], [["A01"] * 4] * 3, [[wid(r, 0), wid(r, 1), wid(r, 0)] for r in range(8)]]
    for m in reps2:
        L = len(m) * len(m[0])
        for form in FORMS_2D:
            for n in n_grid(L, len(m), big=False):
                yield single(I(n), {"form": form, "data": m})
    # H: call sequences
    yield from gen_sequences(tier)
    # A: every length 1..26, 1-D collections in every representation, n grid
    for L in range(1, 27):
        for style in ([0, 4] if quick else [0, 1, 2, 3, 4]):
            d = ids_1d(L, style)
            for fi, form in enumerate(FORMS_1D):
                for n in n_grid(L, big=(not quick or fi < 3)):
                    yield single(I(n), {"form": form, "data": d}, kw=bool((n + fi) % 2))
        yield single(I(L), {"form": "str_scalar", "data": wid(L - 1, 0)})
    # B: every 2-D geometry with at most 26 wells (+ some plates), every representation
    geos = shapes_upto(26) + [(8, 12), (16, 24), (8, 4), (4, 8), (26, 2), (2, 26), (5, 7), (26, 30)]
    for (R, C) in geos:
        m = plate(R, C)
        L = R * C
        for fi, form in enumerate(FORMS_2D):
            for n in n_grid(L, R, big=(not quick and L <= 26)):
                if quick and n > 3 * L + R and (n + fi) % 3:
                    continue
                yield single(I(n), {"form": form, "data": m}, kw=bool((n + fi) % 2))
        if R <= 26:
            for lab in ("trough", "labware"):
                for sel in (["all"], ["T"], ["tolist"]):
                    for n in [0, 1, R, R + 1, L - 1, L, L + 1, 2 * L, 2 * L + R + 1]:
                        yield single(I(n), {"form": lab, "R": R, "C": C, "sel": sel})
    # C: slices of real trough / plate well arrays
    for (R, C) in [(1, 1), (1, 3), (2, 2), (4, 2), (4, 3), (6, 1), (8, 1), (8, 2), (8, 3), (8, 12), (16, 2), (16, 1), (26, 1), (13, 2), (3, 8)]:
        L = R * C
        sels = [["col", j] for j in sorted({0, C - 1, C // 2})]
        sels += [["cols", a, b] for a in range(0, min(C, 4)) for b in range(a + 1, min(C, 5) + 1) if b <= C]
        sels += [["rows", a, b] for (a, b) in {(0, 1), (0, R), (1, R), (0, max(1, R // 2)), (R // 2, R)} if a < b <= R]
        sels += [["rowscol", a, b, C - 1] for (a, b) in {(0, R), (1, R), (0, max(1, R - 1))} if a < b <= R]
        sels += [["step", 2], ["step", 3], ["fancy", [0, R - 1, 0, R - 1], 0], ["fancy", list(range(R)) + [0], C - 1],
                 ["fancy2", [R - 1, 0], [C - 1, 0]], ["fancy2", [0, 0, R - 1], [0, C - 1, C - 1]]]
        for sel in sels:
            spec = {"form": "trough" if R != 3 else "labware", "R": R, "C": C, "sel": sel}
            k = len(flat_of(build_wells(spec)[1]))
            for n in sorted({0, 1, k - 1, k, k + 1, 2 * k, 2 * k + 1, 8, 9, 3 * k + 2} - {-1}):
                yield single(I(n), spec)
    # G: large n
    bigs = [4095, 4096, 4097, 10**4, 65535, 65536, 65537, 10**5, 2 * 10**5 + 1, 2**20 + 1] + ([] if quick else [10**6, 2**22 - 1, 2**24 + 1, 10**7])
    for n in bigs:
        for w in [{"form": "list", "data": ["A01"]}, {"form": "arr", "data": ids_1d(3)}, {"form": "list", "data": ids_1d(7)}, {"form": "trough", "R": 8, "C": 1, "sel": ["all"]},
                  {"form": "arr_C", "data": plate(13, 2)}, {"form": "arr_T", "data": plate(4, 3)}, {"form": "tuple", "data": ids_1d(26)}, {"form": "list", "data": ids_1d(9) + ["A01"]}]:
            L = len(flat_of(build_wells(w)[1]))
            for nn in sorted({n, n - n % L, n - n % L + L - 1}):
                yield single(I(nn), w)


MUTS = [["append", "X01"], ["reverse"], ["clear"], ["pop"], ["del0"], ["set", 0, "X02"], ["set", -1, "X03"], ["extend"], ["sort"], ["insert0", "X04"]]


def equal_forms(d):
    """different objects holding the same wells in the same column-major order"""
    return [{"form": f, "data": d} for f in ("list", "tuple", "arr", "arr_obj", "col2d", "nested_col", "arr_wide", "row2d")]


def gen_sequences(tier):
    quick = tier == "quick"
    Ls = [1, 2, 3, 4, 6, 8, 9, 12, 16, 26] if quick else list(range(1, 27))
    for L in Ls:
        d = ids_1d(L)
        eq = equal_forms(d)
        for n in sorted({0, 1, L - 1, L, L + 1, 2 * L, 3 * L + 1}):
            if n < 0:
                continue
            for mi, mut in enumerate(MUTS):
                a, b = eq[mi % len(eq)], eq[(mi + 1 + n) % len(eq)]
                # the caller spoils the first result, then asks again with equal arguments (same and other representation, other n type)
                yield {"steps": [{"n": I(n), "w": a, "mut": mut}, {"n": I(n), "w": a}, {"n": I(n), "w": b, "kw": True},
                                 {"n": like_ns(n)[mi % len(like_ns(n))], "w": a}, {"n": I(n), "w": a, "mut": MUTS[(mi + 3) % len(MUTS)]}, {"n": I(n), "w": b}]}
            # two results of equal calls must be independent objects: change the later one, the earlier one is re-checked at the end
            yield {"steps": [{"n": I(n), "w": eq[0]}, {"n": I(n), "w": eq[0], "mut": ["reverse"]}, {"n": I(n), "w": eq[2], "mut": ["append", "X05"]},
                             {"n": I(n), "w": eq[2]}]}
        # equal n, equal length, other wells / other order / other n with the same wells
        others = [ids_1d(L, 3), ids_1d(L, 2), ids_1d(L, 4), d[1:] + d[:1], [d[0]] * L]
        for n in sorted({1, L, L + 1, 2 * L + 1}):
            steps = [{"n": I(n), "w": {"form": "list", "data": d}}]
            for oi, o in enumerate(others):
                steps.append({"n": I(n), "w": {"form": ["list", "arr", "tuple"][oi % 3], "data": o}})
                steps.append({"n": I(n + oi), "w": {"form": "arr", "data": d}})
            steps.append({"n": I(n), "w": {"form": "list", "data": d}})
            yield {"steps": steps}
        # the same object, changed in place by the caller between the calls
        for form in ["list", "arr", "arr_obj", "arr_wide"]:
            for n in sorted({1, L, 2 * L + 1}):
                yield {"objs": [{"form": form, "data": d}],
                       "steps": [{"n": I(n), "o": 0}, {"n": I(n), "o": 0, "pre": ["set", L - 1, "Q42"]}, {"n": I(n), "o": 0, "pre": ["reverse"], "mut": ["reverse"]},
                                 {"n": I(n), "o": 0}, {"n": I(n), "o": 0, "pre": ["rotate"]}, {"n": I(n), "o": 0, "pre": ["append", "Q43"]},
                                 {"n": I(n + 1), "o": 0, "pre": ["append", "Q44"]}, {"n": I(n), "o": 0, "pre": ["pop"]}, {"n": I(n), "o": 0}]}
    # 2-D: equal content, other memory layout / other shape with the same memory; results spoiled in between
    for (R, C) in [(2, 2), (4, 2), (2, 4), (3, 3), (8, 2), (4, 3), (2, 13), (13, 2), (8, 3), (1, 5), (5, 1)] if not quick else [(2, 2), (4, 2), (2, 4), (8, 3), (13, 2)]:
        m = plate(R, C)
        mt = [[m[r][c] for r in range(R)] for c in range(C)]  # transposed plate: same IDs, other order
        L = R * C
        for n in sorted({1, R, R + 1, L, L + 1, 2 * L + R}):
            steps = []
            for fi, form in enumerate(FORMS_2D):
                steps.append({"n": I(n), "w": {"form": form, "data": m}, "mut": MUTS[(fi + n) % len(MUTS)]})
                steps.append({"n": I(n), "w": {"form": FORMS_2D[(fi + 3) % len(FORMS_2D)], "data": mt}})
                steps.append({"n": I(n), "w": {"form": "list", "data": flat_of(m)}})
                steps.append({"n": I(n), "w": {"form": "arr", "data": [x for row in m for x in row]}})  # the row-major reading as a 1-D array
            steps.append({"n": I(n), "w": {"form": "trough", "R": R, "C": C, "sel": ["all"]}, "mut": ["clear"]})
            steps.append({"n": I(n), "w": {"form": "trough", "R": R, "C": C, "sel": ["all"]}})
            steps.append({"n": I(n), "w": {"form": "trough", "R": R, "C": C, "sel": ["T"]}})
            yield {"steps": steps}
        for form in ["nested", "arr_C", "arr_F", "arr_obj2"]:
            yield {"objs": [{"form": form, "data": m}],
                   "steps": [{"n": I(L + 1), "o": 0, "mut": ["pop"]}, {"n": I(L + 1), "o": 0, "pre": ["set", 1, "Q42"]}, {"n": I(L + 1), "o": 0, "pre": ["reverse"]},
                             {"n": I(L + 1), "o": 0, "pre": ["set", L - 1, "Q43"], "mut": ["sort"]}, {"n": I(L + 1), "o": 0}]}
    # n given as 4, then as an equal-comparing enum member / bool / numpy integer / float, spoiled results in between
    for w in [{"form": "list", "data": ids_1d(3)}, {"form": "trough", "R": 8, "C": 1, "sel": ["all"]}, {"form": "arr_C", "data": plate(4, 2)}, {"form": "list", "data": ids_1d(26)}]:
        for v in [0, 1, 4, 8, 9, 27]:
            steps = [{"n": I(v), "w": w, "mut": ["append", "X06"]}]
            for nn in like_ns(v) + [{"t": "float", "v": repr(float(v))}, {"t": "npfloat", "dtype": "float64", "v": repr(float(v))}, {"t": "str", "v": str(v)},
                                    {"t": "decimal", "v": v}, {"t": "fraction", "v": [v, 1]}, {"t": "complex", "v": v}]:
                steps.append({"n": nn, "w": w, "mut": ["reverse"]})
                steps.append({"n": I(v), "w": w, "mut": ["insert0", "X07"]})
            yield {"steps": steps}
            yield {"steps": steps[::-1]}
    # rejected calls must not disturb later valid calls (and the other way round)
    w = {"form": "list", "data": ids_1d(4)}
    yield {"steps": [{"n": I(5), "w": w}, {"n": I(-5), "w": w}, {"n": I(5), "w": {"form": "empty", "variant": "list"}}, {"n": {"t": "float", "v": "5.0"}, "w": w},
                     {"n": I(5), "w": w, "mut": ["clear"]}, {"n": I(5), "w": {"form": "empty", "variant": "3x0"}}, {"n": I(5), "w": w}, {"n": I(0), "w": w, "mut": ["append", "X08"]},
                     {"n": I(0), "w": w}, {"n": I(0), "w": {"form": "arr", "data": ids_1d(4)}}]}
    # many different geometries one after another in one sequence (results kept and re-checked at the end)
    for n_mode in range(4):
        steps = []
        for (R, C) in shapes_upto(26 if not quick else 16):
            L = R * C
            n = [L, L + 1, 2 * L + R, 8][n_mode]
            form = FORMS_2D[(R + C + n_mode) % len(FORMS_2D)]
            steps.append({"n": I(n), "w": {"form": form, "data": plate(R, C)}, **({"mut": MUTS[(R * C) % len(MUTS)]} if (R + C) % 3 == 0 else {})})
        yield {"steps": steps}
        yield {"steps": steps[::-1]}


def rand_ids(rng, L):
    r = rng.random()
    if r < .3:
        d = ids_1d(L, rng.randrange(5))
    elif r < .6:
        pool = [wid(a, b) for a in range(rng.choice([1, 4, 8, 16, 26])) for b in range(rng.choice([1, 2, 3, 12]))]
        rng.shuffle(pool)
        d = (pool * (L // len(pool) + 1))[:L] if len(pool) < L else pool[:L]
    elif r < .85:  # repeated IDs
        base = ids_1d(rng.randint(1, max(1, L // 2 + 1)), rng.randrange(4))
        d = [rng.choice(base) for _ in range(L)]
    else:
        d = [rng.choice(["A1", "B12", "H12", "trough", "w", "A01", "P24", "AA10", "a01", "1", "A001"]) + rng.choice(["", "", "_" + str(rng.randrange(30))]) for _ in range(L)]
    if rng.random() < .3:
        rng.shuffle(d)
    return d


def rand_L(rng):
    r = rng.random()
    if r < .25:
        return rng.choice([1, 2, 3, 7, 8, 9, 16, 25, 26])
    if r < .93:
        return rng.randint(1, 26)
    return rng.choice([27, 32, 48, 96, 100, 384])


def rand_wells(rng, L=None):
    L = L or rand_L(rng)
    r = rng.random()
    if r < .4:
        return {"form": rng.choice(FORMS_1D), "data": rand_ids(rng, L)}
    if r < .8:
        divs = [a for a in range(1, L + 1) if L % a == 0]
        R = rng.choice(divs)
        C = L // R
        d = rand_ids(rng, L)
        m = [d[r_ * C:(r_ + 1) * C] for r_ in range(R)]
        return {"form": rng.choice(FORMS_2D), "data": m}
    R, C = rng.choice([(rng.randint(1, 26), rng.randint(1, 4)), (8, 12), (16, 24), (8, 1), (4, 2), (rng.randint(1, 8), rng.randint(1, 12))])
    a = rng.randrange(R)
    b = rng.randint(a + 1, R)
    ca = rng.randrange(C)
    cb = rng.randint(ca + 1, C)
    sel = rng.choice([["all"], ["col", ca], ["cols", ca, cb], ["rows", a, b], ["rowscol", a, b, ca], ["T"], ["step", rng.randint(1, 4)], ["tolist"],
                      ["fancy", [rng.randrange(R) for _ in range(rng.randint(1, 12))], ca],
                      ["fancy2", [rng.randrange(R) for _ in range(rng.randint(1, 5))], [rng.randrange(C) for _ in range(rng.randint(1, 4))]]])
    return {"form": rng.choice(["trough", "trough", "labware"]), "R": R, "C": C, "sel": sel}


def rand_n(rng, L, cap=10**5):
    r = rng.random()
    k = rng.choice([1, 1, 2, 2, 3, 4, 5, 8, 12, rng.randint(1, 60)])
    if r < .45:
        v = k * L + rng.choice([0, 0, 0, -1, 1, 1, L // 2, -(L // 2)])
    elif r < .6:
        v = rng.choice([0, 0, 1, 2, 7, 8, 9, 15, 16, 17, 24, 25, 26, 27, 95, 96, 97, 383, 384, 385])
    elif r < .9:
        v = rng.randint(0, 300)
    elif r < .985:
        v = rng.randint(0, 5000)
    else:
        v = rng.randint(min(5000, cap // 2), cap)
    v = max(0, v)
    r = rng.random()
    if r < .8:
        return I(v)
    if r < .88:
        return rng.choice(like_ns(v))
    if r < .92:
        return I(-rng.choice([1, 2, max(1, v), L, 10**9, 2**63 + 5]))
    if r < .96:
        return rng.choice(BAD_N)
    return {"t": rng.choice(["float", "decimal", "str"]), "v": repr(float(v)) if rng.random() < .5 else str(v) + ".5"}


def gen_random(rng):
    while True:
        r = rng.random()
        if r < .55:
            w = rand_wells(rng)
            L = max(1, len(flat_of(build_wells(w)[1])))
            if rng.random() < .03:
                w = {"form": "empty", "variant": rng.choice(EMPTY_VARIANTS)}
            yield single(rand_n(rng, L), w, kw=rng.random() < .3)
            continue
        # a call sequence over a small pool of related well collections and n values
        L = rand_L(rng) if rng.random() < .8 else rng.randint(1, 6)
        base = rand_ids(rng, L)
        pool = [{"form": rng.choice(FORMS_1D), "data": base}, {"form": rng.choice(["list", "arr", "tuple"]), "data": base}]
        for _ in range(rng.randint(0, 3)):
            t = rng.random()
            if t < .3:
                pool.append(rand_wells(rng, L))
            elif t < .5:
                p = list(base)
                rng.shuffle(p)
                pool.append({"form": rng.choice(FORMS_1D), "data": p})
            elif t < .8:
                divs = [a for a in range(1, L + 1) if L % a == 0]
                R = rng.choice(divs)
                C = L // R
                # same memory order as `base` (row-major), other column-major reading
                pool.append({"form": rng.choice(FORMS_2D), "data": [base[i * C:(i + 1) * C] for i in range(R)]})
            else:
                pool.append({"form": rng.choice(FORMS_1D), "data": rand_ids(rng, max(1, L + rng.choice([-1, 1])))})
        objs = []
        for _ in range(rng.choice([0, 0, 1, 2])):
            if rng.random() < .6 or L < 2:
                objs.append({"form": rng.choice(["list", "arr", "arr_obj", "arr_wide"]), "data": list(base)})
            else:
                divs = [a for a in range(1, L + 1) if L % a == 0]
                R = rng.choice(divs)
                C = L // R
                objs.append({"form": rng.choice(["nested", "arr_C", "arr_F", "arr_obj2"]), "data": [base[i * C:(i + 1) * C] for i in range(R)]})
        ns = [rand_n(rng, L, cap=3000) for _ in range(rng.randint(1, 3))]
        steps = []
        for _ in range(rng.randint(2, 14)):
            st = {"n": rng.choice(ns) if rng.random() < .85 else rand_n(rng, L, cap=3000)}
            if objs and rng.random() < .4:
                st["o"] = rng.randrange(len(objs))
                if rng.random() < .6:
                    st["pre"] = rng.choice([["set", rng.randrange(64), "Q" + str(rng.randint(10, 99))], ["reverse"], ["rotate"], ["append", "Q" + str(rng.randint(10, 99))], ["pop"]])
            else:
                st["w"] = rng.choice(pool)
            if rng.random() < .5:
                st["mut"] = rng.choice(MUTS)
            if rng.random() < .3:
                st["kw"] = True
            steps.append(st)
        case = {"steps": steps}
        if objs:
            case["objs"] = objs
        yield case


# ---------------------------------------------------------------- harness
def key_of(case):
    return json.dumps({k: v for k, v in case.items() if k != "context"}, sort_keys=True)


def write_replay(case, what):
    short = hashlib.sha1(key_of(case).encode()).hexdigest()[:10]
    rel = os.path.join("replays", PROP, f"bounded_{short}.json")
    os.makedirs(os.path.join(VERIF, "replays", PROP), exist_ok=True)
    with open(os.path.join(VERIF, rel), "w") as fh:
        json.dump({"property": PROP, "bounded_replay": {"script": "c19.py", "case": case}, "what": what}, fh)
    return rel


def case_stream(tier, seed, n_enum=None, n_rand=None):
    """the deterministic stream of cases of a run: ('enumerated' | 'random', case)"""
    for i, c in enumerate(gen_enumerated(tier)):
        if n_enum is not None and i >= n_enum:
            break
        yield "enumerated", c
        if n_enum is None and (yield_stop[0]):
            break
    for i, c in enumerate(gen_random(random.Random(seed))):
        if n_rand is not None and i >= n_rand:
            break
        yield "random", c


yield_stop = [False]  # set by main() when the time share of the enumeration is used up


def replay(path):
    if not os.path.isabs(path) and not os.path.exists(path):
        path = os.path.join(VERIF, path)
    with open(path) as fh:
        case = json.load(fh)["bounded_replay"]["case"]
    print(f"replay {PROP} case:", key_of(case)[:2000])
    probs = run_case(case)
    ctx = case.get("context")
    if not probs and ctx:
        print(f"the case passes in a fresh process; repeating it after the {ctx['enum']} enumerated + {ctx['rand']} random cases "
              f"(tier {ctx['tier']}, seed {ctx['seed']}) that preceded it in the monitor run")
        seen = set()
        for _, c in case_stream(ctx["tier"], ctx["seed"], ctx["enum"], ctx["rand"]):
            k = key_of(c)
            if k not in seen:
                seen.add(k)
                run_case(c)
        probs = run_case(case)
    for p in probs:
        print("VIOLATION", p)
    print("observed:", "still fails" if probs else "property holds on this case")
    return 1 if probs else 0


def reproduces(rel):
    """does the replay file fail in a fresh process? (only ever called when a failure was observed)"""
    try:
        r = subprocess.run([sys.executable, os.path.abspath(__file__), "--replay", os.path.join(VERIF, rel)], stdout=subprocess.DEVNULL,
                           stderr=subprocess.DEVNULL, timeout=120, env=dict(os.environ))
        return r.returncode == 1
    except Exception:  # noqa
        return False


def main():
    if len(sys.argv) >= 3 and sys.argv[1] == "--replay":
        sys.exit(replay(sys.argv[2]))
    tier = sys.argv[1] if len(sys.argv) > 1 else "quick"
    seed = int(sys.argv[2]) if len(sys.argv) > 2 else 0
    quick = tier == "quick"
    budget = 14 if quick else 200
    t0 = time.time()
    seen, failures, samples = set(), [], []
    fail_kinds = collections.Counter()
    listed = collections.Counter()
    counts = collections.Counter()
    calls = collections.Counter()
    pos = {"enumerated": 0, "random": 0}  # cases taken from the stream so far
    verifications = [0]

    def part_of(case, source):
        if len(case["steps"]) > 1:
            return f"call sequences [{source}]"
        st = case["steps"][0]
        if st["n"]["t"] != "int" or st["n"]["v"] < 0 or st.get("w", {}).get("form") == "empty":
            return f"rejection of invalid n / empty wells, integer-like n [{source}]"
        f = st["w"]["form"]
        if f in ("trough", "labware"):
            return f"single calls, wells of real Trough/Labware objects and slices [{source}]"
        return f"single calls, {'2-D' if f in FORMS_2D else '1-D'} well collections [{source}]"

    def feed(case, source):
        k = key_of(case)
        if k in seen:
            return
        seen.add(k)
        part = part_of(case, source)
        counts[part] += 1
        calls[part] += len(case["steps"])
        if len(samples) < 5 and sum(counts.values()) % 2503 == 1:
            samples.append(case if len(k) < 1500 else {"steps": case["steps"][:4], "truncated_from_steps": len(case["steps"])})
        probs = run_case(case)
        if not probs:
            return
        mo = re.search(r"\): (TYPE|LEN|ELEM|INPUT|ACCEPT|CRASH|REFUSED) ", probs[0])
        cat = (mo.group(1) if mo else probs[0].split(" ")[0], part.split(" [")[0])
        fail_kinds[cat] += 1
        if listed[cat] >= 3 or len(failures) >= 12 or verifications[0] >= 30:
            return
        # a failure is listed with a replay that fails in a fresh process: the case alone or, when the failure depends on what
        # earlier cases of this run left behind in the library (at most 2 of those are listed), the case with its position in the run
        rel = write_replay(case, probs[0])
        verifications[0] += 1
        what = probs[0]
        if not reproduces(rel):
            if listed["context"] >= 2:
                os.remove(os.path.join(VERIF, rel))
                return
            listed["context"] += 1
            ctx = {"tier": tier, "seed": seed, "enum": pos["enumerated"] - (source == "enumerated"), "rand": pos["random"] - (source != "enumerated")}
            rel = write_replay(dict(case, context=ctx), probs[0])
            what = "[only after the earlier calls of this run] " + what
        listed[cat] += 1
        failures.append({"what": what[:400], "replay": rel})

    for kind, case in case_stream(tier, seed):
        pos[kind] += 1
        if kind == "enumerated":
            feed(case, "enumerated")
            yield_stop[0] = time.time() - t0 > budget * 0.75
            enumerated_done = time.time() - t0
        else:
            feed(case, f"seeded random, seed {seed}")
            if pos[kind] % 50 == 0 and time.time() - t0 > budget:
                break
    bounds = {
        "single calls, 1-D": "every length 1..26 x 13 representations (list, tuple, str/object/wide/read-only/negatively and 2-strided arrays, (L,1) and (1,L) arrays "
                             "and nested lists) x n in {0, 1, 2, L-1, L, L+1, 2L-1, 2L, 2L+1, 3L, 7L, 7L+3, 8, 9, 16, 17, 26, 27, 96, 100L, 100L+L/2, 384, 1000}; repeated IDs; "
                             "n up to 2^20+1 (quick) / 10^7 (thorough); random: lengths 1..26 (some up to 384), n <= 10^5",
        "single calls, 2-D": "every R x C with R*C <= 26 plus 8x12, 16x24, 26x30 and others x 10 representations (nested lists/tuples, C-, Fortran-ordered, transposed, object, "
                             "sub-array, flipped and strided views, list of arrays) x n grid incl. R-1, R, R+1, L-1, L, L+1, multiples; repeated rows/columns",
        "single calls, wells": "Trough / Labware of every geometry above: .wells, .wells.T, column, column range, row range, strided and fancy-indexed selections",
        "rejection": "30 kinds of non-integer n (floats incl. integral, nan, inf, denormal; numpy floats; None; str; complex; Fraction; Decimal; arrays; list; tuple), "
                     "13 negative n down to -10^30, 10 kinds of empty collections; IntEnum / int subclass / bool / 9 numpy integer types as n",
        "call sequences": "2..200 calls per sequence: results spoiled by 10 in-place list operations before equal calls (same / other representation / other n type), "
                          "equal n and length with other wells or order, well objects changed in place between calls, rejected calls in between, all geometries "
                          "one after another; every result kept and re-checked at the end of its sequence",
    }

    def bound_of(part):
        for k, v in bounds.items():
            if part.startswith(k):
                return v
        return ""

    print(json.dumps({
        "evaluations": sum(counts.values()), "distinct": len(seen), "calls": sum(calls.values()),
        "rule": "a case is a call sequence (1..~200 calls of get_trough_wells, each = (n value and type, well collection and representation, positional/keyword, "
                "what the caller does to the result / to the well object afterwards)); enumerated grids first, then seeded random cases; distinct = distinct canonical "
                "JSON of the case; every call is compared element by element with the own column-major cycling oracle",
        "samples": samples[:5],
        "parts": [{"function": "robotools.utils.get_trough_wells: " + p, "kind": "bounded " + ("enumeration" if "[enumerated]" in p else "seeded random"),
                   "bound": bound_of(p), "evaluations": c, "calls": calls[p]} for p, c in sorted(counts.items())],
        "failures": failures, "failure_classes": len(fail_kinds), "seconds": round(time.time() - t0, 1), "enumeration_seconds": round(enumerated_done, 1)}))


if __name__ == "__main__":
    main()
