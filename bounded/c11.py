#!/venv/bin/python
"""Bounded contract monitor for C11: the labware history is append-only, condensed per operation, and truthful.

After EVERY call of a generated history (add / remove / aspirate / dispense / evo_aspirate / evo_dispense / transfer /
distribute on an EvoWorklist or FluentWorklist, plus one small probing add/remove per labware at the end) the monitor
compares `Labware.history`, `Labware.report` and `Labware.volumes` with its own bookkeeping:
  append-only  every entry seen before is still there, same position, same label, bit-identical volumes (compared with deep
               copies taken by the monitor when the entry first appeared) - also after calls that raised;
  one entry    a successful call adds exactly one entry to each participating labware (one in total when source and
               destination are the same labware; also when a transfer moves nothing) and none to any other labware;
  truthful     the newest entry equals `volumes` exactly and the monitor's own model (initial + added - removed, computed from
               the call arguments with own flattening / trough aliasing) within 1e-6;
  label        the newest label is the call's label; for transfers it carries a large-volume note iff the number of extra
               pipetting pairs k = (#A; records the call emitted) - (#non-zero volumes) is > 0, and the number in the note is k;
  snapshots    arrays returned by `volumes` earlier never change afterwards;
  report       `report` equals the monitor's own rendering of its copies of the entries, in order.
Not explored (genuine finding on the pinned tree, reported separately): transfer(label="first" / "last") stores the label None
because condense_log interprets these two strings as directives.
"""
import hashlib
import json
import logging
import os
import random
import re
import sys
import time
import warnings

REPO = os.environ.get("PYVC_REPO", "/repo")
sys.path.insert(0, REPO)
VERIF = os.path.dirname(os.path.dirname(os.path.abspath(__file__)))
PROP = "C11"

import numpy as np  # noqa: E402

warnings.simplefilter("ignore")
logging.disable(logging.CRITICAL)
from robotools import EvoWorklist, FluentWorklist, Labware, Trough  # noqa: E402

ROWS = "ABCDEFGHIJKLMNOPQRSTUVWXYZ"


# ------------------------------------------------------------------ own semantics
def flat_f(x):
    """Column-major flattening of a scalar / list / rectangular list of lists."""
    if not isinstance(x, list):
        return [x]
    if x and isinstance(x[0], list):
        return [x[r][c] for c in range(len(x[0])) for r in range(len(x))]
    return list(x)


def is_trough(s):
    return s["vrows"] is not None


def widx(s, well):
    r, c = ROWS.index(well[0]), int(well[1:]) - 1
    assert len(well) == 3 and 0 <= c < s["cols"] and r < (s["vrows"] if is_trough(s) else s["rows"]), well
    return (0 if is_trough(s) else r, c)


def init_state(s):
    i, R, C = s["init"], s["rows"], s["cols"]
    if not isinstance(i, list):
        return [[float(i)] * C for _ in range(R)]
    if isinstance(i[0], list):
        return [[float(i[r][c]) for c in range(C)] for r in range(R)]
    return [[float(i[r * C + c]) for c in range(C)] for r in range(R)]


def bcast(*xs):
    n = max(len(x) for x in xs)
    return [x * n if len(x) == 1 else x for x in xs]


def book(F, L, op):
    """Books the net effect of a call on the model F; returns the participating labware names (source first)."""
    k = op["op"]
    if k in ("add", "remove", "aspirate", "dispense", "evo_aspirate", "evo_dispense"):
        s = L[op["lw"]]
        W, V = bcast(flat_f(op["wells"]), flat_f(op["vols"]))
        sign = 1 if k in ("add", "dispense", "evo_dispense") else -1
        for w, v in zip(W, V):
            r, c = widx(s, w)
            F[s["name"]][r][c] += sign * v
        return [s["name"]]
    s, d = L[op["src"]], L[op["dst"]]
    if k == "distribute":
        W = flat_f(op["dw"])
        F[s["name"]][0][op["col"]] -= op["vol"] * len(W)
        for w in W:
            r, c = widx(d, w)
            F[d["name"]][r][c] += op["vol"]
    else:
        for sw, dw, v in zip(*bcast(flat_f(op["sw"]), flat_f(op["dw"]), flat_f(op["vols"]))):
            (r, c), (r2, c2) = widx(s, sw), widx(d, dw)
            F[s["name"]][r][c] -= v
            F[d["name"]][r2][c2] += v
    return [s["name"]] + ([d["name"]] if d["name"] != s["name"] else [])


def fits(F, L):
    return all(L[n]["min"] <= x <= L[n]["max"] for n in F for row in F[n] for x in row)


def render(name, entries):
    """Own rendering of the printable report."""
    out = name
    for label, state in entries:
        out += (f"\n{label}" if label else "") + f"\n{np.round(state, decimals=1)}\n"
    return out


# ------------------------------------------------------------------ the real thing
def mk_labware(s):
    kw = dict(min_volume=s["min"], max_volume=s["max"], initial_volumes=s["init"])
    name = s.get("rname", s["name"])  # "rname": two distinct labware objects may carry the same name
    if s["kind"] == "plate":
        return Labware(name, s["rows"], s["cols"], **kw)
    if s["kind"] == "trough":
        return Trough(name, s["vrows"], s["cols"], **kw)
    return Labware(name, 1, s["cols"], virtual_rows=s["vrows"], **kw)


def arg(x, nd):
    return np.array(x) if nd and isinstance(x, list) else x


def call(op, LW, WL):
    k = op["op"]
    kw = {"label": op["label"]} if "label" in op else {}
    if k in ("add", "remove"):
        return getattr(LW[op["lw"]], k)(arg(op["wells"], op.get("nd")), arg(op["vols"], op.get("nd")), **kw)
    if k in ("aspirate", "dispense"):
        return getattr(WL[op["dev"]], k)(LW[op["lw"]], arg(op["wells"], op.get("nd")), arg(op["vols"], op.get("nd")), **kw)
    if k in ("evo_aspirate", "evo_dispense"):
        return getattr(WL["evo"], k)(LW[op["lw"]], op["wells"], (10, 1), op["tips"], op["vols"], "LC", **kw)
    if k == "transfer":
        return WL[op["dev"]].transfer(LW[op["src"]], arg(op["sw"], op.get("nd")), LW[op["dst"]], arg(op["dw"], op.get("nd")),
                                      arg(op["vols"], op.get("nd")), partition_by=op.get("pb", "auto"), wash_scheme=op.get("wash", 1), **kw)
    if k == "distribute":
        return WL[op["dev"]].distribute(LW[op["src"]], op["col"], LW[op["dst"]], arg(op["dw"], op.get("nd")), volume=op["vol"], **kw)
    raise ValueError(k)


def probes(F, L):
    """One small add/remove per labware, appended to every history so that the entries of the last call are re-examined."""
    out = []
    for n, s in L.items():
        (r, c) = max(((r, c) for r in range(s["rows"]) for c in range(s["cols"])), key=lambda rc: s["max"] - F[n][rc[0]][rc[1]])
        add = s["max"] - F[n][r][c] >= 1
        out.append({"op": "add" if add else "remove", "lw": n, "wells": f"A{c + 1:02d}" if is_trough(s) else f"{ROWS[r]}{c + 1:02d}", "vols": 1.0, "label": "probe"})
    return out


def run_case(case, with_report=True):
    """Returns (failures, stats); failures = list of one-line strings (empty = pass)."""
    stats = {"ops": 0, "ok": 0, "kinds": {}, "lvh": 0, "zero": 0}
    L = {s["name"]: s for s in case["lw"]}
    LW = {n: mk_labware(s) for n, s in L.items()}
    w = case["wl"]
    WL = {"evo": EvoWorklist(max_volume=w["max_volume"], auto_split=w["auto_split"]),
          "fluent": FluentWorklist(max_volume=w["max_volume"], auto_split=w["auto_split"])}
    F = {n: init_state(s) for n, s in L.items()}
    H = {n: [("initial", np.array(F[n]))] for n in L}  # the monitor's own copies of the entries
    refs = []  # (labware, array handed out by .volumes, deep copy)
    fails = []

    def check_prefix(tag):
        for n, lw in LW.items():
            got = lw.history
            if len(got) < len(H[n]):
                fails.append(f"{tag}: {n}.history shrank from {len(H[n])} to {len(got)} entries; lost labels {[l for l, _ in H[n]][len(got) - 1:]}")
                return
            for i, ((l0, a0), (l1, a1)) in enumerate(zip(H[n], got)):
                if l0 != l1 or not (a1.shape == a0.shape and np.array_equal(a0, a1)):
                    fails.append(f"{tag}: earlier entry #{i} of {n}.history changed: ({l0!r}, {a0.tolist()}) -> ({l1!r}, {np.asarray(a1).tolist()})")
                    return
        for n, a, cp in refs:
            if not np.array_equal(a, cp):
                fails.append(f"{tag}: an array obtained from {n}.volumes earlier changed {cp.tolist()} -> {a.tolist()}")
                return

    check_prefix("after construction")
    ops = list(case["ops"])
    i = 0
    while i < len(ops) and not fails:
        op = ops[i]
        tag = f"op#{i} {op['op']}"
        dev = op.get("dev", "evo")
        nrec = len(WL[dev])
        for n, lw in LW.items():
            v = lw.volumes
            refs.append((n, v, v.copy()))
        exc = None
        try:
            call(op, LW, WL)
        except Exception as e:  # noqa
            exc = e
        stats["ops"] += 1
        stats["kinds"][op["op"]] = stats["kinds"].get(op["op"], 0) + 1
        check_prefix(tag + (f" (raised {type(exc).__name__})" if exc else ""))
        if fails:
            break
        if exc is not None:  # failed call: append-only was checked; adopt whatever it left behind
            for n, lw in LW.items():
                H[n] = [(l, a.copy()) for l, a in lw.history]
                F[n] = lw.volumes.tolist()
        else:
            stats["ok"] += 1
            part = book(F, L, op)
            label = op.get("label", "" if op["op"] == "distribute" else None)
            for n, lw in LW.items():
                got, cur = lw.history, lw.volumes
                want = len(H[n]) + (1 if n in part else 0)
                if len(got) != want:
                    fails.append(f"{tag}: {n}.history has {len(got)} entries, expected {want} ({len(H[n])} before"
                                 f"{' + exactly one for this call' if n in part else '; the labware did not take part'}); labels {[l for l, _ in got]}")
                    break
                if n not in part:
                    continue
                nl, na = got[-1]
                if not (na.shape == cur.shape and np.array_equal(na, cur)):
                    fails.append(f"{tag}: newest entry of {n}.history {na.tolist()} differs from {n}.volumes {cur.tolist()}")
                elif not np.allclose(cur, np.array(F[n]), rtol=1e-6, atol=1e-6):
                    fails.append(f"{tag}: {n}.volumes {cur.tolist()} differ from initial+added-removed {F[n]}")
                elif op["op"] != "transfer":
                    if nl != label:
                        fails.append(f"{tag}: newest label of {n}.history is {nl!r}, expected the call's label {label!r}")
                else:
                    recs = list(WL[dev])[nrec:]
                    nz = sum(1 for v in bcast(flat_f(op["sw"]), flat_f(op["dw"]), flat_f(op["vols"]))[2] if v > 0)
                    k = sum(1 for r in recs if r.startswith("A;")) - nz
                    stats["lvh"] += k > 0
                    stats["zero"] += nz == 0
                    if k == 0 and nl != label:
                        fails.append(f"{tag}: no volume was split but the newest label of {n}.history is {nl!r}, expected {label!r}")
                    elif k > 0:
                        good = isinstance(nl, str) and nl.startswith(label or "")
                        if not good or re.findall(r"-?\d+", nl[len(label or ""):]) != [str(k)]:
                            fails.append(f"{tag}: splitting added {k} extra aspirate/dispense pairs but the newest label of {n}.history is {nl!r} (call label {label!r})")
                if fails:
                    break
                H[n].append((nl, na.copy()))
        i += 1
        if i == len(case["ops"]) and len(ops) == i:
            ops += probes(F, L)
    for n, lw in LW.items():  # the report is a function of the history: compared once, at the end (every 4th case in bulk runs)
        mine = render(L[n].get("rname", n), H[n])
        if not fails and with_report and lw.report != mine:
            fails.append(f"end of history: {n}.report does not list the history entries in order: {lw.report!r} vs {mine!r}")
    return fails, stats


# ------------------------------------------------------------------ generators
LABELS = [None, None, "", "prep", "mix A", "step 3", "t1", "wash 2x", "dilute 1:10 (v/v)", "µL transfer"]


def gen_lw(rng, name):
    kind = rng.choice(["plate", "plate", "trough", "trough", "vtrough"])
    if kind == "plate":
        rows, cols, vrows = rng.choice([1, 2, 3, 4, 8]), rng.choice([1, 2, 3, 6]), None
        mn, mx = rng.choice([(0, 5000), (10, 4000), (0, 10000)])
    else:
        rows, cols, vrows = 1, rng.choice([1, 2, 3]), rng.choice([1, 2, 4, 8])
        mn, mx = rng.choice([(0, 100000), (1000, 50000)])
    init = [[round(rng.uniform(0.3 * mx, 0.6 * mx), rng.choice([0, 1, 2])) for _ in range(cols)] for _ in range(rows)]
    s = {"name": name, "kind": kind, "rows": rows, "vrows": vrows, "cols": cols, "min": mn, "max": mx}
    s["init"] = init[0] if kind == "trough" else rng.choice([init, init[0][0]])
    return s


def gen_wells(rng, s, one_column=False):
    nr = s["vrows"] if is_trough(s) else s["rows"]
    grid = [[f"{ROWS[r]}{c + 1:02d}" for c in range(s["cols"])] for r in range(nr)]
    allw = [w for row in grid for w in row]
    m = rng.random()
    if m < 0.2:
        return rng.choice(allw)
    if m < 0.5:
        pool = rng.sample(allw, min(len(allw), rng.randint(1, 3)))
        return [rng.choice(pool) for _ in range(rng.randint(1, 5))]
    if m < 0.7:
        return rng.sample(allw, min(len(allw), rng.randint(1, 8)))
    r0, c0 = rng.randrange(nr), rng.randrange(s["cols"])
    r1, c1 = rng.randint(r0 + 1, min(nr, r0 + 4)), rng.randint(c0 + 1, min(s["cols"], c0 + 3))
    return [row[c0:c1] for row in grid[r0:r1]]


def vol(rng, big):
    m = rng.random()
    if m < 0.22:
        return 0.0
    if m < 0.3 and big:
        return float(rng.choice([950, 951, 1000, 1900, 1901, 2000.5, 2850, 3000]))
    return rng.choice([float(rng.randint(1, 200)), round(rng.uniform(0.01, 120), 2), 12.5, 0.01])


def gen_op(rng, L, F, wl):
    names = list(L)
    troughs = [n for n in names if is_trough(L[n])]
    k = rng.choice(["add", "remove", "aspirate", "dispense", "transfer", "transfer", "transfer", "transfer", "distribute", "distribute", "evo"])
    if k == "distribute" and not troughs:
        k = "transfer"
    op = {"dev": rng.choice(["evo", "fluent"]), "nd": rng.random() < 0.4}
    if k in ("add", "remove", "aspirate", "dispense"):
        s = L[rng.choice(names)]
        W = gen_wells(rng, s)
        n = len(flat_f(W))
        V = rng.choice([vol(rng, False), [vol(rng, False) for _ in range(n)], 0.0 if rng.random() < 0.3 else 5.0])
        op.update(op=k, lw=s["name"], wells=W, vols=V)
    elif k == "evo":
        s = L[rng.choice(names)]
        nr = min(s["vrows"] if is_trough(s) else s["rows"], 8)
        c = rng.randrange(s["cols"])
        rows = sorted(rng.sample(range(nr), rng.randint(1, nr)))
        V = vol(rng, False) if rng.random() < 0.5 else [vol(rng, False) for _ in rows]
        op.update(op=rng.choice(["evo_aspirate", "evo_dispense"]), lw=s["name"], wells=[f"{ROWS[r]}{c + 1:02d}" for r in rows],
                  tips=sorted(rng.sample(range(1, 9), len(rows))), vols=V, nd=False)
    elif k == "transfer":
        s = L[rng.choice(names)]
        d = s if rng.random() < 0.35 else L[rng.choice(names)]
        SW = gen_wells(rng, s)
        n = len(flat_f(SW))
        pool = flat_f(gen_wells(rng, d))
        m = rng.random()
        DW = rng.choice(pool) if m < 0.2 else [rng.choice(pool) for _ in range(n)]
        if m > 0.9:
            SW, n = rng.choice(flat_f(SW)), len(flat_f(DW))
        big = wl["auto_split"] or rng.random() < 0.05
        mode = rng.random()
        if mode < 0.12:
            V = rng.choice([0.0, [0.0] * n, [0.0]])  # moves nothing at all
        elif mode < 0.4:
            V = vol(rng, big)
        else:
            V = [vol(rng, big) for _ in range(n)]
            if rng.random() < 0.4 and n > 1:
                V[rng.randrange(n)] = 0.0  # a zero next to non-zero volumes
        op.update(op="transfer", src=s["name"], sw=SW, dst=d["name"], dw=DW, vols=V, pb=rng.choice(["auto", "auto", "source", "destination"]),
                  wash=rng.choice([1, 1, 3, "flush", "reuse"]))
    else:
        s = L[rng.choice(troughs)]
        d = s if rng.random() < 0.3 else L[rng.choice(names)]
        DW = gen_wells(rng, d)
        op.update(op="distribute", src=s["name"], col=rng.randrange(s["cols"]), dst=d["name"], dw=[DW] if isinstance(DW, str) else DW, vol=vol(rng, False))
    lab = rng.choice(LABELS)
    if lab is not None or rng.random() < 0.3:
        if not (lab is None and k == "distribute"):
            op["label"] = lab
    return op


def gen_case(rng):
    L = {}
    for name in "ABC"[: rng.choice([1, 2, 2, 3])]:
        L[name] = gen_lw(rng, name)
    if len(L) > 1 and rng.random() < 0.12:  # a second, distinct labware with the same name (and maybe the same geometry)
        L["B"] = dict(L["A"] if rng.random() < 0.6 else L["B"], name="B", rname="A")
    wl = {"max_volume": rng.choice([950, 950, 950, 200, 1000, 200.5]), "auto_split": rng.random() < 0.55}
    F = {n: init_state(s) for n, s in L.items()}
    ops = []
    for _ in range(rng.randint(2, 12)):
        for _try in range(6):  # mostly successful calls; ~8 % of the histories keep a call that is refused
            op = gen_op(rng, L, F, wl)
            G = {n: [row[:] for row in F[n]] for n in F}
            book(G, L, op)
            if fits(G, L) or (_try == 0 and rng.random() < 0.08):
                break
        ops.append(op)
        if fits(G, L):
            F = G
    return {"lw": list(L.values()), "wl": wl, "ops": ops}


def enum_cases():
    """Small-scope exhaustive part: after a two-entry prefix, every volume vector over {0, 50, 1200}^n (n = 1..3) x
    (source, destination) in {plate, trough}^2 incl. same labware x label / no label x device x auto_split, then one more
    transfer; and every small distribute shape incl. repeated wells and source == destination."""
    P = {"name": "P", "kind": "plate", "rows": 2, "vrows": None, "cols": 2, "min": 0, "max": 10000, "init": 4000}
    T = {"name": "T", "kind": "trough", "rows": 1, "vrows": 3, "cols": 2, "min": 0, "max": 100000, "init": [40000, 30000]}
    pre = [{"op": "add", "lw": "P", "wells": ["A01", "B02"], "vols": 5.0, "label": "a"}, {"op": "remove", "lw": "T", "wells": "B01", "vols": 7.0},
           {"op": "aspirate", "dev": "evo", "lw": "P", "wells": "A02", "vols": 1.0, "label": "b"}]
    vecs = [[a] for a in (0.0, 50.0, 1200.0)] + [[a, b] for a in (0.0, 50.0, 1200.0) for b in (0.0, 50.0, 1200.0)]
    vecs += [[a, b, c] for a in (0.0, 50.0, 1200.0) for b in (0.0, 50.0, 1200.0) for c in (0.0, 50.0, 1200.0)]
    for split in (True, False):
        wl = {"max_volume": 950, "auto_split": split}
        for dev in ("evo", "fluent"):
            for V in vecs:
                n = len(V)
                for a, b in (("P", "P"), ("P", "T"), ("T", "P"), ("T", "T")):
                    sw = (["A01", "B01", "A02"] if a == "P" else ["A01", "C01", "B02"])[:n]
                    dw = (["B02", "B02", "A01"] if b == "P" else ["B01", "A02", "A02"])[:n]
                    for lab in (None, "t"):
                        t = {"op": "transfer", "dev": dev, "src": a, "sw": sw, "dst": b, "dw": dw, "vols": V}
                        if lab:
                            t["label"] = lab
                        t2 = {"op": "transfer", "dev": dev, "src": b, "sw": dw[0], "dst": a, "dw": sw[0], "vols": 3.0, "label": "back"}
                        yield {"lw": [P, T], "wl": wl, "ops": pre + [t, t2]}
            for col in (0, 1):
                for dst in ("P", "T"):
                    for dw in (["A01"], ["A01", "B01"], ["A01", "A01"], ["A02", "B01", "B02"], [["A01", "A02"], ["B01", "B02"]]):
                        for v in (0.0, 25.0):
                            for lab in (None, "d"):
                                o = {"op": "distribute", "dev": dev, "src": "T", "col": col, "dst": dst, "dw": dw, "vol": v}
                                if lab:
                                    o["label"] = lab
                                yield {"lw": [P, T], "wl": wl, "ops": pre + [o, o]}


# ------------------------------------------------------------------ driver
def key_of(case):
    return hashlib.sha1(json.dumps(case, sort_keys=True).encode()).hexdigest()


def shrink(case):
    cur = case
    for i in range(len(cur["ops"]) - 1, -1, -1):
        cand = dict(cur, ops=cur["ops"][:i] + cur["ops"][i + 1:])
        try:
            if cand["ops"] and run_case(cand)[0]:
                cur = cand
        except Exception:  # noqa
            pass
    return cur


def main(argv):
    if argv and argv[0] == "--replay":
        path = argv[1] if os.path.isabs(argv[1]) or os.path.exists(argv[1]) else os.path.join(VERIF, argv[1])
        case = json.load(open(path))["bounded_replay"]["case"]
        fails, _ = run_case(case)
        print(json.dumps(case))
        print("observed:", fails if fails else "no violation - all oracles hold on the current tree")
        return 1 if fails else 0
    tier = argv[0] if argv else "quick"
    seed = int(argv[1]) if len(argv) > 1 else 0
    budget, n_rand = (15, 3000) if tier == "quick" else (240, 50000)
    t0 = time.time()
    rng = random.Random(seed)
    seen, failures, samples, kinds = set(), [], [], {}
    tot = {"evals": 0, "distinct": 0, "ops": 0, "ok": 0, "lvh": 0, "zero": 0}

    def do(case, part):
        k = key_of(case)
        if k in seen:
            return
        seen.add(k)
        fails, st = run_case(case, with_report=tot["evals"] % 4 == 0)
        tot["evals"] += 1
        tot["distinct"] += 1 if (st["ok"] or fails) else 0
        for kk in ("ops", "ok", "lvh", "zero"):
            tot[kk] += st[kk]
        for kk, v in st["kinds"].items():
            kinds[kk] = kinds.get(kk, 0) + v
        if len(samples) < 3 and part == "random" and st["lvh"] and len(json.dumps(case)) < 900:
            samples.append(case)
        cls = fails and re.sub(r"[^a-z ]", "", fails[0].split(":")[0].split(" ")[1] + fails[0].split(":")[1])[:40]
        if fails and len(failures) < 5 and not any(f["cls"] == cls for f in failures):
            small = shrink(case)
            sf = run_case(small)[0] or fails
            rp = os.path.join("replays", PROP, f"bounded_{key_of(small)[:10]}.json")
            os.makedirs(os.path.join(VERIF, "replays", PROP), exist_ok=True)
            with open(os.path.join(VERIF, rp), "w") as fh:
                json.dump({"property": PROP, "bounded_replay": {"script": "c11.py", "case": small}, "what": sf[0]}, fh, indent=1)
            failures.append({"what": sf[0], "replay": rp, "cls": cls})

    for case in enum_cases():
        do(case, "enum")
    n_enum = tot["evals"]
    for _ in range(n_rand):
        if time.time() - t0 > budget:
            break
        do(gen_case(rng), "random")
    for f in failures:
        f.pop("cls")
    out = {"evaluations": tot["evals"], "distinct": tot["distinct"],
           "rule": "a case = labware configuration(s) + history of calls (+ one probing add/remove per labware); every call is followed by the full "
                   "history/report/snapshot comparison; distinct by SHA-1 of the canonical JSON; non-trivial = at least one call succeeded; "
                   f"{tot['ops']} calls, {tot['ok']} successful, {tot['lvh']} transfer entries with split volumes, {tot['zero']} for transfers that move nothing",
           "samples": samples,
           "parts": [{"function": "transfer / distribute after a 3-call prefix on a 2x2 plate and a 3x2 trough", "kind": "bounded exhaustive enumeration",
                      "bound": "volume vectors {0,50,1200}^n n<=3 x 4 labware pairings x label/none x EVO/Fluent x auto_split on/off; 40 distribute shapes", "evaluations": n_enum},
                     {"function": "histories over " + ", ".join(f"{k}:{v}" for k, v in sorted(kinds.items())), "kind": "bounded seeded random histories",
                      "bound": f"seed {seed}, <= {n_rand} cases or {budget} s; 1-3 labware (plates <= 8x6, troughs <= 8 virtual rows x 3), 2-12 calls", "evaluations": tot["evals"] - n_enum}],
           "failures": failures}
    print(json.dumps(out))
    return 0


if __name__ == "__main__":
    sys.exit(main(sys.argv[1:]))
