#!/usr/bin/env python
"""Bounded contract monitor for C20: every Labware / Trough the constructors accept is internally consistent and
every specification that cannot be represented raises ValueError.

A case is a JSON description of one constructor call.  The oracle is an independent model of the specification
(own well-ID grid, own row-major layout with plain Python lists, own validity predicate); nothing of robotools is
used to compute an expectation.  See `RULE` for what is enumerated.

Deliberately NOT generated (behaviour of the unchanged tree is at odds with / outside the property text, reported
to the maintainers of /verif instead of being counted): bool or numpy-integer sizes, Trough(virtual_rows=None),
float32 / string / object volume arrays, numpy-int scalars and 2-D arrays as Trough volumes.  A Trough with a
non-integer `columns` may be refused with TypeError instead of ValueError (accepted here).
"""
import hashlib
import itertools
import json
import math
import os
import random
import sys
import time
import warnings

PROP = "C20"
VERIF = os.path.dirname(os.path.dirname(os.path.abspath(__file__)))
REPO = os.environ.get("PYVC_REPO", "/repo")
if REPO not in sys.path:
    sys.path.insert(0, REPO)
import numpy as np  # noqa: E402

warnings.simplefilter("ignore")
from robotools.liquidhandling import Labware, Trough  # noqa: E402

LETTERS = "ABCDEFGHIJKLMNOPQRSTUVWXYZ"
INF = float("inf")
RULE = ("one case = one constructor call (class, sizes, limits, initial_volumes form+values, names), deduplicated by its "
        "canonical JSON; parts: geometry sweep rows -1..40 x columns up to 120 (4 initial-volume forms), small-scope "
        "exhaustive special value (0,-0.0,denormal,max,max+-1ulp,negative,NaN,inf) x well x form x named/unnamed on "
        "1..3 x 1..3 grids, all min/max limit pairs from a boundary set, all size specifications from a boundary set, "
        "all empty/non-empty patterns x naming schemes (collisions, unknown keys, named empty wells), seeded random mixes")


# ---------------------------------------------------------------- JSON <-> python values
def dec(x):
    if isinstance(x, dict):
        if "$f" in x:
            return float(x["$f"])
        if "$np" in x:
            return getattr(np, x["$np"])(dec(x["v"]))
        if "$arr" in x:
            return np.array(dec(x["$arr"]), dtype=x["dtype"])
        if "$tuple" in x:
            return tuple(dec(v) for v in x["$tuple"])
        return {k: dec(v) for k, v in x.items()}
    if isinstance(x, list):
        return [dec(v) for v in x]
    return x


def enc(x):
    """plain python value -> JSON-able (only NaN / inf need tagging)"""
    if isinstance(x, float) and not math.isfinite(x):
        return {"$f": repr(x)}
    if isinstance(x, (list, tuple)):
        return [enc(v) for v in x]
    return x


def arr(values, dtype="float64"):
    return {"$arr": enc(values), "dtype": dtype}


def npf(v):
    return {"$np": "float64", "v": enc(v)}


# ---------------------------------------------------------------- the independent model
def is_size(x):
    return type(x) is int


def num(x):
    """python float of a numeric specification, None if it is not a number"""
    if isinstance(x, bool) or x is None or isinstance(x, str):
        return None
    try:
        return float(x)
    except Exception:
        return None


def flat_rowmajor(x):
    """row-major flattening of nested lists / tuples / arrays, by hand; returns None for ragged input"""
    if isinstance(x, np.ndarray):
        x = x.tolist()
    if not isinstance(x, (list, tuple)):
        return [x]
    out, lens = [], set()
    for el in x:
        sub = flat_rowmajor(el)
        if sub is None:
            return None
        lens.add((isinstance(el, (list, tuple)), len(sub)))
        out.extend(sub)
    return out if len(lens) <= 1 else None


def model(case):
    """-> ("invalid", reason) | ("valid", dict)"""
    a = {k: dec(v) for k, v in case.items()}
    trough_cls = a["cls"] == "Trough"
    rows = 1 if trough_cls else a["rows"]
    vrows = a.get("vrows")
    cols = a["columns"]
    if not is_size(cols) or cols < 1:
        return "invalid", "columns"
    if not is_size(rows) or not 1 <= rows <= 26:
        return "invalid", "rows"
    if trough_cls or vrows is not None:
        if not is_size(vrows) or not 1 <= vrows <= 26:
            return "invalid", "virtual_rows"
        if rows != 1:
            return "invalid", "virtual rows on multi-row labware"
    vmin, vmax = num(a["min"]), num(a["max"])
    if vmin is None or not vmin >= 0:
        return "invalid", "min_volume"
    if vmax is None or not vmax > vmin:
        return "invalid", "max_volume"
    # ---- initial volumes, laid out row-major over the REAL grid
    iv = a.get("iv", 0 if trough_cls else None)
    if iv is None:
        iv = 0
    scalar = not isinstance(iv, (list, tuple, np.ndarray)) or (isinstance(iv, np.ndarray) and iv.shape == ())
    if scalar:
        flat = [num(iv)] * (rows * cols)
    else:
        if trough_cls and (np.ndim(iv) != 1):
            return "invalid", "trough volumes must be per column"
        flat = flat_rowmajor(iv)
        if flat is None or len(flat) != rows * cols:
            return "invalid", "number of initial volumes"
        flat = [num(v) for v in flat]
    for v in flat:
        if v is None or not math.isfinite(v):
            return "invalid", "non-finite initial volume"
        if v < 0:
            return "invalid", "negative initial volume"
        if v > vmax:
            return "invalid", "initial volume above max_volume"
    vols = [flat[r * cols:(r + 1) * cols] for r in range(rows)]
    # ---- IDs
    idrows = vrows if vrows is not None else rows
    ids = [[f"{LETTERS[r]}{c + 1:02d}" for c in range(cols)] for r in range(idrows)]
    real = ids[:1] if vrows is not None else ids
    # ---- names: well -> name (None = default)
    names = {}
    if trough_cls:
        cn = a.get("cnames")
        if cn is not None:
            if isinstance(cn, str):
                cn = [cn]
            if np.ndim(cn) != 1 or len(cn) != cols:
                return "invalid", "number of column names"
            for c, n in enumerate(cn):
                if n is not None:
                    if vols[0][c] == 0:
                        return "invalid", "named empty column"
                    names[ids[0][c]] = n
    else:
        realset = {w for row in real for w in row}
        for w, n in (a.get("names") or {}).items():
            if w not in realset:
                return "invalid", "name for unknown well"
            r, c = LETTERS.index(w[0]), int(w[1:]) - 1
            if n is not None:
                if vols[r][c] == 0:
                    return "invalid", "named empty well"
                names[w] = n
    return "valid", dict(rows=rows, cols=cols, vrows=vrows, idrows=idrows, ids=ids, real=real, vols=vols, vmin=a["min"],
                         vmax=a["max"], names=names, trough_cls=trough_cls, name=a["name"])


def default_names(m, r, c):
    """acceptable default component names of the real well (r, c)"""
    if m["trough_cls"]:
        return {f"{m['name']}.column_{c + 1:02d}" if m["cols"] > 1 else m["name"]}
    w = m["real"][r][c]
    if m["rows"] > 1:
        return {f"{m['name']}.{w}"}
    return {m["name"], f"{m['name']}.{w}"}


# ---------------------------------------------------------------- running one case
def construct(case):
    a = {k: dec(v) for k, v in case.items()}
    kw = dict(min_volume=a["min"], max_volume=a["max"])
    if "iv" in a:
        kw["initial_volumes"] = a["iv"]
    if a["cls"] == "Trough":
        if "cnames" in a:
            kw["column_names"] = a["cnames"]
        return Trough(a["name"], a["vrows"], a["columns"], **kw), kw
    if "vrows" in a:
        kw["virtual_rows"] = a["vrows"]
    if "names" in a:
        kw["component_names"] = a["names"]
    return Labware(a["name"], a["rows"], a["columns"], **kw), kw


def check_valid(lw, m, kw):
    """all consistency clauses on a constructed labware; returns list of (tag, message)"""
    E = []

    def need(cond, tag, msg):
        if not cond:
            E.append((tag, msg))
    R, C, IR = m["rows"], m["cols"], m["idrows"]
    ids, vols = m["ids"], m["vols"]
    wells = lw.wells
    need(isinstance(wells, np.ndarray) and wells.shape == (IR, C), "wells-shape", f"wells.shape={getattr(wells, 'shape', None)} expected {(IR, C)}")
    if not E:
        need(wells.tolist() == ids, "wells-ids", "wells differ from the A01.. grid")
    need(tuple(lw.shape) == (IR, C), "shape", f"shape={lw.shape} expected {(IR, C)}")
    need(lw.n_rows == IR and lw.n_columns == C, "n_rows/n_columns", f"n_rows,n_columns={lw.n_rows},{lw.n_columns} expected {IR},{C}")
    need(list(lw.row_ids) == list(LETTERS[:IR]) and list(lw.column_ids) == list(range(1, C + 1)), "row/column ids", "row_ids / column_ids wrong")
    need(lw.virtual_rows == m["vrows"] and bool(lw.is_trough) == (m["vrows"] is not None), "virtual_rows", f"virtual_rows={lw.virtual_rows} is_trough={lw.is_trough}")
    need(lw.name == m["name"], "name", "name not stored")
    exp_idx = {ids[r][c]: ((0 if m["vrows"] is not None else r), c) for r in range(IR) for c in range(C)}
    got_idx = {k: tuple(int(i) for i in v) for k, v in lw.indices.items()}
    need(got_idx == exp_idx, "indices", "index map differs from the grid")
    V = lw.volumes
    need(V.shape == (R, C) and V.dtype == np.float64, "volumes-shape", f"volumes.shape={V.shape} dtype={V.dtype} expected {(R, C)} float64")
    if V.shape == (R, C):
        bad = [(r, c) for r in range(R) for c in range(C) if not V[r, c] == vols[r][c]]
        need(not bad, "volumes-layout", f"volumes differ from the given layout at {bad[:4]}: got {[float(V[b]) for b in bad[:4]]} expected {[vols[r][c] for r, c in bad[:4]]}")
        need(all(math.isfinite(v) and 0 <= v <= float(lw.max_volume) for v in V.flatten().tolist()), "volumes-range", "volume outside [0, max_volume] or not finite")
    need(lw.min_volume == m["vmin"] and lw.max_volume == m["vmax"] and 0 <= lw.min_volume < lw.max_volume, "limits",
         f"limits min={lw.min_volume} max={lw.max_volume}")
    H = lw.history
    need(len(H) == 1 and H[0][0] == "initial" and np.shape(H[0][1]) == (R, C) and np.array(H[0][1]).tolist() == [[float(v) for v in row] for row in vols],
         "history", f"history is not exactly the initial state: {[(l, np.shape(s)) for l, s in H]}")
    # composition: one 100 % component for precisely the non-empty real wells
    comp = lw.composition
    need(isinstance(comp, dict) and all(np.shape(f) == (R, C) for f in comp.values()), "composition-shape", "composition arrays do not have the real grid shape")
    if not any(t == "composition-shape" for t, _ in E):
        per_well = {}
        for k, f in comp.items():
            for r, c in np.argwhere(np.asarray(f) != 0).tolist():
                per_well.setdefault((r, c), {})[k] = float(f[r, c])
        cells = [(r, c) for r in range(R) for c in range(C)]
        probe = set(cells if len(cells) <= 64 else cells[::max(1, len(cells) // 48)] + cells[-3:])
        for r, c in cells:
            w = m["real"][r][c]
            nz = per_well.get((r, c), {})
            gw = {k: float(v) for k, v in lw.get_well_composition(w).items()} if (r, c) in probe else nz
            if vols[r][c] == 0:
                need(nz == {} and gw == {}, "composition-empty", f"empty well {w} has components {nz or gw}")
            else:
                ok = len(nz) == 1 and list(nz.values()) == [1.0] and gw == nz
                need(ok, "composition-one", f"non-empty well {w} has components {nz} / {gw}")
                if ok:
                    k = next(iter(nz))
                    allowed = {m["names"][w]} if w in m["names"] else default_names(m, r, c)
                    need(k in allowed, "composition-name", f"well {w} is named {k!r}, expected one of {sorted(allowed)}")
        need(all(np.any(f != 0) for f in comp.values()), "composition-extra", "component without any well")
    # the labware state must not alias the caller's array
    src = kw.get("initial_volumes")
    if isinstance(src, np.ndarray) and src.shape != () and V.shape == (R, C):
        src += 1
        need(lw.volumes.tolist() == V.tolist() and np.array(lw.history[0][1]).tolist() == V.tolist(), "aliasing", "labware state changes when the caller's array is modified")
    return E


def run_case(case):
    kind, m = model(case)
    try:
        lw, kw = construct(case)
    except ValueError as e:
        return [] if kind == "invalid" else [("valid-refused", f"representable specification refused: ValueError {e}")]
    except Exception as e:  # noqa
        lenient = kind == "invalid" and case["cls"] == "Trough" and not is_size(dec(case["columns"])) and isinstance(e, TypeError)
        return [] if lenient else [("wrong-exception", f"{type(e).__name__} instead of {'ValueError' if kind == 'invalid' else 'a labware'}: {e}")]
    if kind == "invalid":
        return [("invalid-accepted:" + m, f"unrepresentable specification accepted ({m})")]
    return check_valid(lw, m, kw)


# ---------------------------------------------------------------- generators
def grid_vals(R, C, vmax=1000.5):
    return [[float((r * 131 + c * 17 + 3) % 997) + 0.25 if (r + 2 * c) % 5 else 0.0 for c in range(C)] for r in range(R)]


def lab(rows, cols, **kw):
    d = dict(cls="Labware", name=kw.pop("name", "P"), rows=rows, columns=cols, min=kw.pop("min", 0), max=kw.pop("max", 1000.5))
    d.update(kw)
    return d


def tro(vrows, cols, **kw):
    d = dict(cls="Trough", name=kw.pop("name", "T"), vrows=vrows, columns=cols, min=kw.pop("min", 0), max=kw.pop("max", 1000.5))
    d.update(kw)
    return d


def forms(R, C, vals):
    """the same volumes in every accepted argument form (vals: R x C nested list)"""
    flat = [v for row in vals for v in row]
    out = [("flat", flat), ("2d", vals), ("arr2d", arr(vals)), ("arrflat", arr(flat)), ("tuple", {"$tuple": enc(flat)})]
    if R > 1 and C > 1:
        out.append(("1xN", [flat]))
        out.append(("CxR", [flat[i * R:(i + 1) * R] for i in range(C)]))
    return out


def gen_geometry(tier):
    full = tier == "thorough"
    rowset = range(-1, 41)
    colset = list(range(1, 13)) + [24, 48, 98, 99, 100, 101, 119, 120] if full else [1, 2, 3, 9, 10, 12, 24, 99, 100, 120]
    for R in rowset:
        for C in colset:
            vals = grid_vals(max(R, 0), C)
            flat = [v for row in vals for v in row]
            variants = [{}, {"iv": 7.5}, {"iv": flat}, {"iv": vals}, {"iv": arr(vals) if flat else []}]
            for k, v in enumerate(variants):
                if full or k == (R + C) % 5 or k == 2:
                    yield lab(R, C, **v)
    for VR in (range(-1, 41) if full else [-1, 0, 1, 2, 8, 26, 27, 40]):
        for C in ([1, 2, 3, 4, 8, 12, 24, 100] if full else [1, 2, 12, 24]):
            per_col = [float((c * 37 + 5) % 900) if c % 3 != 1 else 0.0 for c in range(C)]
            yield tro(VR, C, iv=per_col)
            yield lab(1, C, vrows=VR, iv=per_col)
            if full:
                yield tro(VR, C)
                yield tro(VR, C, iv=3)
                yield lab(1, C, vrows=VR, iv=[per_col])
                yield lab(2, C, vrows=VR)


def specials(vmax):
    return [0, 0.0, -0.0, 5e-324, 1, vmax, math.nextafter(vmax, INF), math.nextafter(vmax, 0), vmax + 1, -1, -5e-324,
            float("nan"), INF, -INF]


def gen_special_values(tier):
    dims = [1, 2, 3]
    for vmax in ([10.5] if tier == "quick" else [10.5, 1, 0.1]):
        base = vmax / 2
        for R, C in itertools.product(dims, dims):
            for s in specials(vmax):
                yield lab(R, C, max=vmax, iv=enc(s))
                yield lab(R, C, max=vmax, iv=npf(s))
                yield lab(R, C, max=vmax, iv=arr(s))
                for r, c in itertools.product(range(R), range(C)):
                    vals = [[base] * C for _ in range(R)]
                    vals[r][c] = s
                    w = f"{LETTERS[r]}{c + 1:02d}"
                    for fname, f in forms(R, C, vals):
                        if tier == "quick" and fname in ("tuple", "arrflat", "1xN") and (r + c) % 2:
                            continue
                        yield lab(R, C, max=vmax, iv=f if isinstance(f, dict) else enc(f))
                        yield lab(R, C, max=vmax, iv=f if isinstance(f, dict) else enc(f), names={w: "x"})
        for VR, C in itertools.product([1, 3], dims):
            for s in specials(vmax):
                yield tro(VR, C, max=vmax, iv=enc(s))
                yield tro(VR, C, max=vmax, iv=npf(s))
                yield lab(1, C, vrows=VR, max=vmax, iv=enc(s))
                for c in range(C):
                    vals = [base] * C
                    vals[c] = s
                    cn = [None] * C
                    cn[c] = "x"
                    for f in (enc(vals), arr(vals), {"$tuple": enc(vals)}):
                        yield tro(VR, C, max=vmax, iv=f)
                        yield tro(VR, C, max=vmax, iv=f, cnames=cn)
                        yield lab(1, C, vrows=VR, max=vmax, iv=f, names={f"A{c + 1:02d}": "x"})


def gen_limits(tier):
    L = [None, 0, 0.0, -0.0, 1, 1.5, 10, float("nan"), INF, -INF, -1, -5e-324, 5e-324, math.nextafter(10, INF), math.nextafter(10, 0)]
    for lo, hi in itertools.product(L, L):
        for wrap in (enc, npf):
            a, b = (None if lo is None else wrap(lo)), (None if hi is None else wrap(hi))
            yield lab(2, 3, min=a, max=b)
            yield tro(3, 2, min=a, max=b)
            if wrap is enc or tier == "thorough":
                yield lab(1, 2, vrows=2, min=a, max=b, iv=0)
                yield lab(2, 2, min=a, max=b, iv=enc(lo if lo is not None else 0))
                yield lab(2, 2, min=a, max=b, iv=enc(hi if hi is not None else 0))
                yield tro(2, 2, min=a, max=b, iv=[enc(hi if hi is not None else 0), 0])


def gen_sizes(tier):
    S = [-1, 0, 1, 2, 3, 26, 27, 40, 2.0, 2.5, "2", None]
    for a, b in itertools.product(S, S):
        yield lab(a, b)
        yield lab(a, b, iv=1)
        if b is not None:  # vrows=None on a Labware means "no trough" (valid), on a Trough it is excluded
            yield tro(b, a)
            yield tro(b, a, iv=1)
            for rows in (1, 2, 3):
                yield lab(rows, a, vrows=b)


def gen_names(tier):
    maxcells = 4 if tier == "quick" else 6
    for R, C in itertools.product([1, 2, 3], [1, 2, 3]):
        if R * C > maxcells:
            continue
        ids = [f"{LETTERS[r]}{c + 1:02d}" for r in range(R) for c in range(C)]
        for pat in itertools.product([0, 4.5], repeat=R * C):
            iv = list(pat)
            nonempty = [w for w, v in zip(ids, pat) if v]
            schemes = [None, {}, {w: f"n{i}" for i, w in enumerate(nonempty)}, {w: "same" for w in nonempty},
                       {w: None for w in ids}, {w: f"P.{ids[(i + 1) % len(ids)]}" for i, w in enumerate(nonempty)},
                       {w: "P" for w in nonempty[:1]}]
            schemes += [{w: "solo"} for w in ids]
            schemes += [{bad: "x"} for bad in (f"{LETTERS[R]}01", f"A{C + 1:02d}", "A1", "a01", "A001", "", "A00")]
            schemes += [{bad: None} for bad in (f"{LETTERS[R]}01", f"A{C + 1:02d}")]
            for s in schemes:
                yield lab(R, C, max=10, iv=iv, **({} if s is None else {"names": s}))
    for VR, C in itertools.product([1, 2, 4], [1, 2, 3] if tier == "quick" else [1, 2, 3, 4]):
        for pat in itertools.product([0, 4.5], repeat=C):
            for cn in itertools.product([None, "a", "b", "T", "T.column_02"], repeat=C):
                if tier == "quick" and C == 3 and len(set(cn)) > 3:
                    continue
                yield tro(VR, C, max=10, iv=list(pat), cnames=list(cn))
            for cn in ("a", ["a"] * (C + 1), ["a"] * (C - 1), {"$tuple": ["a"] * C}, []):
                yield tro(VR, C, max=10, iv=list(pat), cnames=cn)
            for w in [f"A{c + 1:02d}" for c in range(C + 1)] + [f"B{c + 1:02d}" for c in range(C)] + [f"{LETTERS[VR]}01"]:
                yield lab(1, C, vrows=VR, max=10, iv=list(pat), names={w: "x"})
        for n in (0, C - 1, C + 1, 2 * C):
            yield tro(VR, C, max=10, iv=[1.0] * n)
            yield tro(VR, C, max=10, iv=arr([1.0] * n))
    for R, C in itertools.product([1, 2, 3, 5], [1, 2, 3, 4]):  # wrong sizes / ragged
        for n in (0, 1, R * C - 1, R * C + 1, 2 * R * C):
            if n != R * C:
                yield lab(R, C, iv=[1.0] * n)
                yield lab(R, C, iv=arr([1.0] * n))
        yield lab(R, C, iv=[[1.0] * (C + 1)] * R)
        yield lab(R, C, iv=[[1.0] * C] * (R + 1))
        if R > 1:
            yield lab(R, C, iv=[[1.0] * C] * (R - 1) + [[1.0] * (C + 1)])


def gen_random(tier, seed):
    rng = random.Random(seed)
    n = 6000 if tier == "quick" else 150000
    sizes = [0, 1, 1, 2, 2, 3, 4, 5, 8, 12, 13, 16, 24, 26, 27, 30, 40]
    for _ in range(n):
        vmin = rng.choice([0, 0, 0.0, 1, 2.5, 10, -0.0, -1, float("nan")] if rng.random() < 0.15 else [0, 1, 2.5])
        vmax = rng.choice([10, 10.5, 100, 1e6, 0.3, INF, float("nan"), 0, 1, 2.5] if rng.random() < 0.2 else [10, 10.5, 100, 1e6])
        fmax = vmax if isinstance(vmax, (int, float)) and math.isfinite(vmax) and vmax > 0 else 10
        pool = [0, 0.0, fmax, fmax / 3, 1, 0.1, math.nextafter(fmax, 0)] * 4 + specials(fmax)
        if rng.random() < 0.55:
            R, C = rng.choice(sizes), rng.choice(sizes + [99, 100, 120])
            if rng.random() < 0.7:
                R, C = min(R, 6), min(C, 6)
            rr, cc = max(R, 0), max(C, 0)
            vals = [[rng.choice(pool) if rng.random() < 0.1 else rng.choice([0, fmax / 4, fmax / 2, fmax]) for _ in range(cc)] for _ in range(rr)]
            kw = {}
            form = rng.choice(["none", "scalar", "flat", "2d", "arr2d", "arrflat", "CxR", "short", "int"])
            flat = [v for row in vals for v in row]
            if form == "scalar":
                kw["iv"] = enc(rng.choice(pool))
                vals = [[dec(kw["iv"])] * cc for _ in range(rr)]
            elif form in ("flat", "short"):
                kw["iv"] = enc(flat[:len(flat) - (form == "short")])
            elif form == "2d":
                kw["iv"] = enc(vals)
            elif form == "arr2d" and flat:
                kw["iv"] = arr(vals)
            elif form == "arrflat":
                kw["iv"] = arr(flat)
            elif form == "CxR" and flat:
                kw["iv"] = enc([flat[i * rr:(i + 1) * rr] for i in range(cc)])
            elif form == "int" and flat:
                kw["iv"] = arr([[int(v) if isinstance(v, (int, float)) and math.isfinite(v) else 0 for v in row] for row in vals], "int64")
                vals = dec(kw["iv"]).tolist()
            else:
                vals = [[0] * cc for _ in range(rr)]
            if rng.random() < 0.5 and rr and cc and 1 <= R <= 26:
                names = {}
                for _k in range(rng.choice([1, 1, 2, 3, rr * cc])):
                    r, c = rng.randrange(rr + (rng.random() < 0.05)), rng.randrange(cc + (rng.random() < 0.05))
                    v = vals[r][c] if r < rr and c < cc else 1
                    if v == 0 and rng.random() < 0.85:
                        continue
                    names[f"{LETTERS[min(r, 25)]}{c + 1:02d}"] = rng.choice(["x", "x", "y", "P", f"P.A{rng.randrange(1, 4):02d}", None])
                kw["names"] = names
            if rng.random() < 0.12:
                kw["vrows"] = rng.choice(sizes)
            yield lab(R, C, min=enc(vmin), max=enc(vmax), **kw)
        else:
            VR, C = rng.choice(sizes), min(rng.choice(sizes), rng.choice([4, 8, 24]))
            cc = max(C, 0)
            vals = [rng.choice(pool) if rng.random() < 0.1 else rng.choice([0, fmax / 4, fmax]) for _ in range(cc)]
            kw = {}
            form = rng.choice(["none", "scalar", "list", "arr", "tuple", "short", "long"])
            if form == "scalar":
                kw["iv"] = enc(rng.choice(pool))
                vals = [dec(kw["iv"])] * cc
            elif form == "list":
                kw["iv"] = enc(vals)
            elif form == "arr":
                kw["iv"] = arr(vals)
            elif form == "tuple":
                kw["iv"] = {"$tuple": enc(vals)}
            elif form == "short":
                kw["iv"] = enc(vals[:-1])
            elif form == "long":
                kw["iv"] = enc(vals + [1])
            else:
                vals = [0] * cc
            if rng.random() < 0.5:
                kw["cnames"] = [rng.choice(["a", "a", "b", "T", None]) if (v != 0 or rng.random() < 0.1) else None for v in vals]
                if rng.random() < 0.08:
                    kw["cnames"] = kw["cnames"][:-1] if rng.random() < 0.5 else kw["cnames"] + [None]
            yield tro(VR, C, min=enc(vmin), max=enc(vmax), **kw)


def generate(tier, seed):
    for name, g in (("geometry sweep", gen_geometry(tier)), ("sizes", gen_sizes(tier)), ("limits", gen_limits(tier)),
                    ("names / wrong lengths", gen_names(tier)), ("special values", gen_special_values(tier)),
                    ("random", gen_random(tier, seed))):
        for case in g:
            yield name, case


BOUNDS = {"geometry sweep": "rows -1..40 x columns <= 120 (quick: 10 column counts, 2 of 5 volume forms each), troughs virtual_rows -1..40 x columns <= 100",
          "sizes": "all pairs from {-1,0,1,2,3,26,27,40,2.0,2.5,'2',None} for rows/columns/virtual_rows",
          "limits": "all (min,max) pairs from 15 boundary values incl. None, NaN, +-inf, +-0.0, denormals, 10+-1ulp; python and numpy floats",
          "names / wrong lengths": "all empty/non-empty patterns on grids <= 4 (thorough 6) wells x 20+ naming schemes; trough columns <= 3 (4) x 5^C column-name tuples; wrong-length / ragged volume lists",
          "special values": "14 special volumes x every well of 1..3 x 1..3 grids x 5-7 argument forms x named/unnamed; troughs 1..3 columns",
          "random": "seeded random specifications (quick 6000, thorough 150000), 10 % special values per well"}


# ---------------------------------------------------------------- driver
def canonical(case):
    return json.dumps(case, sort_keys=True)


def write_replay(case, what):
    short = hashlib.sha1(canonical(case).encode()).hexdigest()[:10]
    rel = os.path.join("replays", PROP, f"bounded_{short}.json")
    os.makedirs(os.path.join(VERIF, "replays", PROP), exist_ok=True)
    with open(os.path.join(VERIF, rel), "w") as fh:
        json.dump({"property": PROP, "bounded_replay": {"script": f"{PROP.lower()}.py", "case": case}, "what": what}, fh, indent=1)
    return rel


def replay(path):
    if not os.path.isabs(path) and not os.path.exists(path):
        path = os.path.join(VERIF, path)
    with open(path) as fh:
        case = json.load(fh)["bounded_replay"]["case"]
    print("case:", canonical(case))
    print("model:", model(case)[0], model(case)[1] if model(case)[0] == "invalid" else "")
    errs = run_case(case)
    for tag, msg in errs:
        print(f"FAIL [{tag}] {msg}")
    if not errs:
        print("PASS: behaviour agrees with the model")
    return 1 if errs else 0


def main(argv):
    if argv and argv[0] == "--replay":
        return replay(argv[1])
    tier = argv[0] if argv else "quick"
    seed = int(argv[1]) if len(argv) > 1 else 0
    budget = 16 if tier == "quick" else 270
    t0 = time.time()
    seen, parts, failures, tags, samples, nfail, sampled = set(), {}, [], set(), [], 0, set()
    for part, case in generate(tier, seed):
        if time.time() - t0 > budget:
            break
        key = canonical(case)
        if key in seen:
            continue
        seen.add(key)
        parts[part] = parts.get(part, 0) + 1
        errs = run_case(case)
        if part not in sampled and len(key) < 400 and (not errs) and model(case)[0] == ("valid" if len(sampled) % 3 else "invalid"):
            sampled.add(part)
            samples.append(case)
        if errs:
            nfail += 1
            tag = errs[0][0]
            if tag not in tags and len(failures) < 12:
                tags.add(tag)
                what = f"{case['cls']} {key[:160]}: {errs[0][1]}"[:400]
                failures.append({"what": what, "replay": write_replay(case, what)})
    out = {"evaluations": len(seen), "distinct": len(seen), "rule": RULE, "samples": samples[:5],
           "parts": [{"function": f"Labware/Trough constructor: {p}", "kind": "bounded enumeration" if p != "random" else "bounded seeded random",
                      "bound": BOUNDS[p], "evaluations": n} for p, n in parts.items()],
           "failures": failures, "failing_cases": nfail, "seconds": round(time.time() - t0, 1)}
    print(json.dumps(out))
    return 0


if __name__ == "__main__":
    sys.exit(main(sys.argv[1:]))
