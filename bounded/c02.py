#!/venv/bin/python
"""Bounded contract monitor for C02: volume limits are enforced on every tracked operation.

Oracles (independent of robotools: own flattening / trough aliasing / transfer ordering, float64 + exact Fraction arithmetic):
  invariant  after EVERY call (returned or raised) every real well is a number with 0 <= v <= max_volume; a well whose
             volume went down is >= min_volume, one whose volume went up is <= max_volume. Exact comparisons, no tolerance.
  decide     every call is simulated sub-step by sub-step (column-major order for multi-well calls; own re-implementation of
             the column partitioning for transfers; source first for distribute). A sub-step whose float64 result AND exact
             result exceed max_volume / undercut min_volume must raise VolumeOverflowError / VolumeUnderflowError (both
             VolumeViolationException); one that stays within the limit in both arithmetics must be accepted. Where the two
             arithmetics disagree (round-off exactly at the limit) only the invariant is checked.
  unchanged  after a rejection the offending well still holds its value from before the offending sub-step and the
             sub-steps before it stay booked; wells that were not addressed never change.
  malformed  NaN / negative volumes must raise and change nothing; invalid constructor configurations (initial volume
             < 0, > max_volume or not finite, max_volume <= min_volume, min_volume < 0, NaN limits) must raise ValueError.
Not explored (genuine finding on the pinned tree, reported separately): max_volume=inf is accepted by the constructor and
then add(inf); remove(inf) yields NaN.
"""
import hashlib
import json
import logging
import math
import os
import random
import re
import sys
import time
import warnings
from fractions import Fraction as Fr

REPO = os.environ.get("PYVC_REPO", "/repo")
sys.path.insert(0, REPO)
VERIF = os.path.dirname(os.path.dirname(os.path.abspath(__file__)))
PROP = "C02"

import numpy as np  # noqa: E402

warnings.simplefilter("ignore")
logging.disable(logging.CRITICAL)
from robotools import EvoWorklist, FluentWorklist, Labware, Trough  # noqa: E402
from robotools import VolumeOverflowError, VolumeUnderflowError, VolumeViolationException  # noqa: E402

ROWS = "ABCDEFGHIJKLMNOPQRSTUVWXYZ"
INF, NAN = math.inf, math.nan
FMAX = sys.float_info.max


class Ambiguous(Exception):
    """A limit decision on which float64 and exact arithmetic disagree: only the invariants are checked."""


def dec(x):
    """JSON -> case: 'inf' / 'nan' strings are floats."""
    if isinstance(x, str) and x in ("inf", "-inf", "nan"):
        return float(x)
    if isinstance(x, list):
        return [dec(y) for y in x]
    if isinstance(x, dict):
        return {k: dec(v) for k, v in x.items()}
    return x


def enc(x):
    if isinstance(x, float) and (x != x or x in (INF, -INF)):
        return repr(x)
    if isinstance(x, list):
        return [enc(y) for y in x]
    if isinstance(x, dict):
        return {k: enc(v) for k, v in x.items()}
    return x


# ------------------------------------------------------------------ own semantics
def flat_f(x):
    """Column-major flattening of a scalar / list / rectangular list of lists."""
    if not isinstance(x, list):
        return [x]
    if x and isinstance(x[0], list):
        return [x[r][c] for c in range(len(x[0])) for r in range(len(x))]
    return list(x)


def is_trough(s):
    return s["vrows"] is not None


def widx(s, well):
    r, c = ROWS.index(well[0]), int(well[1:]) - 1
    assert len(well) == 3 and 0 <= c < s["cols"] and r < (s["vrows"] if is_trough(s) else s["rows"]), well
    return (0 if is_trough(s) else r, c)


def init_state(s):
    i, R, C = s["init"], s["rows"], s["cols"]
    if not isinstance(i, list):
        return [[float(i)] * C for _ in range(R)]
    if isinstance(i[0], list):
        return [[float(i[r][c]) for c in range(C)] for r in range(R)]
    return [[float(i[r * C + c]) for c in range(C)] for r in range(R)]


def ctor_valid(s):
    fin = lambda x: x == x and abs(x) != INF  # noqa: E731
    vals = [x for row in init_state(s) for x in row]
    return fin(s["min"]) and s["max"] == s["max"] and s["min"] >= 0 and s["max"] > s["min"] and all(fin(x) and 0 <= x <= s["max"] for x in vals)


def agree(f_says, x_says):
    if f_says != x_says:
        raise Ambiguous()
    return f_says


def substep(F, s, w, v, sign):
    """One tracked addition (sign=+1) / removal (sign=-1); returns None or 'over' / 'under'; books on F when accepted."""
    r, c = widx(s, w)
    cur = F[s["name"]][r][c]
    if v == INF:
        return "over" if sign > 0 else "under"
    if v == 0 and sign < 0 and cur < s["min"]:
        raise Ambiguous()  # removing nothing from a well that starts below min_volume: either outcome is fine
    new_f, new_x = cur + sign * float(v), Fr(cur) + sign * Fr(v)
    if sign > 0 and agree(new_f > s["max"], new_x > Fr(s["max"])):
        return "over"
    if sign < 0 and agree(new_f < s["min"], new_x < Fr(s["min"])):
        return "under"
    F[s["name"]][r][c] = new_f
    return None


def pairs(wells, vols):
    W, V = flat_f(wells), flat_f(vols)
    if len(V) == 1:
        V = V * len(W)
    if len(V) != len(W) or any(not v >= 0 for v in V):
        return None
    return list(zip(W, V))


def triples(op):
    S, D, V = flat_f(op["sw"]), flat_f(op["dw"]), flat_f(op["vols"])
    n = max(len(S), len(D), len(V))
    S, D, V = [x * n if len(x) == 1 else x for x in (S, D, V)]
    if len({len(S), len(D), len(V)}) != 1 or any(not v >= 0 for v in V):
        return None
    return list(zip(S, D, V))


def transfer_order(tr, s, d, pb):
    """Own statement of the pipetting order: groups by column of the partitioning side (ascending), rows ascending
    within a column, ties in input order. Returns None when more than 16 entries share a column (tie order unspecified)."""
    if pb == "auto":
        pb = "destination" if is_trough(s) and not is_trough(d) else "source"
    side = 0 if pb == "source" else 1
    groups = {}
    for t in tr:
        groups.setdefault(int(t[side][1:]), []).append(t)
    if any(len(g) > 16 for g in groups.values()):
        return None
    return [t for col in sorted(groups) for t in sorted(groups[col], key=lambda t: t[side])]


def expect(F, L, wl, op):
    """Model step on the float state F. Returns {'out': ..., 'touched': ...}; F then holds the expected state."""
    k = op["op"]
    if k in ("add", "remove", "aspirate", "dispense", "evo_aspirate", "evo_dispense"):
        s = L[op["lw"]]
        touched = {(s["name"], widx(s, w)) for w in flat_f(op["wells"])}
        pr = pairs(op["wells"], op["vols"])
        if pr is None:
            return {"out": "error", "touched": touched}
        sign = 1 if k in ("add", "dispense", "evo_dispense") else -1
        for w, v in pr:
            bad = substep(F, s, w, v, sign)
            if bad:
                return {"out": bad, "touched": touched}
        # the record emitters validate only after the volumes were booked (volume > diluter volume, repeated evo wells ...)
        loose = k not in ("add", "remove") and (any(v > min(wl["max_volume"], 7158278) for _, v in pr) or op.get("loose"))
        return {"out": "ok_or_error" if loose else "ok", "touched": touched}
    if k == "distribute":
        s, d = L[op["src"]], L[op["dst"]]
        W, v = flat_f(op["dw"]), op["vol"]
        touched = {(s["name"], (0, op["col"]))} | {(d["name"], widx(d, w)) for w in W}
        if not 0 <= v <= wl["max_volume"]:
            return {"out": "error", "touched": touched}
        cur = F[s["name"]][0][op["col"]]
        if v == 0 and cur < s["min"]:
            raise Ambiguous()
        if agree(cur - float(v) * len(W) < s["min"], Fr(cur) - Fr(v) * len(W) < Fr(s["min"])):
            return {"out": "under", "touched": touched}
        F[s["name"]][0][op["col"]] = cur - float(v) * len(W)
        for w in W:
            bad = substep(F, d, w, v, 1)
            if bad:
                return {"out": bad, "touched": touched}
        return {"out": "ok", "touched": touched}
    if k == "transfer":
        s, d = L[op["src"]], L[op["dst"]]
        touched = {(s["name"], widx(s, w)) for w in flat_f(op["sw"])} | {(d["name"], widx(d, w)) for w in flat_f(op["dw"])}
        tr = triples(op)
        if tr is None:
            return {"out": "error", "touched": touched}
        order = transfer_order(tr, s, d, op.get("pb", "auto"))
        big = any(v >= wl["max_volume"] for _, _, v in tr)
        if any(v > 1e5 * wl["max_volume"] for _, _, v in tr) or order is None or (big and not wl["auto_split"]):
            raise Ambiguous()  # absurd step counts / unspecified tie order / refused by the record emitter after booking
        if big:  # split volumes: order-insensitive reasoning on the net effect
            ev = {}
            for sw, dw, v in tr:
                if v > 0:
                    ev.setdefault((s["name"], widx(s, sw)), []).append(-Fr(v))
                    ev.setdefault((d["name"], widx(d, dw)), []).append(Fr(v))
            safe, bad = True, False
            for (n, (r, c)), es in ev.items():
                cur, mn, mx = Fr(F[n][r][c]), Fr(L[n]["min"]), Fr(L[n]["max"])
                lo, hi, fin = cur + sum(e for e in es if e < 0), cur + sum(e for e in es if e > 0), cur + sum(es)
                tol = Fr(1, 10**9) * max(1, mx)
                safe = safe and not (lo < mn + tol and any(e < 0 for e in es)) and not (hi > mx - tol and any(e > 0 for e in es))
                bad = bad or fin > mx + tol or (fin < cur and fin < mn - tol)
            return {"out": "split", "touched": touched, "safe": safe, "bad": bad}
        for sw, dw, v in order:
            if v > 0:
                bad = substep(F, s, sw, v, -1) or substep(F, d, dw, v, 1)
                if bad:
                    return {"out": bad, "touched": touched}
        return {"out": "ok", "touched": touched}
    raise ValueError(k)


# ------------------------------------------------------------------ the real thing
def mk_labware(s):
    iv = s["init"]
    if s.get("ik") == "nd":
        iv = np.array(iv, dtype=float)
    kw = dict(min_volume=s["min"], max_volume=s["max"], initial_volumes=iv)
    if s["kind"] == "plate":
        return Labware(s["name"], s["rows"], s["cols"], **kw)
    if s["kind"] == "trough":
        return Trough(s["name"], s["vrows"], s["cols"], **kw)
    return Labware(s["name"], 1, s["cols"], virtual_rows=s["vrows"], **kw)




def _layout(a):
    """every other 2-D argument is handed over in column-major (Fortran) memory layout: same content, same shape -
    results must not depend on the memory layout of an argument"""
    if isinstance(a, np.ndarray) and a.ndim == 2 and min(a.shape) > 1 and (a.shape[0] + a.shape[1]) % 2 == 0:
        return np.asfortranarray(a)
    return a

def arg(x, nd):
    return _layout(np.array(x)) if nd and isinstance(x, list) else x


def call(op, LW, WL):
    k, lab = op["op"], op.get("label")
    if k in ("add", "remove"):
        return getattr(LW[op["lw"]], k)(arg(op["wells"], op.get("wnd")), arg(op["vols"], op.get("vnd")), lab)
    if k in ("aspirate", "dispense"):
        return getattr(WL[op["dev"]], k)(LW[op["lw"]], arg(op["wells"], op.get("wnd")), arg(op["vols"], op.get("vnd")), label=lab)
    if k in ("evo_aspirate", "evo_dispense"):
        return getattr(WL["evo"], k)(LW[op["lw"]], op["wells"], (10, 1), op["tips"], op["vols"], "LC", label=lab)
    if k == "transfer":
        return WL[op["dev"]].transfer(LW[op["src"]], arg(op["sw"], op.get("wnd")), LW[op["dst"]], arg(op["dw"], op.get("wnd")),
                                      arg(op["vols"], op.get("vnd")), label=lab, partition_by=op.get("pb", "auto"), wash_scheme=op.get("wash", 1))
    if k == "distribute":
        return WL[op["dev"]].distribute(LW[op["src"]], op["col"], LW[op["dst"]], arg(op["dw"], op.get("wnd")), volume=op["vol"], label=lab or "")
    raise ValueError(k)


def observe(LW):
    return {n: lw.volumes.tolist() for n, lw in LW.items()}


def run_case(case):
    """Returns (failures, stats); failures = list of one-line strings (empty = pass)."""
    case = dec(case)
    stats = {"ops": 0, "accepted": 0, "rejected": 0, "kinds": {}}
    L, LW, fails = {}, {}, []
    for s in case["lw"]:
        L[s["name"]] = s
        try:
            LW[s["name"]] = mk_labware(s)
            if not ctor_valid(s):
                return [f"constructor: accepted an invalid configuration min={s['min']} max={s['max']} initial={s['init']}"], stats
        except Exception as e:  # noqa
            if ctor_valid(s) or not isinstance(e, ValueError):
                return [f"constructor: raised {type(e).__name__}: {e} for min={s['min']} max={s['max']} initial={s['init']}"], stats
            stats["rejected"] += 1
            return [], stats
    w = case["wl"]
    WL = {"evo": EvoWorklist(max_volume=w["max_volume"], auto_split=w["auto_split"]),
          "fluent": FluentWorklist(max_volume=w["max_volume"], auto_split=w["auto_split"])}
    F = {n: init_state(s) for n, s in L.items()}
    if observe(LW) != F:
        return [f"constructor: volumes {observe(LW)} differ from the initial volumes {F}"], stats
    for i, op in enumerate(case["ops"]):
        tag = f"op#{i} {op['op']}"
        before = observe(LW)
        Fb = {n: [row[:] for row in F[n]] for n in F}
        try:
            ex = expect(F, L, w, op)
        except Ambiguous:
            stats["ambiguous"] = stats.get("ambiguous", 0) + 1
            ex = {"out": "free", "touched": None}
        exc = None
        try:
            call(op, LW, WL)
        except Exception as e:  # noqa
            exc = e
        after = observe(LW)
        stats["ops"] += 1
        stats["kinds"][op["op"]] = stats["kinds"].get(op["op"], 0) + 1
        out, how = ex["out"], (f"raised {type(exc).__name__}" if exc else "returned normally")
        # -- invariants, exact
        for n in after:
            mn, mx = L[n]["min"], L[n]["max"]
            for r, row in enumerate(after[n]):
                for c, x in enumerate(row):
                    b = before[n][r][c]
                    if not (0 <= x <= mx):
                        fails.append(f"{tag}: {how} and left {n}[{r},{c}] = {x!r} outside [0, max_volume={mx!r}] (was {b!r})")
                    elif x < b and x < mn:
                        fails.append(f"{tag}: {how} and left {n}[{r},{c}] = {x!r} below min_volume={mn!r} after a removal (was {b!r})")
                    elif ex["touched"] is not None and (n, (r, c)) not in ex["touched"] and repr(x) != repr(b):
                        fails.append(f"{tag}: well {n}[{r},{c}] was not addressed but changed {b!r} -> {x!r}")
        if fails:
            break
        # -- decision
        viol = isinstance(exc, VolumeViolationException)
        if isinstance(exc, (VolumeOverflowError, VolumeUnderflowError)) and not viol:
            fails.append(f"{tag}: {type(exc).__name__} is not a VolumeViolationException")
        if out == "ok" and exc is not None:
            fails.append(f"{tag}: every sub-step is within the limits but the call raised {type(exc).__name__}: {exc}")
        elif out == "ok_or_error" and viol:
            fails.append(f"{tag}: every sub-step is within the limits but the call raised {type(exc).__name__}: {exc}")
        elif out == "over" and not isinstance(exc, VolumeOverflowError):
            fails.append(f"{tag}: a sub-step exceeds max_volume, expected VolumeOverflowError but the call {how}")
        elif out == "under" and not isinstance(exc, VolumeUnderflowError):
            fails.append(f"{tag}: a sub-step undercuts min_volume, expected VolumeUnderflowError but the call {how}")
        elif out == "error" and (exc is None or after != before):
            fails.append(f"{tag}: malformed call (NaN / negative / oversized volume, length mismatch) {how}" + (" and changed volumes" if after != before else ""))
        elif out == "split":
            if exc is None and ex["bad"]:
                fails.append(f"{tag}: accepted although its net effect leaves a well beyond a limit")
            elif viol and ex["safe"]:
                fails.append(f"{tag}: raised {type(exc).__name__} although every sub-step is within limits: {exc}")
            elif exc is not None and not viol:
                fails.append(f"{tag}: valid transfer raised {type(exc).__name__}: {exc}")
        if fails:
            break
        stats["accepted" if exc is None else "rejected"] += 1
        # -- state: sub-steps before the offender booked, offender and everything after it untouched
        if out in ("ok", "over", "under") or (out == "ok_or_error" and not (exc is not None and after == before)):
            for n in after:
                for r, row in enumerate(after[n]):
                    for c, x in enumerate(row):
                        if not abs(x - F[n][r][c]) <= 1e-9 * max(1.0, abs(F[n][r][c])):
                            fails.append(f"{tag}: {how}; {n}[{r},{c}] is {x!r} but booking the sub-steps "
                                         f"{'before the offending one' if out in ('over', 'under') else 'of the call'} gives {F[n][r][c]!r} (was {Fb[n][r][c]!r})")
            if fails:
                break
        F = {n: [row[:] for row in after[n]] for n in after}
    return fails, stats


# ------------------------------------------------------------------ generators
def up(x):
    return math.nextafter(x, INF)


def down(x):
    return math.nextafter(x, -INF)


def edge_volumes(room, limit):
    """Volumes around `room` (= what still fits / what may still be taken); `limit` scales the tolerance-sized excess."""
    room = max(room, 0.0)
    return [room, up(room), down(room) if room > 0 else 0.0, room + 1e-9, room * (1 + 1e-7), room + 5e-6 * limit, room + 1e-9 * limit,
            room + 0.002, room * 2 + 1, room / 2, 0.0, 5e-324, INF, 1e308, FMAX, 7158279.0]


def at_and_beyond(cur, lim, sign):
    """Largest volume that float64 still books within the limit, and the smallest found one that goes beyond it."""
    ok = (lambda v: cur + v <= lim) if sign > 0 else (lambda v: cur - v >= lim)
    v = max((lim - cur) if sign > 0 else (cur - lim), 0.0)
    for _ in range(4):
        v = v if ok(v) else down(v)
    for _ in range(4):
        v = up(v) if ok(up(v)) else v
    u = math.ulp(float(lim)) if lim else 5e-324
    beyond = next((c for c in (up(v), v + u / 2, v + u, v + 2 * u) if not ok(c)), v + 4 * u)
    return v, beyond


LIMITS = [(0, 100), (0, 250), (10, 100), (20, 250), (12.5, 1000), (0, 0.3), (0.1, 0.3), (0, 1e-3), (5, 1e9), (0, 1e300), (0, FMAX),
          (0.7, 0.9), (0, 50000), (1e-9, 2e-9)]


def q(rng, hi):
    hi = max(float(hi), 0.0)
    return rng.choice([rng.randint(0, int(min(hi, 1e6) * 4)) / 4, round(rng.uniform(0, hi), 2), rng.uniform(0, hi), rng.randint(0, 30) / 10, hi / 3])


def gen_lw(rng, name):
    kind = rng.choice(["plate", "plate", "trough", "trough", "vtrough"])
    if kind == "plate":
        rows, cols, vrows = rng.choice([1, 2, 2, 3, 8]), rng.choice([1, 2, 3, 12]), None
    else:
        rows, cols, vrows = 1, rng.choice([1, 2, 3]), rng.choice([1, 2, 4, 8])
    mn, mx = rng.choice(LIMITS)
    pick = lambda: rng.choice([0, mn, mx, mx, down(float(mx)), up(float(mn)), mn / 2, rng.uniform(0, mx), rng.uniform(mn, mx), (mn + mx) / 2])  # noqa: E731
    s = {"name": name, "kind": kind, "rows": rows, "vrows": vrows, "cols": cols, "min": mn, "max": mx}
    if rng.random() < 0.2:
        s["init"], s["ik"] = pick(), "scalar"
    else:
        flat = [pick() for _ in range(rows * cols)]
        s["ik"] = rng.choice(["flat", "nd"])
        s["init"] = flat if kind == "trough" or rng.random() < 0.5 else [flat[r * cols:(r + 1) * cols] for r in range(rows)]
    return s


def gen_wells(rng, s):
    nr = s["vrows"] if is_trough(s) else s["rows"]
    grid = [[f"{ROWS[r]}{c + 1:02d}" for c in range(s["cols"])] for r in range(nr)]
    allw = [w for row in grid for w in row]
    m = rng.random()
    if m < 0.3:
        return rng.choice(allw)
    if m < 0.75:
        pool = rng.sample(allw, min(len(allw), rng.randint(1, 3)))
        return [rng.choice(pool) for _ in range(rng.randint(1, 5))]
    r0, c0 = rng.randrange(nr), rng.randrange(s["cols"])
    r1, c1 = rng.randint(r0 + 1, min(nr, r0 + 3)), rng.randint(c0 + 1, min(s["cols"], c0 + 2))
    return [row[c0:c1] for row in grid[r0:r1]]


def room_of(F, s, w, add):
    r, c = widx(s, w)
    return (s["max"] - F[s["name"]][r][c]) if add else (F[s["name"]][r][c] - s["min"])


def pick_vols(rng, F, s, W, add, cap=None):
    """Volume argument for wells W: scalar or list, aimed at the limit of the tightest well counting repeats."""
    fw = flat_f(W)
    cnt = {w: sum(1 for x in fw if widx(s, x) == widx(s, w)) for w in fw}
    m = rng.random()
    if m < 0.55:  # scalar around the limit of the tightest well
        w = min(fw, key=lambda w: room_of(F, s, w, add) / cnt[w])
        ev = edge_volumes(room_of(F, s, w, add) / cnt[w], s["max"] if add else max(s["min"], 1))
        v = rng.choice(ev[11:] if rng.random() < 0.08 else ev[:11] + [ev[0], ev[2], ev[9], ev[9] / 2, ev[9] / 4])
        if cnt[w] == 1 and rng.random() < 0.25:  # exactly the last / first float64 volume on either side of the limit
            r, c = widx(s, w)
            v = rng.choice(at_and_beyond(F[s["name"]][r][c], float(s["max"] if add else s["min"]), 1 if add else -1))
        if v == int(v) if abs(v) < 1e15 else False:
            v = rng.choice([v, int(v)])
        V = rng.choice([v, [v]])
    elif m < 0.85:  # list: every well gets a share of its own room, the last occurrence sits on the edge
        V = []
        for w in fw:
            rm = max(room_of(F, s, w, add), 0.0) / cnt[w]
            V.append(rng.choice(edge_volumes(rm, s["max"])[:8]) if rng.random() < 0.4 else rng.choice([rm, rm / 2, 0.0, q(rng, rm)]))
    else:
        V = q(rng, max(room_of(F, s, fw[0], add), 1.0))
    if cap is not None:
        V = [min(v, cap) for v in V] if isinstance(V, list) else min(V, cap)
    return V


def gen_op(rng, L, F, wl):
    names = list(L)
    troughs = [n for n in names if is_trough(L[n])]
    k = rng.choice(["add", "remove", "aspirate", "dispense", "transfer", "transfer", "transfer", "distribute", "distribute", "evo", "evo"])
    if k == "distribute" and not troughs:
        k = "transfer"
    op = {"dev": rng.choice(["evo", "fluent"]), "wnd": rng.random() < 0.4, "vnd": rng.random() < 0.4}
    if k in ("add", "remove", "aspirate", "dispense"):
        s = L[rng.choice(names)]
        W = gen_wells(rng, s)
        V = pick_vols(rng, F, s, W, k in ("add", "dispense"))
        if rng.random() < 0.03:
            V = rng.choice([NAN, -1.0, [1.0] * (len(flat_f(W)) + 1), [NAN] * len(flat_f(W))])
        op.update(op=k, lw=s["name"], wells=W, vols=V)
    elif k == "evo":
        s = L[rng.choice(names)]
        nr = min(s["vrows"] if is_trough(s) else s["rows"], 8)
        c = rng.randrange(s["cols"])
        rows = sorted(rng.sample(range(nr), rng.randint(1, nr)))
        loose = rng.random() < 0.3 and len(rows) < 8
        if loose:  # repeated / unsorted wells: booked sequentially, then refused by the command builder
            rows = rows + [rng.choice(rows)]
        wells = [f"{ROWS[r]}{c + 1:02d}" for r in rows]
        kk = rng.choice(["evo_aspirate", "evo_dispense"])
        V = pick_vols(rng, F, s, wells, kk == "evo_dispense")
        if isinstance(V, list) and len(V) == 1:
            V = V[0]
        op.update(op=kk, lw=s["name"], wells=wells, tips=sorted(rng.sample(range(1, 9), len(rows))), vols=V, wnd=False, vnd=False, loose=loose)
    elif k == "transfer":
        s, d = L[rng.choice(names)], L[rng.choice(names + [names[0]])]
        SW = gen_wells(rng, s)
        SW = [SW] if isinstance(SW, str) and rng.random() < 0.5 else SW
        n = len(flat_f(SW))
        pool = flat_f(gen_wells(rng, d))
        DW = rng.choice(pool) if rng.random() < 0.25 else [rng.choice(pool) for _ in range(n)]
        if rng.random() < 0.5:  # aim at the source limit, else at the destination limit
            V = pick_vols(rng, F, s, SW if n > 1 else flat_f(SW), False)
        else:
            V = pick_vols(rng, F, d, DW if isinstance(DW, list) else [DW] * n, True)
        V = V[0] if isinstance(V, list) and len(V) == 1 and n > 1 and rng.random() < 0.5 else V
        capv = 40 * wl["max_volume"] if wl["auto_split"] else INF
        V = [v if v <= capv or v == INF else capv for v in V] if isinstance(V, list) else (V if V <= capv or V == INF else capv)
        if rng.random() < 0.03:
            V = rng.choice([NAN, -1.0, [-1.0] + [1.0] * (n - 1)])
        op.update(op="transfer", src=s["name"], sw=SW, dst=d["name"], dw=DW, vols=V, pb=rng.choice(["auto", "auto", "source", "destination"]),
                  wash=rng.choice([1, "flush", "reuse"]))
    else:
        s, d = L[rng.choice(troughs)], L[rng.choice(names)]
        col = rng.randrange(s["cols"])
        DW = gen_wells(rng, d)
        DW = [DW] if isinstance(DW, str) else DW
        n = len(flat_f(DW))
        if rng.random() < 0.5:
            v = rng.choice(edge_volumes(max(F[s["name"]][0][col] - s["min"], 0.0) / n, max(s["min"], 1)))
        else:
            v = pick_vols(rng, F, d, DW, True)
            v = v[0] if isinstance(v, list) else v
        op.update(op="distribute", src=s["name"], col=col, dst=d["name"], dw=DW, vol=v if rng.random() < 0.15 else min(v, wl["max_volume"]))
    return op


def gen_case(rng):
    L = {}
    for name in "ABC"[: rng.choice([1, 2, 2, 3])]:
        L[name] = gen_lw(rng, name)
    if rng.random() < 0.04:  # invalid constructor configurations
        s = L["A"]
        bad = rng.choice(["neg", "above", "nan", "inf", "maxlemin", "minneg", "nanmax", "nanmin"])
        if bad in ("neg", "above", "nan", "inf"):
            x = {"neg": -rng.choice([5e-324, 1e-9, 1.0]), "above": rng.choice([up(float(s["max"])), s["max"] * (1 + 1e-7) + 1e-9]), "nan": NAN, "inf": INF}[bad]
            if isinstance(s["init"], list):
                flat = [v for row in (s["init"] if isinstance(s["init"][0], list) else [s["init"]]) for v in row]
                flat[rng.randrange(len(flat))] = x
                s["init"], s["ik"] = flat, "flat"
            else:
                s["init"] = x
        else:
            s.update({"maxlemin": {"max": s["min"]}, "minneg": {"min": -1e-9}, "nanmax": {"max": NAN}, "nanmin": {"min": NAN}}[bad])
            if bad == "maxlemin":
                s["min"], s["max"], s["init"], s["ik"] = 5, rng.choice([5, down(5.0), 0]), 0, "scalar"
        return enc({"lw": [s], "wl": {"max_volume": 950, "auto_split": True}, "ops": []})
    wl = {"max_volume": rng.choice([950, 950, 950, 200, 1000, 62.5]), "auto_split": rng.random() < 0.6}
    F = {n: init_state(s) for n, s in L.items()}
    ops = []
    for _ in range(rng.randint(1, 10)):
        op = gen_op(rng, L, F, wl)
        ops.append(op)
        try:
            expect(F, L, wl, op)
        except Ambiguous:
            pass
    return enc({"lw": list(L.values()), "wl": wl, "ops": ops})


def enum_cases(tier):
    """Small-scope exhaustive part: 2-well plate / 2-virtual-row trough x limits x initial volume x operation x boundary volume
    (exactly at the limit, one ulp below / beyond, tolerance-sized excess, zero, huge, infinite) x single / repeated well, each call twice."""
    wl = {"max_volume": 950, "auto_split": True}
    for mn, mx in ((10, 100), (0.1, 0.3)) if tier == "quick" else ((10, 100), (0, 0.3), (0.1, 0.3), (0, 250), (12.5, 1000)):
        for init in (0.0, float(mn), (mn + mx) / 2, 0.1 * 2 if mx < 1 else 33.3, float(mx)):
            P = {"name": "P", "kind": "plate", "rows": 2, "vrows": None, "cols": 1, "min": mn, "max": mx, "init": init, "ik": "scalar"}
            T = {"name": "T", "kind": "trough", "rows": 1, "vrows": 2, "cols": 1, "min": mn, "max": mx, "init": init, "ik": "scalar"}
            for add in (True, False):
                room = (mx - init) if add else (init - mn)
                for rep in (1, 2):
                    wells = "A01" if rep == 1 else ["A01", "A01"]
                    for v in edge_volumes(room / rep, mx if add else max(mn, 1)):
                        for s in (P, T):
                            base = {"lw": [s], "wl": wl}
                            kinds = [("add" if add else "remove", "evo"), ("dispense" if add else "aspirate", "evo"), ("dispense" if add else "aspirate", "fluent")]
                            for k, dev in kinds:
                                o = {"op": k, "dev": dev, "lw": s["name"], "wells": wells, "vols": v}
                                yield enc(dict(base, ops=[o, o]))
                            o = {"op": "evo_dispense" if add else "evo_aspirate", "lw": s["name"], "wells": ["A01"] * rep, "tips": [1, 2][:rep], "vols": v, "loose": rep == 2}
                            yield enc(dict(base, ops=[o, o]))
                            if s is T:
                                o = {"op": "evo_dispense" if add else "evo_aspirate", "lw": "T", "wells": ["A01", "B01"][:rep], "tips": [1, 2][:rep], "vols": v}
                                yield enc(dict(base, ops=[o, o]))
                        # transfers / distributions that hit the limit on the source or on the destination side
                        for dev in ("evo", "fluent"):
                            big = dict(P, name="Q", min=0, max=1e9, init=5e8)
                            bigT = dict(T, name="U", min=0, max=1e9, init=5e8)
                            src, dst = (big, P) if add else (P, big)
                            o = {"op": "transfer", "dev": dev, "src": src["name"], "sw": ["A01"] * rep, "dst": dst["name"], "dw": ["A01"] * rep, "vols": v}
                            yield enc({"lw": [src, dst], "wl": wl, "ops": [o, o]})
                            o = {"op": "transfer", "dev": dev, "src": "P", "sw": ["A01"] * rep, "dst": "P", "dw": ["B01"] * rep, "vols": v}
                            yield enc({"lw": [P], "wl": wl, "ops": [o, o]})
                            src, dst = (bigT, P) if add else (T, big)
                            o = {"op": "distribute", "dev": dev, "src": src["name"], "col": 0, "dst": dst["name"], "dw": ["A01"] * rep if add else ["A01", "B01"][:rep], "vol": v}
                            yield enc({"lw": [src, dst], "wl": wl, "ops": [o, o]})


# ------------------------------------------------------------------ driver
def key_of(case):
    return hashlib.sha1(json.dumps(case, sort_keys=True).encode()).hexdigest()


def shrink(case):
    cur = case
    for i in range(len(cur["ops"]) - 1, -1, -1):
        cand = dict(cur, ops=cur["ops"][:i] + cur["ops"][i + 1:])
        try:
            if cand["ops"] and run_case(cand)[0]:
                cur = cand
        except Exception:  # noqa
            pass
    return cur


def main(argv):
    if argv and argv[0] == "--replay":
        path = argv[1] if os.path.isabs(argv[1]) or os.path.exists(argv[1]) else os.path.join(VERIF, argv[1])
        case = json.load(open(path))["bounded_replay"]["case"]
        fails, _ = run_case(case)
        print(json.dumps(case))
        print("observed:", fails if fails else "no violation - all oracles hold on the current tree")
        return 1 if fails else 0
    tier = argv[0] if argv else "quick"
    seed = int(argv[1]) if len(argv) > 1 else 0
    budget, n_rand = (15, 4000) if tier == "quick" else (240, 60000)
    t0 = time.time()
    rng = random.Random(seed)
    seen, failures, samples, kinds = set(), [], [], {}
    tot = {"evals": 0, "distinct": 0, "ops": 0, "accepted": 0, "rejected": 0, "ambiguous": 0}

    def do(case, part):
        k = key_of(case)
        if k in seen:
            return
        seen.add(k)
        fails, st = run_case(case)
        tot["evals"] += 1
        tot["distinct"] += 1 if (st["accepted"] or st["rejected"] or fails) else 0
        for kk in ("ops", "accepted", "rejected", "ambiguous"):
            tot[kk] += st.get(kk, 0)
        for kk, v in st["kinds"].items():
            kinds[kk] = kinds.get(kk, 0) + v
        if len(samples) < 3 and part == "random" and st["accepted"] and st["rejected"] and len(json.dumps(case)) < 600:
            samples.append(case)
        cls = fails and re.sub(r"[^a-z ]", "", fails[0].split(":")[0].split(" ")[-1] + fails[0].split(":")[1])[:40]
        if fails and len(failures) < 5 and not any(f["cls"] == cls for f in failures):
            small = shrink(case)
            sf = run_case(small)[0] or fails
            rp = os.path.join("replays", PROP, f"bounded_{key_of(small)[:10]}.json")
            os.makedirs(os.path.join(VERIF, "replays", PROP), exist_ok=True)
            with open(os.path.join(VERIF, rp), "w") as fh:
                json.dump({"property": PROP, "bounded_replay": {"script": "c02.py", "case": small}, "what": sf[0]}, fh, indent=1)
            failures.append({"what": sf[0], "replay": rp, "cls": cls})

    for case in enum_cases(tier):
        do(case, "enum")
    n_enum = tot["evals"]
    for _ in range(n_rand):
        if time.time() - t0 > budget:
            break
        do(gen_case(rng), "random")
    for f in failures:
        f.pop("cls")
    out = {"evaluations": tot["evals"], "distinct": tot["distinct"],
           "rule": "a case = labware configuration(s) + history of 1-10 calls (the enumeration: one call issued twice); distinct by SHA-1 of its "
                   "canonical JSON; non-trivial = at least one call was decided (accepted or rejected) by the oracle; "
                   f"{tot['ops']} calls: {tot['accepted']} accepted, {tot['rejected']} rejected, {tot['ambiguous']} with float/exact disagreement (invariants only)",
           "samples": samples,
           "parts": [{"function": "add/remove/aspirate/dispense/evo_aspirate/evo_dispense/transfer/distribute at the limits", "kind": "bounded exhaustive enumeration",
                      "bound": f"{2 if tier == 'quick' else 5} limit pairs x 5 initial volumes x 16 boundary volumes x single/repeated well x plate/trough x device, each call twice", "evaluations": n_enum},
                     {"function": "histories over " + ", ".join(f"{k}:{v}" for k, v in sorted(kinds.items())), "kind": "bounded seeded random histories",
                      "bound": f"seed {seed}, <= {n_rand} cases or {budget} s; 14 limit pairs incl. 1e-9..1.8e308, plates <= 8x12, troughs <= 8 virtual rows x 3, <= 10 calls",
                      "evaluations": tot["evals"] - n_enum}],
           "failures": failures}
    print(json.dumps(out))
    return 0


if __name__ == "__main__":
    sys.exit(main(sys.argv[1:]))
