#!/usr/bin/env python
"""C09 bounded contract monitor: every record is well-formed and carries exactly the arguments given.

Two kinds of cases, both executed on the REAL worklist classes (BaseWorklist / EvoWorklist / FluentWorklist):

  seq   a sequence of low-level calls on ONE worklist (comment, wash, decontaminate, flush, commit, set_diti, aspirate_well,
        dispense_well, reagent_distribution, plus caller-side list mutations $clear / $append / $pop and shared argument
        lists that the caller mutates between calls).  After every call the oracle demands
          * the records that existed before the call are untouched,
          * a call whose arguments cannot be represented raised and appended nothing,
          * a representable call was accepted and appended exactly the records the statement prescribes; every new record
            is decoded by the own parser below (fixed field count per record type, typed fields, no line break) and the
            decoded fields equal the supplied arguments slot by slot (volume of A/D within half a cent of the argument,
            R volume exact, tip mask = OR of 2^(n-1), exclusions numerically sorted, multi-dispense reduced minimally),
          * (for a deterministic subset and always in --replay) save() writes exactly one record per line.
  hl    Evo/FluentWorklist.aspirate / dispense / transfer / distribute with keyword pass-through on labware of many
        geometries (plates and troughs, 1-D / 2-D lists, C-, F-ordered and transposed numpy arrays, several labware with
        the same well ids but different shapes on one worklist): every A/D/R record decodes, carries exactly the keyword
        arguments, the labware name and a position computed by own index arithmetic; volumes per well add up.

All expectations are computed from the property statement only (own parser `decode`, own tip arithmetic, own position
arithmetic, fractions.Fraction for volumes); none of the library helpers is used.

Verdict classes of the oracle for one call: raise (must raise, nothing appended) > unchecked > either (may raise; if
accepted the record must be right) > ok (must be accepted).  "either" is used where the statement leaves the choice open:
position 0, integral floats and numpy integers as A/D position or tip, numbers equal to 1..4 that are not ints as wash
scheme, any scheme in DiTi mode, tube IDs / liquid classes longer than 32 characters, None for an optional text field.

SUSPECTED DEFECTS ON THE UNCHANGED TREE  (these input regions are classed "unchecked": the call is executed, only
"an exception leaves the worklist untouched" and "earlier records stay" are demanded)
  * bool where a number is expected is written with its Python name:
        BaseWorklist().aspirate_well("A", True, 1)                          -> 'A;A;;;True;;1.00;;;;'
        BaseWorklist().reagent_distribution("S", True, 8, "D", 1, 96, volume=50)   -> 'R;S;;;True;8;D;;;1;96;50;;1;1;0'
        BaseWorklist().reagent_distribution("S", 1, 8, "D", 1, 96, volume=True)    -> '...;96;True;;1;1;0'
        BaseWorklist().reagent_distribution("S", 1, 8, "D", 1, 96, volume=50, exclude_wells=[True]) -> '...;0;True'
        BaseWorklist().set_diti(True) -> 'S;True'      (likewise diti_reuse=True / multi_disp=True)
  * volume -0.0 is written with a sign: aspirate_well("A", 1, -0.0) -> 'A;A;;;1;;-0.00;;;;' (R record: '-0.0')
  * an empty tip iterable gives tip mask 0: aspirate_well("A", 1, 1, tip=[]) -> 'A;A;;;1;;1.00;;;0;'
  * high-level calls with a label and an unrepresentable keyword argument leave the label behind:
        EvoWorklist().aspirate(plate, "A01", 1, label="lab", liquid_class="a;b") raises ValueError, worklist == ['C;lab']
    (the monitor uses label=None for unrepresentable pass-through arguments and, with a label, only demands that no
    A/D/R record was appended).
REPAIRED in /repo commit 1763a12 (these regions are fully checked now: invalid values must raise and leave the worklist
untouched, valid ones - int and numpy integers - must decode exactly):
  * set_diti index that is not an int / numpy integer >= 0 (was: set_diti(2.5) -> 'S;2.5', set_diti("1;2") -> 'S;1;2', set_diti(-1))
  * reagent_distribution diti_reuse / multi_disp that is not an int / numpy integer >= 1 (was: 2.5, -3, "a;b" written verbatim)
  * excluded wells that are not ints / numpy integers (was: exclude_wells=[3.0, 2] -> '...;0;2;3.0')
Outside the quantifier of the statement and therefore not generated: control characters (incl. line breaks) in text fields
other than comments, str where a number is expected, str as tip.
Known finding C01 (FluentWorklist.distribute numbers the source range EVO-style): the two source-range fields of R records
emitted by FluentWorklist.distribute are not compared.
"""
import hashlib
import json
import logging
import math
import os
import random
import re
import shutil
import sys
import tempfile
import time
import warnings
import zlib
from fractions import Fraction as F

REPO = os.environ.get("PYVC_REPO", "/repo")
sys.path.insert(0, REPO)
VERIF = os.path.dirname(os.path.dirname(os.path.abspath(__file__)))
PROP = "C09"

import numpy  # noqa: E402
import robotools  # noqa: E402
from robotools import EvoWorklist, FluentWorklist, Labware, Trough  # noqa: E402
from robotools.evotools.types import Tip  # noqa: E402
from robotools.worklists.base import BaseWorklist  # noqa: E402

assert os.path.realpath(robotools.__file__).startswith(os.path.realpath(REPO) + os.sep), robotools.__file__
logging.disable(logging.CRITICAL)
warnings.simplefilter("ignore")

DEVICES = {"base": BaseWorklist, "evo": EvoWorklist, "fluent": FluentWorklist}
LETTERS = "ABCDEFGHIJKLMNOPQRSTUVWXYZ"
PRINTABLE = [chr(c) for c in range(0x20, 0x7F)] + [chr(c) for c in range(0xA0, 0x100)]
WS = " \t\r\xa0\x0b\x0c"
VOL_LIMIT = 7158278
HALF_CENT = F(5, 1000)
TMP = None


# ------------------------------------------------------------------ argument encoding (JSON <-> live objects)
def dec(x, shared=None):
    """JSON description -> live argument.  Plain JSON values stand for themselves (int, float incl. NaN/inf, str, None, bool,
    list); {"$": ...} describes numpy scalars / arrays, Tip members, tuples, sets, generators, ranges and shared lists."""
    if isinstance(x, dict):
        t = x["$"]
        if t == "np":
            return getattr(numpy, x["dtype"])(x["v"])
        if t == "tip":
            return getattr(Tip, x["v"])
        if t == "tuple":
            return tuple(dec(e, shared) for e in x["v"])
        if t == "set":
            return set(dec(e, shared) for e in x["v"])
        if t == "gen":
            return (e for e in [dec(e, shared) for e in x["v"]])
        if t == "range":
            return range(x["v"][0], x["v"][1])
        if t == "arr":
            if x.get("order") == "T" and x["v"] and isinstance(x["v"][0], list):
                a = numpy.array([list(col) for col in zip(*x["v"])], dtype=x.get("dtype")).T  # transposed view, same content
            else:
                a = numpy.array(x["v"], dtype=x.get("dtype"))
                if x.get("order") == "F":
                    a = numpy.asfortranarray(a)
            return a
        if t == "ref":  # one list object per id within a case; the caller overwrites its content between calls
            if shared is None:
                return [dec(e) for e in x["v"]]
            if x["id"] not in shared:
                shared[x["id"]] = []
            shared[x["id"]][:] = [dec(e, shared) for e in x["v"]]
            return shared[x["id"]]
        raise ValueError(f"unknown encoding {x}")
    if isinstance(x, list):
        return [dec(e, shared) for e in x]
    return x


def elements(x):
    """The encoded elements of an encoded iterable, or None if x does not describe an iterable."""
    if isinstance(x, list):
        return x
    if isinstance(x, dict) and x["$"] in ("tuple", "set", "gen", "ref"):
        return x["v"]
    if isinstance(x, dict) and x["$"] == "range":
        return list(range(x["v"][0], x["v"][1]))
    if isinstance(x, dict) and x["$"] == "arr":
        return [{"$": "np", "dtype": x.get("dtype") or "int64", "v": e} for e in x["v"]]
    return None


def num(x):
    """Own view of an encoded number: dict(kind, val: Fraction | None, special, negzero) or None if x is not a number."""
    if isinstance(x, bool):
        return {"kind": "bool", "val": F(int(x)), "special": None, "negzero": False}
    if isinstance(x, int):
        return {"kind": "int", "val": F(x), "special": None, "negzero": False}
    if isinstance(x, float):
        kind, f = "float", x
    elif isinstance(x, dict) and x["$"] == "np":
        if "int" in x["dtype"]:
            return {"kind": "npint", "val": F(int(x["v"])), "special": None, "negzero": False}
        kind, f = "npfloat", float(getattr(numpy, x["dtype"])(x["v"]))
    else:
        return None
    if f != f:
        return {"kind": kind, "val": None, "special": "nan", "negzero": False}
    if f in (math.inf, -math.inf):
        return {"kind": kind, "val": None, "special": "inf" if f > 0 else "-inf", "negzero": False}
    return {"kind": kind, "val": F(f), "special": None, "negzero": f == 0 and math.copysign(1, f) < 0}


# ------------------------------------------------------------------ own parser of the worklist grammar
class Grammar(Exception):
    pass


RE_UINT = re.compile(r"^(0|[1-9][0-9]*)$")
RE_VOL2 = re.compile(r"^(0|[1-9][0-9]*)\.[0-9][0-9]$")
RE_NUM = re.compile(r"^[0-9]+(\.[0-9]+)?([eE][+-]?[0-9]+)?$")


def _uint(s, what, rec):
    if not RE_UINT.match(s) or not s.isascii():
        raise Grammar(f"{what} field {s!r} is not an unsigned integer literal in {rec!r}")
    return int(s)


def decode(rec):
    """One record -> dict of typed fields.  Raises Grammar if the record is not a record of the worklist grammar."""
    if not isinstance(rec, str):
        raise Grammar(f"record {rec!r} is not a string")
    if "\n" in rec or "\r" in rec:
        raise Grammar(f"record spans more than one line: {rec!r}")
    f = rec.split(";")
    t = f[0]
    if t in ("A", "D"):
        if len(f) != 11:
            raise Grammar(f"{t} record with {len(f)} fields instead of 11: {rec!r}")
        if not RE_VOL2.match(f[6]) or not f[6].isascii():
            raise Grammar(f"volume field {f[6]!r} is not a two-decimal literal in {rec!r}")
        if f[8] != "":
            raise Grammar(f"tip type field {f[8]!r} not empty in {rec!r}")
        mask = None
        if f[9] != "":
            mask = _uint(f[9], "tip mask", rec)
            if not 1 <= mask <= 255:
                raise Grammar(f"tip mask {mask} outside 1..255 in {rec!r}")
        return {"t": t, "rack_label": f[1], "rack_id": f[2], "rack_type": f[3], "position": _uint(f[4], "position", rec),
                "tube_id": f[5], "vol": F(f[6]), "liquid_class": f[7], "tip": mask, "forced_rack_type": f[10]}
    if t == "R":
        if len(f) < 16:
            raise Grammar(f"R record with {len(f)} fields (at least 16 expected): {rec!r}")
        if not RE_NUM.match(f[11]) or not f[11].isascii():
            raise Grammar(f"volume field {f[11]!r} is not a number literal in {rec!r}")
        if f[15] not in ("0", "1"):
            raise Grammar(f"direction field {f[15]!r} is not 0 or 1 in {rec!r}")
        return {"t": "R", "src_rack_label": f[1], "src_rack_id": f[2], "src_rack_type": f[3],
                "src_start": _uint(f[4], "source start", rec), "src_end": _uint(f[5], "source end", rec),
                "dst_rack_label": f[6], "dst_rack_id": f[7], "dst_rack_type": f[8],
                "dst_start": _uint(f[9], "destination start", rec), "dst_end": _uint(f[10], "destination end", rec),
                "vol": F(f[11]), "liquid_class": f[12], "diti_reuse": _uint(f[13], "DiTi reuse", rec),
                "multi_disp": _uint(f[14], "multi-dispense", rec), "direction": int(f[15]),
                "exclude": [_uint(e, "excluded well", rec) for e in f[16:]]}
    if t == "C":
        if len(f) != 2:
            raise Grammar(f"comment record with {len(f)} fields: {rec!r}")
        return {"t": "C", "text": f[1]}
    if t == "S":
        if len(f) != 2:
            raise Grammar(f"S record with {len(f)} fields: {rec!r}")
        return {"t": "S", "index": _uint(f[1], "DiTi index", rec)}
    if rec in ("W;", "W1;", "W2;", "W3;", "W4;", "WD;", "F;", "B;"):
        return {"t": rec[:-1]}
    raise Grammar(f"not a record of the worklist grammar: {rec!r}")


# ------------------------------------------------------------------ own classification of arguments
RANK = {"ok": 0, "either": 1, "unchecked": 2, "raise": 3}


def worst(classes):
    return max(classes, key=lambda c: RANK[c])


def text_class(s, limit32, required=False):
    if s is None:
        return "raise" if required else "either"
    if not isinstance(s, str):
        return "raise"
    if ";" in s:
        return "raise"
    if len(s) > 32:
        return "raise" if limit32 else "either"
    return "ok"


def pos_class(x, rd):
    n = num(x)
    if n is None:
        return "raise"
    if n["kind"] == "bool":
        return "unchecked"
    if n["special"] or n["val"] < 0 or n["val"].denominator != 1:
        return "raise"
    if n["kind"] in ("float", "npfloat"):
        return "either"
    if n["kind"] == "npint" and not rd:
        return "either"
    if n["val"] == 0:
        return "either"
    return "ok"


def vol_class(x, maxv, rd):
    n = num(x)
    if n is None:
        return "raise"
    if n["special"]:
        return "raise"
    if n["val"] < 0 or n["val"] > VOL_LIMIT or n["val"] > F(maxv):
        return "raise"
    if n["negzero"] or n["kind"] == "bool":
        return "unchecked"
    return "ok"


def tip_bits(e):
    """-> (class, bit) for one encoded tip element"""
    if isinstance(e, dict) and e.get("$") == "tip":
        return ("ok", None) if e["v"] == "Any" else ("ok", 1 << (int(e["v"][1:]) - 1))
    n = num(e)
    if n is None or n["kind"] in ("float", "npfloat"):
        return "raise", None
    if n["kind"] == "bool":
        return "unchecked", None
    if not 1 <= n["val"] <= 8:
        return "raise", None
    return ("ok" if n["kind"] == "int" else "either"), 1 << (int(n["val"]) - 1)


def tip_class(x):
    """-> (class, expected mask or None for 'no mask')"""
    els = None if isinstance(x, dict) and x.get("$") in ("tip", "np") else elements(x)
    if els is None:
        return tip_bits(x)
    if isinstance(x, dict) and x.get("$") == "range":
        els = list(els)
    if not els:
        return "unchecked", None
    cls, mask = [], 0
    for e in els:
        c, b = tip_bits(e)
        if c == "ok" and b is None:  # Tip.Any inside an iterable
            c = "raise"
        cls.append(c)
        mask |= b or 0
    return worst(cls), mask


def count_class(x):
    n = num(x)
    if n is not None and n["kind"] == "bool":
        return "unchecked"
    if n is None or n["kind"] not in ("int", "npint") or n["val"] < 1:
        return "raise"
    return "ok"


def my_trim(s):
    return s.strip(WS)


# ------------------------------------------------------------------ oracles: (class, [expected records]) per call
AD_DEFAULTS = {"liquid_class": "", "tip": {"$": "tip", "v": "Any"}, "rack_id": "", "tube_id": "", "rack_type": "", "forced_rack_type": ""}


def kw_classes(a):
    """classes and expected field values of the six pass-through keyword arguments"""
    g = lambda k: a.get(k, AD_DEFAULTS[k])  # noqa: E731
    tc, mask = tip_class(g("tip"))
    cls = [text_class(g("liquid_class"), False), tc, text_class(g("rack_id"), True), text_class(g("tube_id"), False),
           text_class(g("rack_type"), True), text_class(g("forced_rack_type"), True)]
    exp = {"liquid_class": g("liquid_class") or "", "tip": mask, "rack_id": g("rack_id") or "", "tube_id": g("tube_id") or "",
           "rack_type": g("rack_type") or "", "forced_rack_type": g("forced_rack_type") or ""}
    return cls, exp


def oracle_ad(t, a, maxv):
    cls, exp = kw_classes(a)
    cls += [text_class(a["rack_label"], True, required=True), pos_class(a["position"], False), vol_class(a["volume"], maxv, False)]
    c = worst(cls)
    if c in ("raise", "unchecked"):
        return c, None
    exp.update({"t": t, "rack_label": a["rack_label"], "position": int(num(a["position"])["val"]), "vol~": num(a["volume"])["val"]})
    return c, [exp]


RD_DEFAULTS = {"diti_reuse": 1, "multi_disp": 1, "exclude_wells": None, "liquid_class": "", "direction": "left_to_right",
               "src_rack_id": "", "src_rack_type": "", "dst_rack_id": "", "dst_rack_type": ""}


def oracle_rd(a, maxv):
    g = lambda k: a[k] if k in a else RD_DEFAULTS[k]  # noqa: E731
    cls = [text_class(g("src_rack_label"), True, True), text_class(g("dst_rack_label"), True, True), text_class(g("liquid_class"), False),
           text_class(g("src_rack_id"), True), text_class(g("src_rack_type"), True), text_class(g("dst_rack_id"), True),
           text_class(g("dst_rack_type"), True), vol_class(g("volume"), maxv, True), count_class(g("diti_reuse")), count_class(g("multi_disp"))]
    cls.append("ok" if g("direction") in ("left_to_right", "right_to_left") and isinstance(g("direction"), str) else "raise")
    pc = [pos_class(g(k), True) for k in ("src_start", "src_end", "dst_start", "dst_end")]
    cls += pc
    excl = []
    ex = g("exclude_wells")
    if ex is not None:
        els = elements(ex)
        if els is None:
            cls.append("raise")
        elif "raise" not in pc[2:] and "unchecked" not in pc[2:]:
            lo, hi = num(g("dst_start"))["val"], num(g("dst_end"))["val"]
            for e in els:
                n = num(e)
                if n is not None and n["kind"] == "bool":
                    cls.append("unchecked")
                elif n is None or n["kind"] not in ("int", "npint") or not lo <= n["val"] <= hi:
                    cls.append("raise")
                else:
                    excl.append(int(n["val"]))
            if isinstance(ex, dict) and ex["$"] == "set":
                excl = sorted(set(excl))
    c = worst(cls)
    if c in ("raise", "unchecked"):
        return c, None
    v, md, m = num(g("volume"))["val"], int(num(g("multi_disp"))["val"]), F(maxv)
    vdt = g("volume")["dtype"] if isinstance(g("volume"), dict) else "float64"  # round-off of the caller's own number type
    eps = {"float32": F(1, 10**6), "float16": F(1, 200)}.get(vdt, F(1, 10**12))
    exp = {"t": "R", "direction": 0 if g("direction") == "left_to_right" else 1, "vol=": v, "multi?": (md, v, m, eps),
           "diti_reuse": int(num(g("diti_reuse"))["val"]), "liquid_class": g("liquid_class") or "", "exclude": sorted(excl)}
    for k in ("src_rack_label", "dst_rack_label", "src_rack_id", "src_rack_type", "dst_rack_id", "dst_rack_type"):
        exp[k] = g(k) or ""
    for k in ("src_start", "src_end", "dst_start", "dst_end"):
        exp[k] = int(num(g(k))["val"])
    return c, [exp]


def oracle_wash(a, diti):
    s = a.get("scheme", 1)
    n = num(s)
    valid = n is not None and not n["special"] and n["val"] in (1, 2, 3, 4)
    if diti:
        return ("ok" if valid and n["kind"] in ("int", "npint") else "either"), [{"t": "W"}]
    if not valid:
        return "raise", None
    return ("ok" if n["kind"] in ("int", "npint") else "either"), [{"t": f"W{int(n['val'])}"}]


def oracle_comment(a):
    c = a.get("comment")
    if c is None or c == "":
        return "ok", []
    if not isinstance(c, str):
        return "unchecked", None
    if ";" in c:
        return "raise", None
    return "ok", [{"t": "C", "text~": my_trim(line)} for line in c.split("\n") if my_trim(line)]


def oracle_set_diti(a, before):
    allowed = not before
    if before:
        try:
            allowed = decode(before[-1])["t"] == "B"
        except Grammar:
            allowed = False
    if not allowed:
        return "raise", None
    n = num(a["diti_index"])
    if n is not None and n["kind"] == "bool":
        return "unchecked", None
    if n is None or n["kind"] not in ("int", "npint") or n["val"] < 0:
        return "raise", None
    return "ok", [{"t": "S", "index": int(n["val"])}]


def oracle(m, a, before, maxv, diti):
    if m in ("aspirate_well", "dispense_well"):
        return oracle_ad("A" if m[0] == "a" else "D", a, maxv)
    if m == "reagent_distribution":
        return oracle_rd(a, maxv)
    if m == "wash":
        return oracle_wash(a, diti)
    if m == "comment":
        return oracle_comment(a)
    if m == "set_diti":
        return oracle_set_diti(a, before)
    if m == "decontaminate":
        return ("raise", None) if diti else ("ok", [{"t": "WD"}])
    if m == "flush":
        return "ok", [{"t": "F"}]
    if m == "commit":
        return "ok", [{"t": "B"}]
    raise ValueError(m)


def match(rec, exp):
    """compare one record with the expected decoded fields -> problem text or None"""
    try:
        d = decode(rec)
    except Grammar as e:
        return str(e)
    for k, want in exp.items():
        if k == "vol~":
            if abs(d["vol"] - want) > HALF_CENT + want * F(1, 10**12):
                return f"volume field {float(d['vol'])} is not the argument {float(want)!r} rounded to two decimals in {rec!r}"
        elif k == "vol=":
            if abs(d["vol"] - want) > F(1, 10**9) * max(1, want):
                return f"volume field {float(d['vol'])!r} differs from the argument {float(want)!r} in {rec!r}"
        elif k == "text~":
            if d.get("t") != "C" or my_trim(d["text"]) != want or not d["text"]:
                return f"comment record {rec!r} does not carry the line {want!r}"
        elif k == "multi?":
            md, v, m, eps = want
            k_ = d["multi_disp"]
            lo, hi = m * (1 - eps), m * (1 + eps)  # float round-off of md * volume and max_volume / volume
            reduced = 1 <= k_ < md and k_ * v <= hi and (k_ + 1) * v >= lo  # the largest count that fits
            if md * v <= lo:
                good = k_ == md
            elif md * v > hi:
                good = reduced
            else:
                good = k_ == md or reduced
            if not good:
                return (f"multi-dispense field {k_}: requested {md} x volume {float(v)!r} with max_volume {float(m)!r} must be "
                        f"{'kept' if md * v <= lo else 'reduced only as far as needed'} in {rec!r}")
        elif d.get(k, "<absent>") != want:
            return f"field {k} decodes to {d.get(k, '<absent>')!r}, supplied {want!r}, in {rec!r}"
    return None


def check_saved(wl):
    """save() must write exactly one record per line"""
    recs = list(wl)
    if not recs:
        return None
    try:
        "\n".join(recs).encode("latin-1")
    except Exception:  # noqa
        return None
    global TMP
    if TMP is None:
        TMP = tempfile.mkdtemp(prefix="c09_")
    path = os.path.join(TMP, "w.gwl")
    try:
        wl.save(path)
        with open(path, "rb") as fh:
            lines = fh.read().decode("latin-1").split("\r\n")
    except Exception as e:  # noqa
        return f"save() of {recs[:3]!r}.. failed: {type(e).__name__}: {e}"
    if lines and lines[-1] == "":
        lines.pop()
    if lines != recs:
        return f"saved file has lines {lines[:4]!r}.., records are {recs[:4]!r}.."
    return None


def show(m, a):
    return f"{m}({', '.join(f'{k}={json.dumps(v)}' for k, v in a.items())})"[:300]


def do_call(wl, m, a, shared):
    live = {k: dec(v, shared) for k, v in a.items()}
    if m in ("aspirate_well", "dispense_well"):
        pos = [live.pop(k) for k in ("rack_label", "position", "volume")]
        return getattr(wl, m)(*pos, **live)
    if m == "reagent_distribution":
        pos = [live.pop(k) for k in ("src_rack_label", "src_start", "src_end", "dst_rack_label", "dst_start", "dst_end")]
        return wl.reagent_distribution(*pos, **live)
    if m == "wash" and "scheme" in live:
        return wl.wash(live["scheme"])
    if m == "comment":
        return wl.comment(live.get("comment"))
    if m == "set_diti":
        return wl.set_diti(live["diti_index"])
    return getattr(wl, m)(**live)


def judge(head, cls, exp, exc, before, after):
    """common verdict of one call -> problem text or None"""
    if after[:len(before)] != before:
        return f"{head} :: records that existed before the call were changed ({before[-2:]!r} -> {after[:len(before)][-2:]!r})"
    new = after[len(before):]
    if exc is not None:
        if new:
            return f"{head} :: raised {type(exc).__name__} but appended {new[:3]!r}"
        if cls == "ok":
            return f"{head} :: representable call refused: {type(exc).__name__}: {str(exc)[:120]}"
        return None
    if cls == "raise":
        return f"{head} :: the call must be refused (arguments cannot be represented / record not allowed at this point) but it returned and appended {new[:3]!r}"
    if cls == "unchecked":
        return None
    if len(new) != len(exp):
        return f"{head} :: appended {len(new)} records {new[:4]!r}, expected {len(exp)}"
    for rec, e in zip(new, exp):
        p = match(rec, e)
        if p:
            return f"{head} :: {p}"
    return None


def check_seq(c, replay=False):
    """-> (problem text or None, index of the failing call)"""
    maxv, diti = c.get("max_volume", 950), c.get("diti", False)
    wl = DEVICES[c.get("device", "base")](max_volume=maxv, diti_mode=diti)
    shared = {}
    for i, call in enumerate(c["calls"]):
        m, a = call["m"], call.get("a", {})
        before = list(wl)
        if m == "$clear":
            wl.clear()
            continue
        if m == "$pop":
            if wl:
                wl.pop()
            continue
        if m == "$append":
            wl.append(a["rec"])
            continue
        cls, exp = oracle(m, a, before, maxv, diti)
        exc = None
        try:
            do_call(wl, m, a, shared)
        except Exception as e:  # noqa
            exc = e
        p = judge(show(m, a) + (f" after {before[-1]!r}" if before and m == "set_diti" else ""), cls, exp, exc, before, list(wl))
        if p:
            return p, i
    if replay or zlib.crc32(json.dumps(c, sort_keys=True).encode()) % 8 == 0:
        p = check_saved(wl)
        if p:
            return p, len(c["calls"]) - 1
    return None, None


# ------------------------------------------------------------------ high-level pass-through (own position arithmetic)
def well_id(r, c):
    return f"{LETTERS[r]}{c + 1:02d}"


def own_position(device, lw, well):
    r, c = LETTERS.index(well[0]), int(well[1:]) - 1
    if lw.get("trough"):
        return 1 + c if device == "fluent" else 1 + c * lw["rows"] + r
    return 1 + c * lw["rows"] + r


def flat(x):
    """logical (row-major) flattening of an encoded scalar / list / 2-D list / array description"""
    if isinstance(x, dict) and x["$"] == "arr":
        x = x["v"]
    elif isinstance(x, dict) and x["$"] in ("tuple", "ref"):
        x = x["v"]
    if not isinstance(x, list):
        return [x]
    out = []
    for e in x:
        out += flat(e)
    return out


def make_labware(d):
    if d.get("trough"):
        return Trough(d["name"], d["rows"], d["cols"], min_volume=0, max_volume=1e15, initial_volumes=1e12)
    return Labware(d["name"], d["rows"], d["cols"], min_volume=0, max_volume=1e15, initial_volumes=1e12)


def broadcast(n, *seqs):
    return [s * n if len(s) == 1 else s for s in seqs]


def label_lines(label):
    return [my_trim(x) for x in (label or "").split("\n") if my_trim(x)]


def check_hl_records(head, new, want, label, others_ok):
    """new records against `want` = {"A": (labware name, {pos: [volumes]}), "D": ...}; kw fields must equal `want['kw']`"""
    got = {"A": {}, "D": {}}
    comments, n = [], {"A": 0, "D": 0}
    maxv = F(want["max"])
    for rec in new:
        try:
            d = decode(rec)
        except Grammar as e:
            return f"{head} :: {e}"
        if d["t"] in ("A", "D"):
            name, _ = want[d["t"]] if want.get(d["t"]) else (None, None)
            if name is None:
                return f"{head} :: unexpected {d['t']} record {rec!r}"
            if d["rack_label"] != name:
                return f"{head} :: rack label {d['rack_label']!r} instead of the labware name {name!r} in {rec!r}"
            for k, v in want["kw"].items():
                if d[k] != v:
                    return f"{head} :: field {k} decodes to {d[k]!r}, supplied {v!r}, in {rec!r}"
            if d["vol"] > maxv + HALF_CENT:
                return f"{head} :: record volume above max_volume in {rec!r}"
            got[d["t"]].setdefault(d["position"], []).append(d["vol"])
            n[d["t"]] += 1
        elif d["t"] == "C":
            comments.append(my_trim(d["text"]))
        elif d["t"] == "B":
            pass
        elif d["t"] not in others_ok:
            return f"{head} :: unexpected record {rec!r}"
    if comments != label_lines(label):
        return f"{head} :: comment records {comments!r} for label {label!r}"
    for t in ("A", "D"):
        exp = want[t][1] if want.get(t) else {}
        if sorted(got[t]) != sorted(p for p, vs in exp.items() if sum(vs) > 0):
            return f"{head} :: {t} records address positions {sorted(got[t])}, expected {sorted(p for p, vs in exp.items() if sum(vs) > 0)} (own index arithmetic)"
        for p, vs in exp.items():
            if sum(vs) == 0:
                continue
            steps = sum(max(1, math.ceil(v / maxv)) for v in vs if v > 0)
            if len(got[t][p]) != steps:
                return f"{head} :: {len(got[t][p])} {t} records for position {p}, expected {steps}"
            if abs(sum(got[t][p]) - sum(vs)) > HALF_CENT * steps + sum(vs) * F(1, 10**9):
                return f"{head} :: {t} volumes for position {p} add up to {float(sum(got[t][p]))}, supplied {float(sum(vs))}"
    if want.get("A") and want.get("D") and n["A"] != n["D"]:
        return f"{head} :: {n['A']} A records but {n['D']} D records"
    if want.get("wash"):
        nw = sum(1 for rec in new if rec == want["wash"])
        if nw != n["A"]:
            return f"{head} :: {nw} records {want['wash']!r} for {n['A']} aspirations"
    return None


def check_hl(c, replay=False):
    device, maxv, diti = c["device"], c.get("max_volume", 950), c.get("diti", False)
    wl = DEVICES[device](max_volume=maxv, diti_mode=diti)
    lws = [make_labware(d) for d in c["labware"]]
    for i, op in enumerate(c["ops"]):
        kind = op["op"]
        before = list(wl)
        kw = op.get("kw", {})
        label = op.get("label")
        head = f"{device} {kind}({json.dumps({k: v for k, v in op.items() if k != 'op'})[:260]})"
        live_kw = {k: dec(v) for k, v in kw.items()}
        exc = None
        if kind in ("aspirate", "dispense"):
            d = c["labware"][op["lw"]]
            wells, vols = flat(op["wells"]), flat(op["volumes"])
            wells, vols = broadcast(len(wells), wells, vols)
            vnum = [num(v)["val"] for v in vols]
            cls, expkw = kw_classes(kw)
            cls = worst(cls + [text_class(d["name"], True, True)])
            if not any(v > 0 for v in vnum):
                cls = "ok"
            per = {}
            for w, v in zip(wells, vnum):
                per.setdefault(own_position(device, d, w), []).append(v)
            t = "A" if kind == "aspirate" else "D"
            want = {t: (d["name"], per), "kw": expkw, "max": maxv}
            try:
                getattr(wl, kind)(lws[op["lw"]], dec(op["wells"]), dec(op["volumes"]), label=label, **live_kw)
            except Exception as e:  # noqa
                exc = e
            others = ()
        elif kind == "transfer":
            s, d = c["labware"][op["src"]], c["labware"][op["dst"]]
            sw, dw, vols = flat(op["src_wells"]), flat(op["dst_wells"]), flat(op["volumes"])
            nmax = max(len(sw), len(dw), len(vols))
            sw, dw, vols = broadcast(nmax, sw, dw, vols)
            vnum = [num(v)["val"] for v in vols]
            cls, expkw = kw_classes(kw)
            cls = worst(cls)
            if not any(v > 0 for v in vnum):
                cls = "ok"
            pa, pd = {}, {}
            for a_, b_, v in zip(sw, dw, vnum):
                pa.setdefault(own_position(device, s, a_), []).append(v)
                pd.setdefault(own_position(device, d, b_), []).append(v)
            ws = op.get("wash_scheme", 1)
            wash = {"flush": "F;", "reuse": None}.get(ws, "W;" if diti else f"W{ws};")
            want = {"A": (s["name"], pa), "D": (d["name"], pd), "kw": expkw, "max": maxv, "wash": wash}
            others = (wash[:-1],) if wash else ()
            try:
                wl.transfer(lws[op["src"]], dec(op["src_wells"]), lws[op["dst"]], dec(op["dst_wells"]), dec(op["volumes"]),
                            label=label, wash_scheme=ws, partition_by=op.get("partition_by", "auto"), **live_kw)
            except Exception as e:  # noqa
                exc = e
        elif kind == "distribute":
            s, d = c["labware"][op["src"]], c["labware"][op["dst"]]
            dw = flat(op["dst_wells"])
            posd = sorted(own_position(device, d, w) for w in dw)
            a = {"src_rack_label": s["name"], "src_start": 1 + s["rows"] * op["column"], "src_end": s["rows"] * (op["column"] + 1),
                 "dst_rack_label": d["name"], "dst_start": posd[0], "dst_end": posd[-1], "volume": op["volume"],
                 "exclude_wells": sorted(set(range(posd[0], posd[-1] + 1)) - set(posd))}
            a.update(kw)
            cls, exp = oracle_rd(a, maxv)
            if exp and device == "fluent":  # known finding C01: source range of FluentWorklist.distribute
                del exp[0]["src_start"], exp[0]["src_end"]
            try:
                wl.distribute(lws[op["src"]], op["column"], lws[op["dst"]], dec(op["dst_wells"]), volume=dec(op["volume"]),
                              **({"label": label} if label is not None else {}), **live_kw)
            except Exception as e:  # noqa
                exc = e
            after = list(wl)
            new = after[len(before):]
            if exc is None and cls in ("ok", "either") and label:
                lines = label_lines(label)
                if [my_trim(r[2:]) for r in new[:len(lines)] if r.startswith("C;")] != lines:
                    return f"{head} :: comment records {new[:len(lines)]!r} for label {label!r}", i
                before = after[:len(before) + len(lines)]
            if exc is not None and label and not any(r[:2] in ("A;", "D;", "R;") for r in new):
                after = after[:len(before)]
            p = judge(head, cls, exp, exc, before, after)
            if p:
                return p, i
            continue
        else:
            raise ValueError(kind)
        after = list(wl)
        if after[:len(before)] != before:
            return f"{head} :: records that existed before the call were changed", i
        new = after[len(before):]
        if exc is not None:
            if (new and not label) or any(r[:2] in ("A;", "D;", "R;") for r in new):
                return f"{head} :: raised {type(exc).__name__} but appended {new[:3]!r}", i
            if cls == "ok":
                return f"{head} :: representable call refused: {type(exc).__name__}: {str(exc)[:120]}", i
            continue
        if cls == "raise":
            return f"{head} :: keyword arguments cannot be represented but the call returned and appended {new[:3]!r}", i
        if cls == "unchecked":
            continue
        p = check_hl_records(head, new, want, label, others)
        if p:
            return p, i
    if replay or zlib.crc32(json.dumps(c, sort_keys=True).encode()) % 8 == 0:
        p = check_saved(wl)
        if p:
            return p, len(c["ops"]) - 1
    return None, None


def run_case(c, replay=False):
    try:
        p, i = (check_seq if c["kind"] == "seq" else check_hl)(c, replay)
        if p and " :: " in p:  # observation first, the call after it
            head, msg = p.split(" :: ", 1)
            p = f"{msg}  <-  {head}"
        return p, i
    except Exception as e:  # noqa  (the oracle itself could not cope: report, never hide)
        return f"{c['kind']} case: oracle could not interpret the run: {type(e).__name__}: {e}", None


# ------------------------------------------------------------------ case construction helpers
def TIP(n):
    return {"$": "tip", "v": f"T{n}"}


ANY = {"$": "tip", "v": "Any"}


def NP(dtype, v):
    return {"$": "np", "dtype": dtype, "v": v}


def seq(calls, **opt):
    d = {"kind": "seq", "calls": calls}
    d.update(opt)
    return d


def call(m, **a):
    return {"m": m, "a": a}


NAN, INF = float("nan"), float("inf")
AD_BASE = {"rack_label": "Lab", "position": 5, "volume": 12.5, "liquid_class": "LC", "tip": TIP(3), "rack_id": "RID",
           "tube_id": "TID", "rack_type": "RTY", "forced_rack_type": "FRT"}
RD_BASE = {"src_rack_label": "Src", "src_start": 2, "src_end": 9, "dst_rack_label": "Dst", "dst_start": 3, "dst_end": 96, "volume": 50,
           "diti_reuse": 2, "multi_disp": 3, "exclude_wells": [11, 5], "liquid_class": "LC", "direction": "right_to_left",
           "src_rack_id": "SI", "src_rack_type": "ST", "dst_rack_id": "DI", "dst_rack_type": "DT"}
AD_TEXTS = ["rack_label", "liquid_class", "rack_id", "tube_id", "rack_type", "forced_rack_type"]
RD_TEXTS = ["src_rack_label", "dst_rack_label", "liquid_class", "src_rack_id", "src_rack_type", "dst_rack_id", "dst_rack_type"]
TEXT_EDGE = ["", "x", "B", "PlateB", "Water_B", "a b", " lead", "trail ", "x" * 31, "y" * 32, "z" * 33, "w" * 40, ";", "a;b", ";a", "a;",
             "a;;b", "x" * 31 + ";", ";" + "x" * 31, "x" * 32 + ";", None, 5, "\xff\xa0\xe9", "A;1", "0", "1.00", "-1", "None", ",", "\\", '"q"']
POS_EDGE = [0, 1, 2, 9, 10, 96, 384, 1536, 2**31 - 1, 2**31, 2**63 - 1, 2**63, 2**64, 10**30, -1, -5, -2**63, 1.0, 5.0, 1.5, -1.0, 0.0, NAN, INF, -INF,
            None, True, False, NP("int64", 5), NP("int32", 7), NP("uint8", 200), NP("int64", -3), NP("int64", 0), NP("float64", 3.0),
            NP("float64", 2.5), NP("float32", 4.0), 1e300, 1e-300]
MAXVS = [950, 950.0, 1000, 200.5, 0.5, 33.25, VOL_LIMIT, 1e8, 10**9]


def up(x):
    return math.nextafter(x, math.inf)


def dn(x):
    return math.nextafter(x, -math.inf)


def vol_edges(maxv):
    m = float(maxv)
    vs = [0, 0.0, -0.0, 5e-324, 1e-300, 0.001, 0.004, 0.005, 0.0050001, 0.006, 0.009, 0.01, 0.015, 0.025, 0.994, 0.995, 0.996, 0.999, 1, 1.0, 1.005,
          2.675, 9.995, 9.999, 10, 99.999, 12.345, 12.3449, 0.1, 0.3, 1 / 3, m / 2, m / 3, m - 0.01, m - 0.006, m - 0.005, m - 0.004, dn(m), m, up(m),
          m + 0.004, m + 0.005, m + 0.01, m * 2, VOL_LIMIT - 0.01, dn(float(VOL_LIMIT)), VOL_LIMIT, float(VOL_LIMIT), up(float(VOL_LIMIT)),
          VOL_LIMIT + 0.004, VOL_LIMIT + 0.01, VOL_LIMIT + 1, 1e7, 1e15, 1e300, sys.float_info.max, INF, -INF, NAN, -5e-324, -1e-300, -0.001,
          -0.004, -0.005, -0.01, -1, -1.0, -1e300, 10**400, -10**400, None, True,
          NP("float64", 12.5), NP("float32", 12.345), NP("float32", 0.1), NP("float16", 2.5), NP("int64", 7), NP("int32", 900), NP("uint8", 255),
          NP("float64", NAN), NP("float64", INF), NP("float64", -1.5), NP("float32", -0.0), NP("int64", -2)]
    if maxv == int(maxv) and maxv < 2**53:
        vs += [int(maxv), int(maxv) + 1, int(maxv) - 1]
    return vs


def subsets8():
    for mask in range(1, 256):
        yield [n for n in range(1, 9) if mask >> (n - 1) & 1]


TIP_EDGE = ([n for n in range(-2, 11)] + [TIP(n) for n in range(1, 9)] + [ANY, None, 2.0, 0.5, NAN, True, False, 255, 128, 16, 2**40, -128]
            + [NP("int64", n) for n in (0, 1, 3, 8, 9)] + [NP("float64", 1.0)]
            + [[], [ANY], [1, ANY], [ANY, ANY], [0], [9], [1, 9], [1.0], ["1"], [None], [True], [[1]], [1, 1], [1, TIP(1)], [4, TIP(3)], [TIP(3), 4],
               [TIP(3), TIP(3), 3], [8, TIP(8), TIP(4), 4], [3, 3, 3, 3], {"$": "tuple", "v": []}, {"$": "tuple", "v": [2]}, {"$": "tuple", "v": [TIP(8), 1]},
               {"$": "set", "v": [1, 2, 3]}, {"$": "set", "v": [TIP(2), 2]}, {"$": "gen", "v": [5, TIP(6)]}, {"$": "gen", "v": []}, {"$": "range", "v": [1, 9]},
               {"$": "range", "v": [0, 3]}, {"$": "range", "v": [3, 5]}, {"$": "arr", "dtype": "int64", "v": [1, 2]}, [NP("int64", 2), 1], {"$": "ref", "id": "t", "v": [2, 3]}])


# ------------------------------------------------------------------ systematic enumeration
def gen_enumerated(tier):
    thorough = tier != "quick"
    chars = PRINTABLE if thorough else PRINTABLE[::3] + [";", "B", " ", "\xa0", "\xff"]
    for m in ("aspirate_well", "dispense_well"):
        P = f"{m}: one argument swept over its edge values, the others fixed and pairwise different"
        yield P, seq([call(m, rack_label="L", position=1, volume=1)])
        yield P, seq([call(m, **AD_BASE)])
        for fld in AD_TEXTS:
            for v in TEXT_EDGE:
                yield P, seq([call(m, **dict(AD_BASE, **{fld: v}))])
                yield P, seq([call(m, **dict({"rack_label": "L", "position": 1, "volume": 1}, **{fld: v}))])
            for ch in chars:
                yield P, seq([call(m, **dict(AD_BASE, **{fld: f"a{ch}b"}))])
                yield P, seq([call(m, **dict(AD_BASE, **{fld: ch}))])
            for n in range(28, 41):
                yield P, seq([call(m, **dict(AD_BASE, **{fld: "n" * n}))])
            for a in AD_TEXTS:  # two text fields at once: one at its limit, one with a separator
                if a != fld:
                    yield P, seq([call(m, **dict(AD_BASE, **{fld: "q" * 32, a: "s;t"}))])
                    yield P, seq([call(m, **dict(AD_BASE, **{fld: "q" * 32, a: "r" * 32}))])
        for v in POS_EDGE:
            yield P, seq([call(m, **dict(AD_BASE, position=v))])
        for v in list(range(0, 40)) + [10**k for k in range(2, 25)]:
            yield P, seq([call(m, **dict(AD_BASE, position=v))])
        for maxv in MAXVS:
            for v in vol_edges(maxv):
                for dev in ("base", "evo", "fluent") if maxv == 950 else ("base",):
                    yield P, seq([call(m, **dict(AD_BASE, volume=v))], max_volume=maxv, device=dev)
        for k in range(0, 300 if thorough else 60):  # every half-cent boundary k + 0.005 and its neighbours
            for v in (k + 0.005, dn(k + 0.005), up(k + 0.005), k + 0.004999, k + 0.995):
                yield P, seq([call(m, **dict(AD_BASE, volume=v))], max_volume=1000)
        P = f"{m}: tip selections (every tip, every subset of tips, int / Tip / numpy, containers, repeats) and call sequences on one worklist"
        for v in TIP_EDGE:
            yield P, seq([call(m, **dict(AD_BASE, tip=v))])
        for sub in subsets8():
            yield P, seq([call(m, **dict(AD_BASE, tip=sub))])
            yield P, seq([call(m, **dict(AD_BASE, tip=[TIP(n) for n in sub])), call(m, **dict(AD_BASE, tip={"$": "tuple", "v": list(reversed(sub))}))])
        for n in range(1, 9):  # equal-comparing arguments one after another: int n is tip n, Tip member with value n is another tip
            others = [TIP(k) for k in range(1, 9)] + list(range(1, 9))
            for o in others:
                yield P, seq([call(m, **dict(AD_BASE, tip=n)), call(m, **dict(AD_BASE, tip=o)), call(m, **dict(AD_BASE, tip=n)),
                              call(m, **dict(AD_BASE, tip=[n])), call(m, **dict(AD_BASE, tip=[o]))])
        yield P, seq([call(m, **dict(AD_BASE, tip={"$": "ref", "id": "t", "v": [1, 2]})), call(m, **dict(AD_BASE, tip={"$": "ref", "id": "t", "v": [3]})),
                      call(m, **dict(AD_BASE, tip={"$": "ref", "id": "t", "v": [TIP(3), 8, 8]})), call(m, **dict(AD_BASE, tip={"$": "ref", "id": "t", "v": [ANY]})),
                      call(m, **dict(AD_BASE, tip={"$": "ref", "id": "t", "v": [1, 2]}))])
    # alternating A / D with all fields different between the two calls
    other = {"rack_label": "Two", "position": 17, "volume": 0.75, "liquid_class": "lc2", "tip": [1, 8], "rack_id": "rid2", "tube_id": "tid2",
             "rack_type": "rty2", "forced_rack_type": "frt2"}
    P = "aspirate_well / dispense_well alternating on one worklist, rejected calls in between"
    for bad in [{"rack_label": "a;b"}, {"volume": NAN}, {"position": -1}, {"tip": 0}, {"tube_id": ";"}, {"volume": 951}, {"rack_id": "i" * 33}]:
        yield P, seq([call("aspirate_well", **AD_BASE), call("dispense_well", **dict(other, **bad)), call("dispense_well", **other),
                      call("aspirate_well", **dict(AD_BASE, **bad)), call("aspirate_well", **other), call("dispense_well", **AD_BASE)])

    P = "reagent_distribution: one argument swept over its edge values, the others fixed and pairwise different"
    yield P, seq([call("reagent_distribution", src_rack_label="S", src_start=1, src_end=8, dst_rack_label="D", dst_start=1, dst_end=96, volume=50)])
    yield P, seq([call("reagent_distribution", **RD_BASE)])
    for fld in RD_TEXTS:
        for v in TEXT_EDGE:
            yield P, seq([call("reagent_distribution", **dict(RD_BASE, **{fld: v}))])
        for ch in chars:
            yield P, seq([call("reagent_distribution", **dict(RD_BASE, **{fld: f"a{ch}b"}))])
        for n in range(28, 41):
            yield P, seq([call("reagent_distribution", **dict(RD_BASE, **{fld: "n" * n}))])
    for fld in ("src_start", "src_end", "dst_start", "dst_end"):
        for v in POS_EDGE + list(range(0, 30)) + [10**k for k in range(2, 20)]:
            yield P, seq([call("reagent_distribution", **dict(RD_BASE, exclude_wells=None, **{fld: v}))])
            yield P, seq([call("reagent_distribution", **dict(RD_BASE, exclude_wells=[], **{fld: v}))])
    for d in ["left_to_right", "right_to_left", "", "LEFT_TO_RIGHT", "left_to_right ", " right_to_left", "left to right", "up_down", "ltr", None, 0, 1,
              True, "0", "1", "left_to_right;1", ["left_to_right"]]:
        yield P, seq([call("reagent_distribution", **dict(RD_BASE, direction=d))])
    for n in list(range(1, 14)) + [96, 384, 10**6, NP("int64", 4), NP("int32", 12), NP("uint8", 7)]:
        yield P, seq([call("reagent_distribution", **dict(RD_BASE, diti_reuse=n, volume=0.5))])
        yield P, seq([call("reagent_distribution", **dict(RD_BASE, multi_disp=n, volume=0.5))])
    for n in [0, -1, -3, 1.5, 2.0, 1.0, None, True, False, NAN, INF, "a;b", "2", "", [2], -10**30, 10**30, NP("int64", 0), NP("int64", -1), NP("float64", 2.0),
              NP("float32", 1.5), NP("uint8", 0)]:
        yield P, seq([call("reagent_distribution", **dict(RD_BASE, diti_reuse=n))])
        yield P, seq([call("reagent_distribution", **dict(RD_BASE, multi_disp=n))])
    for maxv in MAXVS:
        for v in vol_edges(maxv):
            yield P, seq([call("reagent_distribution", **dict(RD_BASE, volume=v, multi_disp=1))], max_volume=maxv)

    P = "reagent_distribution: multi-dispense count against max_volume (ints, floats, numpy; exact and near-exact multiples)"
    for maxv in [950, 950.0, 1000, 200.5, 0.5, 0.3, 33.25, 7]:
        m_ = float(maxv)
        vols = {m_, m_ / 2, m_ / 3, m_ / 4, m_ / 7, m_ / 2.5, m_ / 1.5, m_ * 0.4, m_ * 0.6, m_ * 0.51, m_ * 0.49, m_ * 0.34, m_ * 0.26, dn(m_ / 2), up(m_ / 2),
                dn(m_), m_ * 0.1, 0.1, 0.3, 1.0, 400.0, 316.67, 475.0, 100.0}
        ivols = {1, 2, 3, 7, 50, 100, 200, 316, 317, 400, 474, 475, 476, 950}
        for v in sorted(vols) + sorted(ivols):
            if v > m_:
                continue
            for md in range(1, 13 if thorough else 8):
                yield P, seq([call("reagent_distribution", **dict(RD_BASE, volume=v, multi_disp=md))], max_volume=maxv)
            yield P, seq([call("reagent_distribution", **dict(RD_BASE, volume=NP("float64", float(v)), multi_disp=NP("int64", 6)))], max_volume=maxv)
            yield P, seq([call("reagent_distribution", **dict(RD_BASE, volume=v, multi_disp=10**6))], max_volume=maxv)

    P = "reagent_distribution: excluded wells (every boundary of the destination range, digit-count boundaries, order, containers, repeats)"
    rb = dict(RD_BASE)
    for lo, hi in [(1, 12), (5, 16), (8, 11), (95, 101), (1, 96), (990, 1010), (0, 3), (7, 7), (10, 9), (1, 1536)]:
        pts = sorted({lo - 1, lo, lo + 1, hi - 1, hi, hi + 1, 9, 10, 11, 99, 100, 101, 999, 1000})
        pts = [p for p in pts if lo - 1 <= p <= hi + 1]
        for e in pts:
            yield P, seq([call("reagent_distribution", **dict(rb, dst_start=lo, dst_end=hi, exclude_wells=[e]))])
        for e in pts:
            for f_ in pts:
                if e != f_:
                    yield P, seq([call("reagent_distribution", **dict(rb, dst_start=lo, dst_end=hi, exclude_wells=[e, f_]))])
        inside = [p for p in pts if lo <= p <= hi]
        if len(inside) >= 3:
            for kind in ("list", "tuple", "set", "gen", "arr", "ref"):
                for order in (inside, inside[::-1], inside[1::2] + inside[::2]):
                    v = list(order) if kind == "list" else {"$": kind, "v": list(order)}
                    if kind == "arr":
                        v["dtype"] = "int64"
                    if kind == "ref":
                        v["id"] = "e"
                    yield P, seq([call("reagent_distribution", **dict(rb, dst_start=lo, dst_end=hi, exclude_wells=v))])
            yield P, seq([call("reagent_distribution", **dict(rb, dst_start=lo, dst_end=hi, exclude_wells={"$": "range", "v": [lo, hi + 1]}))])
            yield P, seq([call("reagent_distribution", **dict(rb, dst_start=lo, dst_end=hi, exclude_wells={"$": "range", "v": [lo, hi + 2]}))])
            yield P, seq([call("reagent_distribution", **dict(rb, dst_start=lo, dst_end=hi, exclude_wells=[inside[0], inside[0], inside[-1]]))])
            yield P, seq([call("reagent_distribution", **dict(rb, dst_start=NP("int64", lo), dst_end=NP("int32", hi), exclude_wells=[NP("int64", inside[1]), inside[0]]))])
    for ex in [[8, 9, 10], [10, 9, 8], [9, 10, 11], [99, 100, 101], [101, 100, 99], [5, 12, 30], [30, 12, 5], [95, 100, 101], [999, 1000], [1000, 999],
               [1, 10, 100, 1000], [1000, 100, 10, 1], [2, 10], [10, 2], [19, 2, 100], [3.5], [3.0, 2], [NAN], [None], ["5"], [True], [-1], [0], [1537],
               [2, INF], 5, "5", None, [], [NP("float64", 4.0)], [NP("int64", 10), NP("int64", 9)], [[3]], ["a;b"], [2, 3.0], [3.0], [1536.0], [2, "3"], [2, None],
               [NP("float32", 7.0), 7], [False], [1, 2.0, 3], {"$": "tuple", "v": [4.0]}, {"$": "set", "v": [4.0, 5]}, {"$": "gen", "v": [9, 10.0]}]:
        yield P, seq([call("reagent_distribution", **dict(rb, dst_start=1, dst_end=1536, exclude_wells=ex))])
    for a in range(1, 13):  # every pair in 1..12 in both orders
        for b in range(1, 13):
            if a != b:
                yield P, seq([call("reagent_distribution", **dict(rb, dst_start=1, dst_end=12, exclude_wells=[a, b]))])
    yield P, seq([call("reagent_distribution", **dict(rb, dst_start=1, dst_end=200, exclude_wells={"$": "ref", "id": "e", "v": [100, 20, 3]})),
                  call("reagent_distribution", **dict(rb, dst_start=1, dst_end=200, exclude_wells={"$": "ref", "id": "e", "v": [7]})),
                  call("reagent_distribution", **dict(rb, dst_start=1, dst_end=200, exclude_wells={"$": "ref", "id": "e", "v": [201]})),
                  call("reagent_distribution", **dict(rb, dst_start=1, dst_end=200, exclude_wells={"$": "ref", "id": "e", "v": [10, 9]}))])

    P = "wash / decontaminate / flush / commit: every scheme value, both tip modes"
    schemes = list(range(-2, 8)) + [1.0, 2.0, 4.0, 1.5, 0.999, 4.0000001, NAN, INF, -1.0, None, True, False, "1", "W1", [1], 10**20, NP("int64", 2), NP("int64", 5),
                                    NP("int32", 4), NP("uint8", 3), NP("float64", 3.0), NP("float64", 3.5), NP("float32", 1.0)]
    for diti in (False, True):
        for dev in ("base", "evo", "fluent"):
            for s in schemes:
                yield P, seq([call("wash", scheme=s)], diti=diti, device=dev)
            yield P, seq([call("wash"), call("decontaminate"), call("flush"), call("commit"), call("wash", scheme=2), call("decontaminate"), call("wash", scheme=9),
                          call("commit"), call("flush"), call("wash", scheme=4)], diti=diti, device=dev)
            yield P, seq([call("wash", scheme=1), call("wash", scheme=1.0), call("wash", scheme=True), call("wash", scheme=NP("int64", 1)), call("wash", scheme=2),
                          call("wash", scheme=2.0), call("wash", scheme=1)], diti=diti, device=dev)

    P = "set_diti: at the start, directly after a break, after every other record type (also records whose text contains 'B' or ends with 'B')"
    prevs = [[], [call("commit")], [call("commit"), call("commit")], [call("flush")], [call("wash")], [call("wash", scheme=4)], [call("decontaminate")],
             [call("comment", comment="B")], [call("comment", comment="xB")], [call("comment", comment="B\nB")], [call("comment", comment="Break")],
             [call("set_diti", diti_index=2)], [call("commit"), call("set_diti", diti_index=2)], [call("commit"), call("comment", comment="note")],
             [call("commit"), call("comment", comment="")], [call("commit"), call("comment", comment=" \n ")], [call("commit"), call("flush")],
             [call("commit"), call("wash", scheme=7)], [call("commit"), call("aspirate_well", **dict(AD_BASE, rack_label="a;b"))],
             [call("flush"), call("commit")], [call("aspirate_well", **AD_BASE), call("commit")],
             [{"m": "$append", "a": {"rec": "B;"}}], [call("commit"), {"m": "$pop"}], [call("flush"), {"m": "$clear"}], [call("commit"), {"m": "$clear"}],
             [call("flush"), {"m": "$pop"}], [call("commit"), call("flush"), {"m": "$pop"}], [{"m": "$append", "a": {"rec": "C;B"}}]]
    for m in ("aspirate_well", "dispense_well"):
        for fld in AD_TEXTS:
            for v in ("B", "PlateB", "Water_B", "xBx", "b"):
                prevs.append([call(m, **dict(AD_BASE, **{fld: v}))])
        prevs.append([call(m, rack_label="B", position=1, volume=1)])
        prevs.append([call(m, **{k: ("B" if k in AD_TEXTS else v) for k, v in AD_BASE.items()})])
    for fld in RD_TEXTS:
        for v in ("B", "StockB"):
            prevs.append([call("reagent_distribution", **dict(RD_BASE, **{fld: v}))])
    prevs.append([call("reagent_distribution", **RD_BASE)])
    for prev in prevs:
        for idx in [1, 2, 7, 10**6, NP("int64", 3)] + ([0, -1, 2.5, 1.0, 0.0, None, True, "1", "1;2", "a;b", "", NAN, INF, -2**40, 10**30, [1], NP("int64", 0),
                                                         NP("int64", -2), NP("uint8", 9), NP("float64", 1.0)] if len(prev) <= 1 else [0, -1, 2.0, "1;2"]):
            for diti in (False, True):
                yield P, seq(prev + [call("set_diti", diti_index=idx), call("set_diti", diti_index=1), call("commit"), call("set_diti", diti_index=idx)], diti=diti)

    P = "comment: single- and multi-line texts, separators on every line, blank lines, every printable character"
    lines = ["step 1", "B", "  padded  ", "", " ", "x" * 40, "x" * 200, "\xa0nbsp\xa0", "tab\there", "A;1;2", "1.00"]
    for c in [None, "", " ", "\n", "\n\n", "a", "a\nb", "a\n\nb", " a \n b ", "a\r\nb\r\n", "a\n", "\na", "a;b", ";", "a\nb;c", "a\n;", ";\na", "a\nb\nc;d", "\n;", "\n\n;",
              " ;", "a\n \n;b", "C;x", "a;\nb", "a\nb\nc\nd\ne\nf\ng\nh\ni\nj", 0, 5, False]:
        yield P, seq([call("comment", comment=c)])
        yield P, seq([call("flush"), call("comment", comment=c), call("comment", comment="after"), call("comment", comment=c)], device="evo")
    for n in range(1, 5):  # separator on line k of n, clean lines around it
        for k in range(n):
            for bad in (";", "x;y", "end;", ";start"):
                ls = [f"line {i}" for i in range(n)]
                ls[k] = bad
                yield P, seq([call("commit"), call("comment", comment="\n".join(ls)), call("comment", comment="\n".join(f"line {i}" for i in range(n)))])
    for a in lines:
        yield P, seq([call("comment", comment=a)])
        for b in lines:
            yield P, seq([call("comment", comment=a + "\n" + b)])
    for ch in chars:
        yield P, seq([call("comment", comment=f"a{ch}b"), call("comment", comment=ch), call("comment", comment=f"{ch}\n{ch}{ch}")])

    yield from gen_hl_enumerated(thorough)


KW_BASE = {"liquid_class": "LC", "tip": [1, TIP(3)], "rack_id": "RID", "tube_id": "TID", "rack_type": "RTY", "forced_rack_type": "FRT"}
KW_BAD = [{"liquid_class": "a;b"}, {"rack_id": "i" * 33}, {"rack_id": ";"}, {"tube_id": "t;"}, {"rack_type": "r" * 33}, {"rack_type": "a;b"},
          {"forced_rack_type": "f" * 33}, {"forced_rack_type": ";x"}, {"tip": 0}, {"tip": 9}, {"tip": [1, ANY]}, {"tip": 1.5}, {"liquid_class": 5}]
KW_GOOD = [{}, {"liquid_class": "Water_B"}, {"tip": 4}, {"tip": TIP(3)}, {"tip": [4]}, {"tip": [TIP(3)]}, {"tip": ANY}, {"tip": list(range(1, 9))},
           {"rack_id": "i" * 32, "rack_type": "r" * 32, "forced_rack_type": "f" * 32}, {"tube_id": "t" * 32, "liquid_class": "l" * 32},
           {"liquid_class": "", "rack_id": "", "tube_id": "", "rack_type": "", "forced_rack_type": ""}, {"tip": {"$": "tuple", "v": [8, TIP(1)]}}]


def plate(name, rows, cols):
    return {"name": name, "rows": rows, "cols": cols}


def trough(name, vrows, cols):
    return {"name": name, "rows": vrows, "cols": cols, "trough": True}


def grid(d, r0=0, c0=0, r1=None, c1=None):
    r1 = d["rows"] if r1 is None else r1
    c1 = d["cols"] if c1 is None else c1
    return [[well_id(r, c) for c in range(c0, c1)] for r in range(r0, r1)]


def forms(block):
    """the same wells as 2-D list, C-ordered / F-ordered / transposed-view numpy array, flat list and tuple"""
    yield block
    yield {"$": "arr", "v": block, "order": "C"}
    yield {"$": "arr", "v": block, "order": "F"}
    yield {"$": "arr", "v": block, "order": "T"}
    yield [w for row in block for w in row]


def hl(device, labware, ops, **opt):
    d = {"kind": "hl", "device": device, "labware": labware, "ops": ops}
    d.update(opt)
    return d


def gen_hl_enumerated(thorough):
    shapes = [(r, c) for r in range(1, 5) for c in range(1, 5)] + [(8, 12), (6, 8), (2, 13), (16, 24) if thorough else (8, 3), (26, 1), (1, 24)]
    for device in ("evo", "fluent"):
        P = f"{device}: aspirate / dispense keyword pass-through on every plate geometry (2-D lists, C/F/transposed arrays, scalar and per-well volumes)"
        for R, C in shapes:
            d = plate(f"P{R}x{C}", R, C)
            full = grid(d)
            for i, w in enumerate(forms(full)):
                op = "aspirate" if i % 2 == 0 else "dispense"
                yield P, hl(device, [d], [{"op": op, "lw": 0, "wells": w, "volumes": 1.5, "kw": KW_BASE}])
            pv = [[round(0.25 + 1.01 * (r * C + c), 2) for c in range(C)] for r in range(R)]  # a different volume per well (2-D, same shape)
            yield P, hl(device, [d], [{"op": "aspirate", "lw": 0, "wells": full, "volumes": pv, "kw": KW_BASE, "label": "per well"},
                                      {"op": "dispense", "lw": 0, "wells": {"$": "arr", "v": full, "order": "T"}, "volumes": {"$": "arr", "v": pv, "order": "F"}, "kw": {"tip": 4}},
                                      {"op": "dispense", "lw": 0, "wells": full[-1][-1], "volumes": 2, "kw": {"tip": TIP(3)}},
                                      {"op": "aspirate", "lw": 0, "wells": full[0], "volumes": [0] * C, "kw": {"liquid_class": "a;b"}},
                                      {"op": "aspirate", "lw": 0, "wells": [full[0][0], full[-1][-1], full[0][0]], "volumes": [1, 0, 2.5], "kw": {}}])
        P = f"{device}: troughs and several labware with equal well ids but different geometry on one worklist; transfer and distribute pass-through"
        for vr, tc in [(1, 1), (2, 2), (4, 2), (8, 3), (8, 1), (3, 4)]:
            for R, C in [(2, 3), (3, 2), (4, 6), (8, 12)]:
                lw = [plate("PlateB", R, C), plate("Q", C, R), trough("T", vr, tc), plate("B", R, C)]
                common = [w for w in ("A01", "B01", "A02", "B02") if LETTERS.index(w[0]) < min(R, C) and int(w[1:]) <= min(R, C)]
                tw = [well_id(r, c) for c in range(tc) for r in range(vr)][: len(common)]
                tw = tw if len(tw) == len(common) else tw[:1]
                ops = [{"op": "aspirate", "lw": 0, "wells": common, "volumes": 3, "kw": KW_BASE},
                       {"op": "aspirate", "lw": 1, "wells": common, "volumes": 3, "kw": KW_BASE},
                       {"op": "dispense", "lw": 3, "wells": common, "volumes": 3, "kw": {"tip": 4}},
                       {"op": "aspirate", "lw": 2, "wells": tw, "volumes": 2, "kw": {"tip": TIP(3)}},
                       {"op": "transfer", "src": 0, "src_wells": common, "dst": 1, "dst_wells": common[::-1], "volumes": [5.5 + i for i in range(len(common))], "kw": KW_BASE, "wash_scheme": 2},
                       {"op": "transfer", "src": 2, "src_wells": tw, "dst": 0, "dst_wells": common, "volumes": 7, "kw": {"liquid_class": "Water_B"}, "wash_scheme": "reuse", "label": "from trough"},
                       {"op": "distribute", "src": 2, "column": tc - 1, "dst": 0, "dst_wells": [common[0], common[-1]], "volume": 20.5,
                        "kw": {"liquid_class": "LC", "multi_disp": 4, "diti_reuse": 2, "direction": "right_to_left", "src_rack_id": "SI", "src_rack_type": "ST", "dst_rack_id": "DI", "dst_rack_type": "DT"}},
                       {"op": "distribute", "src": 2, "column": 0, "dst": 1, "dst_wells": grid(lw[1]), "volume": 400.0, "kw": {"multi_disp": 6}, "label": "all of Q"}]
                yield P, hl(device, lw, ops)
                yield P, hl(device, lw, ops[::-1], diti=True, max_volume=1000)
        P = f"{device}: unrepresentable / boundary keyword arguments through aspirate, dispense, transfer, distribute"
        lw = [plate("Src", 4, 6), plate("Dst", 8, 12), trough("Tr", 8, 2), plate("n" * 32, 2, 2), plate("n" * 33, 2, 2), plate("a;b", 2, 2)]
        for kw in KW_BAD + KW_GOOD:
            for label in (None, "lab"):
                yield P, hl(device, lw, [{"op": "aspirate", "lw": 0, "wells": ["A01", "B02"], "volumes": [1, 2], "kw": kw, "label": label}])
                yield P, hl(device, lw, [{"op": "dispense", "lw": 1, "wells": [["A01", "A12"], ["H01", "H12"]], "volumes": 9.99, "kw": kw, "label": label}])
                yield P, hl(device, lw, [{"op": "transfer", "src": 0, "src_wells": ["A01", "D06"], "dst": 1, "dst_wells": ["H12", "A01"], "volumes": [10, 20.25], "kw": kw, "label": label},
                                         {"op": "transfer", "src": 2, "src_wells": ["A02", "H02"], "dst": 0, "dst_wells": ["A01", "B01"], "volumes": 1900.5, "kw": kw, "wash_scheme": "flush"}])
        for n in (3, 4, 5):
            yield P, hl(device, lw, [{"op": "aspirate", "lw": n, "wells": "A01", "volumes": 1, "kw": KW_BASE}, {"op": "dispense", "lw": n, "wells": ["A01", "B02"], "volumes": 0, "kw": {}}])
        for kw in [{"liquid_class": "a;b"}, {"direction": "up"}, {"src_rack_id": "i" * 33}, {"src_rack_type": ";"}, {"dst_rack_id": "a;"}, {"dst_rack_type": "d" * 33},
                   {"liquid_class": "l" * 32, "src_rack_id": "i" * 32, "src_rack_type": "t" * 32, "dst_rack_id": "j" * 32, "dst_rack_type": "u" * 32}, {"multi_disp": 12}, {"diti_reuse": 5}, {}]:
            for wells in (["A01"], ["A01", "H12"], ["B01", "B02", "B12"], [well_id(r, c) for c in range(12) for r in range(8) if (r + c) % 3], grid(lw[1], 0, 0, 8, 2)):
                for vol in (50, 316.67, 950, 951):
                    yield P, hl(device, lw, [{"op": "distribute", "src": 2, "column": 1, "dst": 1, "dst_wells": wells, "volume": vol, "kw": kw}])
        for ws in (1, 2, 3, 4, "flush", "reuse"):
            for diti in (False, True):
                yield P, hl(device, lw, [{"op": "transfer", "src": 0, "src_wells": grid(lw[0], 0, 0, 2, 2), "dst": 1, "dst_wells": grid(lw[1], 6, 10, 8, 12),
                                          "volumes": [[1, 2000], [0, 950]], "kw": KW_BASE, "wash_scheme": ws}], diti=diti)


# ------------------------------------------------------------------ seeded random cases
def rtext(rng, bad=0.0, limit=True):
    r = rng.random()
    n = rng.choice([0, 1, 1, 2, 3, 5, 8, 13, 21, 30, 31, 32, 32])
    if r < bad * 0.4:
        n = rng.choice([33, 33, 34, 40])
    pool = rng.choice([PRINTABLE, "abcXYZ019 _-.B", "B", PRINTABLE[:95]])
    s = "".join(rng.choice(pool) for _ in range(n)).replace(";", ",")
    if rng.random() < 0.15 and s:
        s = s[:-1] + "B"
    if bad * 0.4 <= r < bad:
        k = rng.randint(0, len(s))
        s = (s[:k] + ";" + s[k:])[: max(1, min(len(s) + 1, 40))]
        if ";" not in s:
            s = s[:-1] + ";"
    return s


def rtip(rng, bad=0.0):
    r = rng.random()
    if r < bad:
        return rng.choice([0, 9, -1, 1.5, None, [0], [1, ANY], [ANY], [1, 9], 256, [2.0]])
    one = lambda: rng.choice([rng.randint(1, 8), TIP(rng.randint(1, 8))])  # noqa: E731
    k = rng.random()
    if k < 0.15:
        return ANY
    if k < 0.45:
        return one()
    els = [one() for _ in range(rng.choice([1, 2, 2, 3, 4, 8, 12]))]
    f = rng.random()
    if f < 0.6:
        return els
    if f < 0.9:
        kind = rng.choice(["tuple", "gen", "ref"])
        return dict({"$": kind, "v": els}, **({"id": "t"} if kind == "ref" else {}))
    return NP("int64", rng.randint(1, 8))


def rvol(rng, maxv, bad=0.0):
    m = float(maxv)
    if rng.random() < bad:
        return rng.choice([NAN, INF, -INF, -0.01, -1, up(m), m + 0.01, m * 2, VOL_LIMIT + 0.01, 1e300, -5e-324, NP("float64", NAN), None])
    k = rng.random()
    top = min(m, VOL_LIMIT)
    if k < 0.3:
        v = round(rng.uniform(0, top), rng.choice([0, 1, 2, 3, 5]))
    elif k < 0.5:
        v = rng.randint(0, int(top)) if top >= 1 else 0
    elif k < 0.7:
        v = rng.randint(0, int(min(top, 10000) * 100)) / 100 + rng.choice([0.005, 0.004999, 0.0050001, 0.0049, 0.0])
    elif k < 0.8:
        v = rng.choice([0, 0.0, top, dn(top), top / 2, top / 3, 0.005, 0.015, 1e-9])
    else:
        v = rng.uniform(0, top)
    if not 0 <= v <= top:
        v = top
    if rng.random() < 0.12 and v == v:
        return NP(rng.choice(["float64", "float32"]), float(v)) if float(numpy.float32(v)) <= top else float(v)
    return v


def rpos(rng, bad=0.0):
    if rng.random() < bad:
        return rng.choice([-1, -7, 1.5, NAN, INF, None, -2**40, 0.25, NP("float64", 0.5), NP("int64", -1)])
    k = rng.random()
    if k < 0.6:
        return rng.randint(1, 400)
    if k < 0.8:
        return rng.choice([1, 9, 10, 96, 99, 100, 384, 1536, 2**31, 2**63, 10**rng.randint(3, 25), 0])
    if k < 0.9:
        return NP(rng.choice(["int64", "int32", "uint16"]), rng.randint(0, 2000))
    return float(rng.randint(0, 50))


def rand_ad(rng, maxv):
    bad = rng.choice([0, 0, 0, 0.08, 0.3])
    a = {"rack_label": rtext(rng, bad), "position": rpos(rng, bad), "volume": rvol(rng, maxv, bad)}
    for k in AD_TEXTS[1:]:
        if rng.random() < 0.75:
            a[k] = rtext(rng, bad)
    if rng.random() < 0.8:
        a["tip"] = rtip(rng, bad)
    if rng.random() < 0.03:
        a[rng.choice(AD_TEXTS[1:])] = None
    return call(rng.choice(["aspirate_well", "dispense_well"]), **a)


def rand_rd(rng, maxv):
    bad = rng.choice([0, 0, 0, 0.08, 0.3])
    a = {"src_rack_label": rtext(rng, bad), "src_start": rpos(rng, bad), "src_end": rpos(rng, bad), "dst_rack_label": rtext(rng, bad),
         "volume": rvol(rng, maxv, bad)}
    lo = rng.choice([1, 1, 2, 8, 9, 90, 95, 990, rng.randint(1, 300)])
    hi = lo + rng.choice([0, 1, 2, 7, 11, 15, 95, 200, rng.randint(0, 400)])
    a["dst_start"], a["dst_end"] = lo, hi
    k = rng.random()
    if k < 0.75:
        n = rng.choice([0, 1, 2, 3, 5, 10])
        ex = [rng.randint(lo, hi) for _ in range(n)] if rng.random() < 0.3 else rng.sample(range(lo, hi + 1), min(n, hi - lo + 1))
        if rng.random() < bad:
            ex.append(rng.choice([lo - 1, hi + 1, 0, -3, lo + 0.5, hi + 100, float(lo), float(hi), None, str(lo), "a;b", NAN, NP("float64", float(lo))]))
            rng.shuffle(ex)
        f = rng.random()
        kind = rng.choice(["tuple", "set", "gen", "ref", "arr"])
        if f < 0.6 or (kind in ("arr", "set") and any(not isinstance(e, int) for e in ex)):
            a["exclude_wells"] = ex
        else:
            a["exclude_wells"] = dict({"$": kind, "v": ex}, **({"id": "e"} if kind == "ref" else {"dtype": "int64"} if kind == "arr" else {}))
    elif k < 0.8:
        a["exclude_wells"] = None
    if rng.random() < bad:  # positions of the destination without exclusions (the range may be huge)
        a.pop("exclude_wells", None)
        a[rng.choice(["dst_start", "dst_end"])] = rpos(rng, 1.0)
    elif rng.random() < 0.1:
        a.pop("exclude_wells", None)
        a["dst_start"], a["dst_end"] = rpos(rng), rpos(rng)
    if rng.random() < 0.8:
        a["multi_disp"] = rng.choice([1, 2, 3, 4, 6, 8, 12, rng.randint(1, 50), NP("int64", rng.randint(1, 12))])
    if rng.random() < 0.6:
        a["diti_reuse"] = rng.choice([1, 2, 3, rng.randint(1, 20), NP("int32", rng.randint(1, 9))])
    if rng.random() < bad:
        a[rng.choice(["multi_disp", "diti_reuse"])] = rng.choice([0, -1, -3, 1.5, 2.0, None, "a;b", "3", NAN, NP("int64", 0), NP("float64", 2.0)])
    if rng.random() < 0.7:
        a["direction"] = rng.choice(["left_to_right", "right_to_left"]) if rng.random() >= bad else rng.choice(["", "left", "RIGHT_TO_LEFT", None, 1, "left_to_right;"])
    for k_ in RD_TEXTS[2:]:
        if rng.random() < 0.7:
            a[k_] = rtext(rng, bad)
    return call("reagent_distribution", **a)


def rand_comment(rng):
    n = rng.choice([1, 1, 1, 2, 2, 3, 5])
    lines = []
    for _ in range(n):
        s = rtext(rng, 0.0)
        if rng.random() < 0.2:
            s = rng.choice(["", " ", "  " + s, s + "  ", "\xa0" + s, s + "\r"])
        lines.append(s)
    if rng.random() < 0.25:
        k = rng.randrange(n)
        p = rng.randint(0, len(lines[k]))
        lines[k] = lines[k][:p] + ";" + lines[k][p:]
    return call("comment", comment="\n".join(lines))


def rand_seq(rng):
    maxv = rng.choice([950, 950, 950.0, 1000, 200.5, 0.5, 33.25, VOL_LIMIT, 1e8, rng.randint(1, 5000), rng.randint(1, 40000) / 8])
    calls = []
    for _ in range(rng.choice([1, 2, 3, 4, 6, 9])):
        k = rng.random()
        if k < 0.34:
            calls.append(rand_ad(rng, maxv))
        elif k < 0.56:
            calls.append(rand_rd(rng, maxv))
        elif k < 0.66:
            calls.append(rand_comment(rng))
        elif k < 0.74:
            calls.append(call("set_diti", diti_index=rng.choice([0, 1, 2, 3, rng.randint(1, 10**6), NP("int64", rng.randint(0, 9)), 1, 2, rng.randint(1, 99),
                                                                 rng.choice([-1, 1.0, 2.5, None, "1", "1;2", NAN, NP("float64", 3.0), NP("int32", -1)])])))
        elif k < 0.82:
            calls.append(call("commit"))
        elif k < 0.88:
            calls.append(call("wash", scheme=rng.choice([1, 2, 3, 4, 4, 0, 5, 2.0, 2.5, None, NP("int64", 3), -1])) if rng.random() < 0.8 else call("wash"))
        elif k < 0.92:
            calls.append(call("flush"))
        elif k < 0.96:
            calls.append(call("decontaminate"))
        else:
            calls.append(rng.choice([{"m": "$clear"}, {"m": "$pop"}, {"m": "$append", "a": {"rec": "B;"}}, {"m": "$append", "a": {"rec": "C;note"}}]))
    return seq(calls, max_volume=maxv, diti=rng.random() < 0.3, device=rng.choice(["base", "evo", "fluent"]))


def rkw(rng, bad):
    kw = {}
    for k in AD_TEXTS[1:]:
        if rng.random() < 0.6:
            kw[k] = rtext(rng, bad)
    if rng.random() < 0.7:
        t = rtip(rng, bad)
        if not (isinstance(t, dict) and t.get("$") in ("gen", "ref")):  # the same object is passed to every well: a generator would be exhausted
            kw["tip"] = t
    return kw


def rand_hl(rng):
    device = rng.choice(["evo", "fluent"])
    maxv = rng.choice([950, 1000, 200.5, 950.0, 4096])
    names = rng.sample(["PlateB", "Q", "B", "Stock_B", "dilution plate", "n" * 32, "x", "Samples", "\xe9chantillons"], 3)
    lw = [plate(names[0], rng.randint(1, 8), rng.randint(1, 12)), plate(names[1], rng.randint(1, 16), rng.randint(1, 24)),
          trough(names[2], rng.randint(1, 8), rng.randint(1, 4))]
    ops = []

    def pick(d, n):
        wells = [well_id(r, c) for r in range(d["rows"]) for c in range(d["cols"])]
        return [rng.choice(wells) for _ in range(n)] if rng.random() < 0.3 else rng.sample(wells, min(n, len(wells)))

    def shape(ws, vs):
        """the same wells / volumes as flat lists, 2-D blocks or arrays"""
        n = len(ws)
        f = rng.random()
        if n >= 2 and n % 2 == 0 and f < 0.4:
            ws2, vs2 = [ws[: n // 2], ws[n // 2:]], [vs[: n // 2], vs[n // 2:]]
            order = rng.choice(["C", "F", "T", None])
            if order:
                return {"$": "arr", "v": ws2, "order": order}, {"$": "arr", "v": vs2, "order": rng.choice(["C", "F", "T"])}
            return ws2, vs2
        if f < 0.6:
            return {"$": "arr", "v": ws}, {"$": "arr", "v": vs}
        if n == 1 and f < 0.8:
            return ws[0], vs[0]
        return ws, vs

    for _ in range(rng.choice([1, 2, 3, 4])):
        bad = rng.choice([0, 0, 0, 0.25])
        kind = rng.choice(["aspirate", "dispense", "transfer", "transfer", "distribute"])
        label = rng.choice([None, None, "step", "two\nlines", ""]) if not bad else None
        vol = lambda: rng.choice([round(rng.uniform(0.01, maxv), rng.choice([0, 1, 2, 3])), rng.randint(1, int(maxv)), 0, maxv, 0.005, 12.345])  # noqa: E731
        if kind in ("aspirate", "dispense"):
            i = rng.randrange(3)
            ws = pick(lw[i], rng.choice([1, 1, 2, 3, 4, 6, 8]))
            vs = [vol() for _ in ws]
            w, v = shape(ws, vs)
            if rng.random() < 0.3:
                v = vol()
            ops.append({"op": kind, "lw": i, "wells": w, "volumes": v, "kw": rkw(rng, bad), "label": label})
        elif kind == "transfer":
            i, j = rng.sample(range(3), 2)
            n = rng.choice([1, 1, 2, 3, 4, 6])
            sw, dw = pick(lw[i], n), pick(lw[j], n)
            n = min(len(sw), len(dw))
            sw, dw = sw[:n], dw[:n]
            big = rng.random() < 0.2
            vs = [vol() if not big else rng.choice([maxv * 2 + 0.5, maxv + 1, maxv * 3.25, 5]) for _ in range(n)]
            s_, v_ = shape(sw, vs)
            d_, _ = (dw, None) if not isinstance(s_, dict) and not (isinstance(s_, list) and s_ and isinstance(s_[0], list)) else ({"$": "arr", "v": [dw[: n // 2], dw[n // 2:]]} if isinstance(s_, dict) and isinstance(s_["v"][0], list) else ([dw[: n // 2], dw[n // 2:]] if isinstance(s_, list) else {"$": "arr", "v": dw}), None)
            if isinstance(s_, str):
                d_ = dw[0]
            ops.append({"op": "transfer", "src": i, "src_wells": s_, "dst": j, "dst_wells": d_, "volumes": v_, "kw": rkw(rng, bad), "label": label,
                        "wash_scheme": rng.choice([1, 2, 3, 4, "flush", "reuse"]), "partition_by": rng.choice(["auto", "source", "destination"])})
        else:
            j = rng.randrange(2)
            ws = sorted(set(pick(lw[j], rng.choice([1, 2, 3, 5, 9, 20]))))
            rng.shuffle(ws)
            v = rng.choice([round(rng.uniform(0.5, maxv), 2), rng.randint(1, int(maxv)), maxv / 2, maxv / 3, float(int(maxv / 2.5)), maxv + 1 if bad else 10])
            kw = {}
            if rng.random() < 0.8:
                kw["multi_disp"] = rng.randint(1, 12)
            if rng.random() < 0.5:
                kw["diti_reuse"] = rng.randint(1, 6)
            if rng.random() < 0.6:
                kw["direction"] = rng.choice(["left_to_right", "right_to_left"]) if rng.random() >= bad else "sideways"
            for k in RD_TEXTS[2:]:
                if rng.random() < 0.5:
                    kw[k] = rtext(rng, bad)
            ops.append({"op": "distribute", "src": 2, "column": rng.randrange(lw[2]["cols"]), "dst": j, "dst_wells": ws if rng.random() < 0.7 else {"$": "arr", "v": ws},
                        "volume": v, "kw": kw, "label": label if label is not None else ""})
    return hl(device, lw, ops, max_volume=maxv, diti=rng.random() < 0.3)


# ------------------------------------------------------------------ driver
def key_of(c):
    return json.dumps(c, sort_keys=True)


def trimmed(c, i):
    if i is None:
        return c
    c = dict(c)
    k = "calls" if c["kind"] == "seq" else "ops"
    c[k] = c[k][: i + 1]
    return c


def main():
    global TMP
    if len(sys.argv) >= 3 and sys.argv[1] == "--replay":
        path = sys.argv[2] if os.path.isabs(sys.argv[2]) or os.path.exists(sys.argv[2]) else os.path.join(VERIF, sys.argv[2])
        with open(path) as fh:
            case = json.load(fh)["bounded_replay"]["case"]
        p, _ = run_case(case, replay=True)
        print(f"replay {PROP} case: {json.dumps(case)}")
        print("observed:", ("VIOLATION " + p) if p else "property holds on this case")
        if TMP:
            shutil.rmtree(TMP, ignore_errors=True)
        sys.exit(1 if p else 0)
    tier = sys.argv[1] if len(sys.argv) > 1 else "quick"
    seed = int(sys.argv[2]) if len(sys.argv) > 2 else 0
    budget = 13 if tier == "quick" else 210
    t0 = time.time()
    rng = random.Random(seed)
    seen, failures, fail_kinds, parts, samples = set(), [], {}, {}, []
    evaluations = ncalls = 0

    def feed(c, part):
        nonlocal evaluations, ncalls
        k = key_of(c)
        if k in seen:
            return
        seen.add(k)
        evaluations += 1
        n = len(c.get("calls", c.get("ops", [])))
        ncalls += n
        d = parts.setdefault(part, [0, 0])
        d[0] += 1
        d[1] += n
        if (len(samples) < 2 and evaluations % 2503 == 7) or (len(samples) < 5 and part.endswith("[random]") and d[0] in (3, 4)):
            samples.append(c)
        p, i = run_case(c)
        if not p:
            return
        step = (c.get("calls") or c.get("ops"))[i if i is not None else -1]
        fk = (c["kind"], step.get("m") or step.get("op"), " ".join(re.sub(r"[0-9.]+|'[^']*'|\"[^\"]*\"", "#", p.split("  <-  ")[0]).split()[:4]))
        fail_kinds[fk] = fail_kinds.get(fk, 0) + 1
        if fail_kinds[fk] > 2 or len(failures) >= 12:
            return
        small = trimmed(c, i)
        short = hashlib.sha1(key_of(small).encode()).hexdigest()[:10]
        rel = os.path.join("replays", PROP, f"bounded_{short}.json")
        os.makedirs(os.path.join(VERIF, "replays", PROP), exist_ok=True)
        with open(os.path.join(VERIF, rel), "w") as fh:
            json.dump({"property": PROP, "bounded_replay": {"script": "c09.py", "case": small}, "what": p}, fh, indent=1)
        failures.append({"what": p[:400], "replay": rel})

    for part, c in gen_enumerated(tier):
        feed(c, part + " [enumerated]")
        if time.time() - t0 > budget * 0.75:
            break
    n = 0
    while time.time() - t0 < budget:
        for _ in range(50):
            n += 1
            if n % 5 == 0:
                feed(rand_hl(rng), "Evo/FluentWorklist aspirate / dispense / transfer / distribute with random geometry, array layout and keyword arguments [random]")
            else:
                feed(rand_seq(rng), "call sequences of 1-9 low-level calls on one worklist, arguments biased to boundaries, 0-30 % unrepresentable [random]")
    if TMP:
        shutil.rmtree(TMP, ignore_errors=True)
    out = {"evaluations": evaluations, "distinct": len(seen), "calls": ncalls,
           "rule": "a case is one worklist (device, max_volume, tip mode) plus a sequence of calls with fully written-out arguments (seq) or labware geometries "
                   "plus high-level operations (hl); systematic sweeps of every argument over its edge values, all 255 tip subsets, exclusion lists at every "
                   "range / digit-count boundary, multi-dispense grid, every record type before set_diti, multi-line comments with a separator on every line, "
                   "every plate geometry up to 4x4 and standard formats in 5 array layouts; then seeded random sequences; distinct = distinct canonical JSON",
           "samples": samples[:5],
           "parts": [{"function": k, "kind": "bounded enumeration" if k.endswith("[enumerated]") else f"bounded seeded random (seed {seed})",
                      "bound": f"{v[1]} calls in {v[0]} cases; texts: printable Latin-1, length 0..40 (comments up to 200, 10 lines); numbers: int / float / numpy incl. NaN, inf, "
                               f"negative, 10**400; positions up to 10**30; max_volume in 0.5 .. 1e9",
                      "evaluations": v[0]} for k, v in parts.items()],
           "failures": failures, "seconds": round(time.time() - t0, 1), "failure_classes": len(fail_kinds)}
    print(json.dumps(out))


if __name__ == "__main__":
    main()
