#!/usr/bin/env python
"""C18 bounded contract monitor: partition_by_column / optimize_partition_by.

Oracles (own code, nothing imported from robotools except the two functions under test and the labware classes):
  P1 multiset of (src, dst, vol) triples of all groups == multiset of the input triples (no triple torn apart)
  P2 every group holds wells of ONE column of the partitioning side; no column is spread over two groups
  P3 groups ordered by ascending (numeric) column, triples inside a group by ascending row letter
  P4 the three lists of a group have equal, non-zero length; an unknown mode with a non-empty input is rejected
  O1 'auto' -> 'destination' iff source is a trough and destination is not, else 'source'
  O2 explicit 'source' / 'destination' is returned unchanged; any other mode is rejected with an exception
"""
import collections
import hashlib
import itertools
import json
import logging
import os
import random
import sys
import time
import warnings

REPO = os.environ.get("PYVC_REPO", "/repo")
sys.path.insert(0, REPO)
import numpy as np  # noqa: E402

from robotools.liquidhandling.labware import Labware, Trough  # noqa: E402
from robotools.worklists.utils import optimize_partition_by, partition_by_column  # noqa: E402

PROP = "C18"
logging.disable(logging.CRITICAL)  # optimize_partition_by logs efficiency hints
VERIF = os.path.dirname(os.path.dirname(os.path.abspath(__file__)))
LETTERS = "ABCDEFGHIJKLMNOPQRSTUVWXYZ"
INVALID_MODES = [None, "", "Auto", "AUTO", "src", "dest", "sources", "destination ", " source", "column", "both",
                 0, 1, True, ["auto"], "auto;source"]
LABSPECS = [
    {"cls": "Labware", "rows": 8, "cols": 12}, {"cls": "Labware", "rows": 1, "cols": 12},
    {"cls": "Labware", "rows": 1, "cols": 1}, {"cls": "Labware", "rows": 16, "cols": 24},
    {"cls": "Trough", "rows": 8, "cols": 1}, {"cls": "Trough", "rows": 1, "cols": 4},
    {"cls": "Trough", "rows": 4, "cols": 12}, {"cls": "LabwareVR", "rows": 8, "cols": 2},
    {"cls": "LabwareVR", "rows": 1, "cols": 1},
]


def wid(r, c):
    return f"{LETTERS[r]}{c:02d}"


# ---------------------------------------------------------------- oracles
def check_part(case):
    """-> None if fine, else a one-line description of the violation"""
    S, D, V, mode = case["s"], case["d"], case["v"], case["mode"]
    conv = {"list": list, "tuple": tuple, "array": np.array}[case.get("as", "list")]
    try:
        out = partition_by_column(conv(S), conv(D), conv(V), mode)
    except Exception as e:  # noqa
        if mode in ("source", "destination"):
            return f"valid call raised {type(e).__name__}: {e}"
        return None
    if mode not in ("source", "destination"):
        return None if len(S) == 0 else f"invalid mode {mode!r} accepted"
    side = 0 if mode == "source" else 1
    got = collections.Counter()
    cols = []
    if not isinstance(out, list):
        return f"result is {type(out).__name__}, not a list"
    for g in out:
        if len(g) != 3 or not (len(g[0]) == len(g[1]) == len(g[2])) or len(g[0]) == 0:
            return f"P4 malformed group {g!r}"
        trip = [(str(a), str(b), float(c)) for a, b, c in zip(*g)]
        got.update(trip)
        gc = {int(t[side][1:]) for t in trip}
        if len(gc) != 1:
            return f"P2 group mixes columns {sorted(gc)}"
        cols.append(gc.pop())
        rows = [t[side][0] for t in trip]
        if rows != sorted(rows):
            return f"P3 rows inside column {cols[-1]} not ascending: {rows}"
    if any(a >= b for a, b in zip(cols, cols[1:])):
        return f"P2/P3 group columns not strictly ascending: {cols}"
    want = collections.Counter((str(a), str(b), float(c)) for a, b, c in zip(S, D, V))
    if got != want:
        return f"P1 multiset changed: missing {list((want - got).elements())[:3]} extra {list((got - want).elements())[:3]}"
    return None


def make_lab(spec, name):
    with warnings.catch_warnings():
        warnings.simplefilter("ignore")
        if spec["cls"] == "Trough":
            return Trough(name, spec["rows"], spec["cols"], min_volume=0, max_volume=1000)
        if spec["cls"] == "LabwareVR":
            return Labware(name, 1, spec["cols"], min_volume=0, max_volume=1000, virtual_rows=spec["rows"])
        return Labware(name, spec["rows"], spec["cols"], min_volume=0, max_volume=1000)


def check_opt(case):
    src = make_lab(case["src"], "S")
    dst = src if case.get("same") else make_lab(case["dst"], "D")
    st, dt = case["src"]["cls"] != "Labware", (case["src"] if case.get("same") else case["dst"])["cls"] != "Labware"
    mode = case["mode"]
    valid = isinstance(mode, str) and mode in ("auto", "source", "destination")
    try:
        if "label" in case:
            got = optimize_partition_by(src, dst, mode, case["label"])
        else:
            got = optimize_partition_by(src, dst, mode)
    except Exception as e:  # noqa
        return f"valid mode {mode!r} raised {type(e).__name__}: {e}" if valid else None
    if not valid:
        return f"O2 invalid mode {mode!r} accepted, returned {got!r}"
    want = mode if mode != "auto" else ("destination" if (st and not dt) else "source")
    if got != want or not isinstance(got, str):
        return f"O1/O2 source trough={st} destination trough={dt} mode={mode!r}: got {got!r}, expected {want!r}"
    return None


def check_again(case):
    """the same partitioning asked twice; the caller consumes / edits the first result in place in between (as a pipetting
    loop that pops wells would).  The second answer must be as correct as the first: results may not share state."""
    S, D, V, mode = case["s"], case["d"], case["v"], case["mode"]
    first = check_part(case)
    if first:
        return first
    try:
        out = partition_by_column(list(S), list(D), list(V), mode)
        for g in out:
            for lst in g:
                if isinstance(lst, list):
                    lst.reverse()
                    if lst:
                        lst.pop()
                    lst.append("Z99" if lst is not g[2] else -1.0)
                elif isinstance(lst, np.ndarray) and lst.size:
                    lst[...] = lst[::-1].copy()
        del out[:]
    except Exception as e:  # noqa
        return f"valid call raised {type(e).__name__}: {e}"
    second = check_part(case)
    return f"after the caller edited the groups of an earlier identical call: {second}" if second else None


def check(case):
    return {"part": check_part, "again": check_again}.get(case["kind"], check_opt)(case)


# ---------------------------------------------------------------- generators
def gen_exhaustive_part(maxlen):
    src, dst, vols = ["A01", "B01", "A02", "B10"], ["A01", "C01", "B09", "A10"], [1.0, 2.5]
    trip = list(itertools.product(src, dst, vols))
    for n in range(maxlen + 1):
        for combo in itertools.product(trip, repeat=n):
            for mode in ("source", "destination"):
                yield {"kind": "part", "s": [t[0] for t in combo], "d": [t[1] for t in combo],
                       "v": [t[2] for t in combo], "mode": mode}


def gen_opt():
    for a in LABSPECS:
        for b in LABSPECS:
            for mode in ["auto", "source", "destination"] + INVALID_MODES:
                yield {"kind": "opt", "src": a, "dst": b, "mode": mode}
        for mode in ["auto", "source", "destination", None, "x"]:
            yield {"kind": "opt", "src": a, "dst": a, "same": True, "mode": mode, "label": "lbl"}
    yield {"kind": "opt", "src": LABSPECS[4], "dst": LABSPECS[0], "mode": "auto", "label": None}


def gen_random_part(rng):
    n = rng.choice([0, 1, 2, 3, 4, 5, 8, 12, 20, 40]) if rng.random() < .5 else rng.randint(0, 30)
    edge_cols = [1, 2, 9, 10, 11, 19, 20, 21, 90, 99]

    def pool():
        rows = rng.sample(LETTERS, rng.choice([1, 2, 3, 8, 26]))
        k = rng.choice([1, 2, 3, 5, 12])
        cols = [rng.choice(edge_cols) if rng.random() < .6 else rng.randint(1, 99) for _ in range(k)]
        return [f"{r}{c:02d}" for r in rows for c in cols]
    ps = pool()
    pd = ps if rng.random() < .3 else pool()
    few_s, few_d = rng.sample(ps, min(len(ps), rng.choice([1, 2, 4, 50]))), rng.sample(pd, min(len(pd), rng.choice([1, 2, 4, 50])))
    vstyle = rng.choice(["ties", "ints", "floats", "mixed", "zero"])

    def vol():
        if vstyle == "ties":
            return rng.choice([1.0, 2.0, 2.0, 950.0])
        if vstyle == "ints":
            return rng.randint(0, 5)
        if vstyle == "zero":
            return 0.0
        if vstyle == "mixed":
            return rng.choice([rng.randint(0, 2000), round(rng.uniform(0, 2000), rng.randint(0, 6))])
        return rng.uniform(0, 1000)
    S, D, V = [], [], []
    for _ in range(n):
        if S and rng.random() < .25:  # exact repeat of an earlier triple / of one of its wells
            j = rng.randrange(len(S))
            S.append(S[j]); D.append(D[j] if rng.random() < .7 else rng.choice(few_d)); V.append(V[j] if rng.random() < .7 else vol())
        else:
            S.append(rng.choice(few_s)); D.append(rng.choice(few_d)); V.append(vol())
    mode = rng.choice(["source", "destination"]) if rng.random() < .93 else rng.choice(["auto", "", None, "Source", "column"])
    return {"kind": "part", "s": S, "d": D, "v": V, "mode": mode, "as": rng.choice(["list", "list", "tuple", "array"])}


def gen_random_opt(rng):
    def spec():
        cls = rng.choice(["Labware", "Trough", "LabwareVR"])
        return {"cls": cls, "rows": rng.choice([1, 2, 8, 16, 26]), "cols": rng.choice([1, 2, 12, 24, 48])}
    c = {"kind": "opt", "src": spec(), "dst": spec(),
         "mode": rng.choice(["auto"] * 3 + ["source", "destination"] + INVALID_MODES)}
    if rng.random() < .3:
        c["same"] = True
    if rng.random() < .5:
        c["label"] = rng.choice([None, "", "transfer 1"])
    return c


# ---------------------------------------------------------------- harness
def key_of(case):
    return json.dumps(case, sort_keys=True, default=str)


def write_replay(case, what):
    short = hashlib.sha1(key_of(case).encode()).hexdigest()[:10]
    rel = os.path.join("replays", PROP, f"bounded_{short}.json")
    os.makedirs(os.path.join(VERIF, "replays", PROP), exist_ok=True)
    with open(os.path.join(VERIF, rel), "w") as fh:
        json.dump({"property": PROP, "bounded_replay": {"script": "c18.py", "case": case}, "what": what}, fh, indent=1)
    return rel


def replay(path):
    if not os.path.isabs(path) and not os.path.exists(path):
        path = os.path.join(VERIF, path)
    with open(path) as fh:
        case = json.load(fh)["bounded_replay"]["case"]
    what = check(case)
    print("case:", json.dumps(case))
    print("observed:", what or "property holds on this case")
    return 1 if what else 0


def main():
    if sys.argv[1] == "--replay":
        sys.exit(replay(sys.argv[2]))
    tier, seed = sys.argv[1], int(sys.argv[2])
    budget = 12 if tier == "quick" else 150
    t0 = time.time()
    rng = random.Random(seed)
    seen, failures, fail_kinds, samples = set(), [], collections.Counter(), []
    parts = collections.OrderedDict()

    def run(case, part, bound):
        p = parts.setdefault(part, {"function": part, "kind": "bounded enumeration / seeded random", "bound": bound, "evaluations": 0})
        p["evaluations"] += 1
        k = key_of(case)
        new = k not in seen
        seen.add(k)
        what = check(case)
        if what and new:
            cat = what.split(":")[0][:40]
            fail_kinds[cat] += 1
            if fail_kinds[cat] <= 3 and len(failures) < 12:
                failures.append({"what": f"{case['kind']}: {what}"[:300], "replay": write_replay(case, what)})
        return what

    for k, base in enumerate(gen_exhaustive_part(2)):
        if k % 7 == 0 and base["mode"] in ("source", "destination") and len(base["s"]):
            run(dict(base, kind="again"), "partition_by_column (repeated call, first result edited in place)", "every 7th exhaustive case of length 1..2, both modes")
    maxlen = 2 if tier == "quick" else 3
    for case in gen_exhaustive_part(maxlen):
        run(case, "partition_by_column (exhaustive)", f"all triple lists of length 0..{maxlen} over 4 src x 4 dst wells (columns 1,2,9,10) x 2 volumes, both modes")
    for case in gen_opt():
        run(case, "optimize_partition_by (exhaustive)", f"{len(LABSPECS)}x{len(LABSPECS)} labware kinds (plates incl. 1-row, Trough, Labware(virtual_rows)) x 3 valid + {len(INVALID_MODES)} invalid modes, same-object pairs")
    n = 0
    while time.time() - t0 < budget:
        for _ in range(200):
            n += 1
            if n % 5 == 0:
                case = gen_random_opt(rng)
                run(case, "optimize_partition_by (random)", "random labware kinds/shapes, modes, labels; time budget")
            elif n % 5 == 1:
                case = dict(gen_random_part(rng), kind="again")
                if case["mode"] in ("source", "destination"):
                    run(case, "partition_by_column (repeated call, first result edited in place)", "random cases as below; time budget")
            else:
                case = gen_random_part(rng)
                run(case, "partition_by_column (random)", "length 0..40, rows A..Z, columns 1..99 biased to 1,2,9,10,11,19,20,99, repeated wells/triples, equal volumes, list/tuple/ndarray inputs; time budget")
            if len(samples) < 4 and len(case.get("s", [])) <= 4 and n % 3 == 0:
                samples.append(case)
    print(json.dumps({
        "evaluations": sum(p["evaluations"] for p in parts.values()), "distinct": len(seen),
        "rule": "a case is a full argument tuple (triple list + mode, or labware kinds + mode); distinct = distinct canonical JSON of the case",
        "samples": samples, "parts": list(parts.values()), "failures": failures}, default=str))


if __name__ == "__main__":
    main()
