"""Spec functions visible in contract expressions (symbolic side).  Each has a native twin in
pyvc/native_spec.py with the same name and meaning, used when a counterexample is replayed on the real code."""
from __future__ import annotations

import z3

from . import lib, ops
from .engine import Closure, HostFn
from .ops import mk_bool, mk_num, unwrap_bool, zbool
from .values import Arr2V, Blk, Lit, SeqV, Sym, Unsupported, WellV, num_kind, term

NS = {}


def spec(fn):
    NS[fn.__name__.rstrip("_")] = HostFn(fn, fn.__name__)
    return fn


def _call(ex, f, *args):
    ex.pure += 1  # spec closures are evaluated lazily: always as pure formulas
    try:
        return ex.call(f, list(args), {})
    finally:
        ex.pure -= 1


@spec
def forall(ex, lo, hi, f):
    empty = z3.simplify(term(hi, "int") <= term(lo, "int"))
    if z3.is_true(empty):
        return True
    i = z3.Int(ex.p.fresh_name("fa"))
    body = zbool(ex.truth(_call(ex, f, Sym(i, "int"))))
    return mk_bool(z3.ForAll([i], z3.Implies(z3.And(i >= term(lo, "int"), i < term(hi, "int")), body)))


@spec
def exists(ex, lo, hi, f):
    i = z3.Int(ex.p.fresh_name("ex"))
    body = zbool(ex.truth(_call(ex, f, Sym(i, "int"))))
    return mk_bool(z3.Exists([i], z3.And(i >= term(lo, "int"), i < term(hi, "int"), body)))


@spec
def implies(ex, a, b):
    return mk_bool(z3.Implies(zbool(ex.truth(a)), zbool(ex.truth(b))))


@spec
def iff(ex, a, b):
    return mk_bool(zbool(ex.truth(a)) == zbool(ex.truth(b)))


@spec
def ite_(ex, c, a, b):
    return ops.ite(ex, zbool(ex.truth(c)) if not isinstance(ex.truth(c), bool) else ex.truth(c), a, b)


NS["ite"] = NS.pop("ite")


@spec
def ceil_div(ex, a, b):
    """least integer k with k*b >= a (b > 0)."""
    at, bt = term(a, "real"), term(b, "real")
    k = z3.Int(ex.p.fresh_name("cdiv"))
    kr = z3.ToReal(k)
    ex.p.assume(z3.Implies(bt > 0, z3.And((kr - 1) * bt < at, at <= kr * bt)))
    return Sym(k, "int")


@spec
def floor_div(ex, a, b):
    """greatest integer k with k*b <= a (b > 0)."""
    at, bt = term(a, "real"), term(b, "real")
    k = z3.Int(ex.p.fresh_name("fdiv"))
    kr = z3.ToReal(k)
    ex.p.assume(z3.Implies(bt > 0, z3.And(kr * bt <= at, at < (kr + 1) * bt)))
    return Sym(k, "int")


@spec
def seqsum(ex, s):
    return lib.seq_sum(ex, s)


@spec
def length(ex, s):
    return lib.b_len(ex, s)


@spec
def is_int(ex, v):
    """a Python int (IntEnum members included), not a bool, not a numpy integer"""
    if isinstance(v, Sym):
        return v.ty == "int" and not v.np
    return ops.is_intlike(v) and not isinstance(v, bool)


@spec
def well(ex, r, c):
    """the well id with 0-based row index r and 1-based column number c"""
    return WellV(r if isinstance(r, int) else term(r, "int"), c if isinstance(c, int) else term(c, "int"))


@spec
def seq_of(ex, n, f):
    """the list [f(0), ..., f(n-1)]"""
    if isinstance(n, int):
        return SeqV.of("list", [_call(ex, f, i) for i in range(n)])
    return SeqV("list", [Blk(term(n, "int"), lambda i: _call(ex, f, i if isinstance(i, (int, Sym)) else Sym(i, "int")))])


@spec
def arr2(ex, rows, cols, f):
    def dim(x):
        return x if isinstance(x, int) else term(x, "int")

    def at(i, j):
        return _call(ex, f, i if isinstance(i, (int, Sym)) else Sym(i, "int"), j if isinstance(j, (int, Sym)) else Sym(j, "int"))

    return Arr2V(dim(rows), dim(cols), at)


@spec
def same(ex, a, b):
    from .contract import value_equal

    return value_equal(ex, a, b)


@spec
def colmajor(ex, a):
    """the elements of a 1-D sequence in order, of a 2-D array in column-major order (spec of 'read column-major')"""
    if isinstance(a, Arr2V):
        src = a.copy()
        R, Cn = src.rows, src.cols
        if isinstance(R, int) and isinstance(Cn, int):
            return SeqV.of("list", [src.fn(i, j) for j in range(Cn) for i in range(R)])
        Rt, Ct = term(R, "int"), term(Cn, "int")

        def at(k):
            kt = term(k, "int")
            return src.fn(lib._mk(kt % Rt), lib._mk(kt / Rt))

        return SeqV("list", [Blk(z3.simplify(Rt * Ct), at)])
    if isinstance(a, SeqV):
        return a.copy("list")
    if isinstance(a, lib.Arr0V):
        return SeqV.of("list", [a.v])
    return SeqV.of("list", [a])


# ----------------------------------------------------------------------------- text / tip predicates


@spec
def is_str(ex, v):
    return lib.isinstance_(ex, v, _B("str"))


@spec
def is_float(ex, v):
    return lib.isinstance_(ex, v, _B("float"))


@spec
def is_none(ex, v):
    return v is None


@spec
def is_nan(ex, v):
    return isinstance(v, float) and v != v


def _B(name):
    from .engine import BuiltinV

    return BuiltinV(name)


@spec
def valid_text(ex, v):
    """a str without the field separator"""
    if not lib.isinstance_(ex, v, _B("str")):
        return False
    c = ops.contains(ex, v, ";")
    return (not c) if isinstance(c, bool) else mk_bool(z3.Not(unwrap_bool(c)))


@spec
def valid_text32(ex, v):
    """a str of at most 32 characters without the field separator"""
    if not lib.isinstance_(ex, v, _B("str")):
        return False
    c = valid_text(ex, v)
    ln = lib.b_len(ex, v)
    return ops.and_(ex, c, ops.compare(ex, "<=", ln, 32))


@spec
def pow2(ex, n):
    if isinstance(n, int):
        return 2 ** n
    return mk_num(ops.pow2_term(term(n, "int")), "int")


def _tip_cls(ex):
    from .engine import ModuleRef

    return ex.module_attr(ModuleRef("robotools.evotools.types"), "Tip")


@spec
def is_tip(ex, v):
    from .values import EnumV

    return isinstance(v, EnumV) and v.cls == "Tip"


@spec
def tip_number_ok(ex, v):
    """v denotes one of the eight tips: an int 1..8 or a Tip member other than Any"""
    from .values import EnumV

    if isinstance(v, EnumV) and v.cls == "Tip":
        c = ops.compare(ex, "!=", v.value, -1)
        return c
    if is_int(ex, v):
        return ops.and_(ex, ops.compare(ex, "<=", 1, v), ops.compare(ex, "<=", v, 8))
    return False


@spec
def tip_bit(ex, v):
    """mask bit of one tip symbol: 2^(n-1) for an int n, the member's value for a Tip"""
    from .values import EnumV

    if isinstance(v, EnumV):
        return v.value
    return pow2(ex, ops.binop(ex, "-", v, 1))


@spec
def tip_of_int(ex, n):
    """the Tip member for tip number n (1..8)"""
    from .values import EnumV

    return EnumV("Tip", pow2(ex, ops.binop(ex, "-", n, 1)))


@spec
def is_collection(ex, v):
    return isinstance(v, (SeqV, Arr2V)) or type(v).__name__ in ("SetV", "MapV")


@spec
def tip_collection_ok(ex, v):
    """every member of the collection denotes one of the eight tips"""
    if not isinstance(v, SeqV):
        raise Unsupported("tip_collection_ok on non-sequence")
    if v.is_concrete_len():
        r = True
        for x in v.concrete_items():
            r = ops.and_(ex, r, tip_number_ok(ex, x))
        return r
    n = ops.seq_len(v)
    i = z3.Int(ex.p.fresh_name("tc"))
    e = zbool(unwrap_bool(tip_number_ok(ex, ops.seq_get(ex, v, Sym(i, "int")))))
    return mk_bool(z3.ForAll([i], z3.Implies(z3.And(i >= 0, i < term(n, "int")), e)))


@spec
def tipmask(ex, v):
    """Tecan tip mask of a tip argument: bitwise OR of the members = sum over the eight tips of
    2^(t-1) * [tip t is a member]; a scalar gives its own bit; Tip.Any gives -1."""
    from .values import EnumV

    if isinstance(v, SeqV):
        total = 0
        for t in range(1, 9):
            bit = 2 ** (t - 1)
            if v.is_concrete_len():
                present = False
                for x in v.concrete_items():
                    e = ops.compare(ex, "==", tip_bit(ex, x), bit)
                    if isinstance(e, bool):
                        present = True if e else present
                        if e:
                            break
                    else:
                        present = e if present is False else mk_bool(z3.Or(unwrap_bool(present), unwrap_bool(e)))
            else:
                n = ops.seq_len(v)
                i = z3.Int(ex.p.fresh_name("tm"))
                e = zbool(unwrap_bool(ops.compare(ex, "==", tip_bit(ex, ops.seq_get(ex, v, Sym(i, "int"))), bit)))
                present = mk_bool(z3.Exists([i], z3.And(i >= 0, i < term(n, "int"), e)))
            if isinstance(present, bool):
                total = ops.binop(ex, "+", total, bit if present else 0)
            else:
                total = ops.binop(ex, "+", total, ops.ite(ex, unwrap_bool(present), bit, 0))
        return total
    return tip_bit(ex, v)


@spec
def fmt_volume(ex, v):
    """the volume printed with two decimals after rounding to two decimals"""
    r = lib.np_round(ex, v, 2)
    return lib.format_value(ex, r, ".2f")


@spec
def as_float(ex, v):
    """float(v) for numeric v (spec side: numeric inputs only)"""
    return lib.to_float(ex, v)


# ----------------------------------------------------------------------------- hex strings (C12)

HEXVAL = z3.Function("hexval", z3.StringSort(), z3.IntSort())
HEXDIGITS = "0123456789ABCDEF"


def _hex_instances(ex, t, depth=0):
    """Instances of the recursive definition of hexval for the syntactic shape of t:
       hexval(DIGITS[x]) = x ; hexval(s ++ DIGITS[x]) = 16*hexval(s) + x ; hexval("0" ++ s) = hexval(s)"""
    facts = []
    if z3.is_string_value(t):
        sv = t.as_string()
        if sv and all(ch in HEXDIGITS for ch in sv):
            facts.append(HEXVAL(t) == int(sv, 16))
        return facts
    k = t.decl().kind()
    if k == z3.Z3_OP_SEQ_EXTRACT:
        base, off, ln = t.children()
        if z3.is_string_value(base) and base.as_string() == HEXDIGITS and z3.is_int_value(ln) and ln.as_long() == 1:
            facts.append(z3.Implies(z3.And(off >= 0, off < 16), HEXVAL(t) == off))
        return facts
    if k == z3.Z3_OP_SEQ_CONCAT:
        ch = t.children()
        last = ch[-1]
        prefix = ch[0] if len(ch) == 2 else z3.Concat(*ch[:-1])
        if last.decl().kind() == z3.Z3_OP_SEQ_EXTRACT:
            base, off, ln = last.children()
            if z3.is_string_value(base) and base.as_string() == HEXDIGITS:
                facts.append(z3.Implies(z3.And(off >= 0, off < 16), HEXVAL(t) == 16 * HEXVAL(prefix) + off))
                if depth < 3:
                    facts.extend(_hex_instances(ex, prefix, depth + 1))
        first = ch[0]
        if z3.is_string_value(first) and first.as_string() == "0":
            rest = ch[1] if len(ch) == 2 else z3.Concat(*ch[1:])
            facts.append(HEXVAL(t) == HEXVAL(rest))  # a leading zero does not change the value
            if depth < 3:
                facts.extend(_hex_instances(ex, rest, depth + 1))
        return facts
    if k == z3.Z3_OP_ITE:
        c, a, b = t.children()
        facts.extend(_hex_instances(ex, a, depth + 1))
        facts.extend(_hex_instances(ex, b, depth + 1))
    return facts


@spec
def hexval(ex, s):
    """value of an upper-case hexadecimal numeral (recursive definition on the last digit)"""
    t = term(s)
    for f in _hex_instances(ex, t):
        ex.p.assume(f)
    return Sym(HEXVAL(t), "int")


@spec
def substr(ex, s, lo, hi):
    """s[lo:hi] for 0 <= lo <= hi <= len(s)"""
    t = term(s)
    return Sym(z3.SubString(t, term(lo, "int"), term(hi, "int") - term(lo, "int")), "str")


@spec
def char_code(ex, s, i):
    """ord(s[i])"""
    return Sym(z3.StrToCode(z3.SubString(term(s), term(i, "int"), 1)), "int")


@spec
def hexdigit(ex, x):
    """the upper-case hexadecimal digit of 0 <= x < 16"""
    if isinstance(x, int):
        return HEXDIGITS[x]
    return Sym(z3.SubString(z3.StringVal(HEXDIGITS), term(x, "int"), 1), "str")


@spec
def hex2(ex, n):
    """two-digit upper-case hexadecimal numeral of 0 <= n <= 255"""
    nt = term(n, "int")
    return Sym(z3.Concat(z3.SubString(z3.StringVal(HEXDIGITS), nt / 16, 1), z3.SubString(z3.StringVal(HEXDIGITS), nt % 16, 1)), "str")


# ----------------------------------------------------------------------------- worklist records (C09 / C17)


@spec
def records(ex, wl):
    """the record list of a worklist"""
    return wl.fields["__records__"]


@spec
def printable(ex, s):
    """text without line breaks (the property quantifies over printable Latin-1 text)"""
    if not lib.isinstance_(ex, s, _B("str")):
        return True
    t = term(s)
    return mk_bool(z3.And(z3.Not(z3.Contains(t, z3.StringVal("\n"))), z3.Not(z3.Contains(t, z3.StringVal("\r")))))


@spec
def no_sep(ex, s):
    """a field that an independent parser reads back unchanged: no ';' and no line break"""
    t = term(s)
    return mk_bool(lib._no_sep(t))


@spec
def fmt_int(ex, x):
    """decimal representation of an int"""
    return lib.format_value(ex, lib.to_int(ex, x) if not ops.is_intlike(x) else x, "")


@spec
def fmt_num(ex, x):
    """str() of a number as Python prints it"""
    return lib.format_value(ex, x, "")


@spec
def tip_field(ex, tip):
    """tip mask field of a record: empty for Tip.Any"""
    m = tipmask(ex, tip)
    c = ops.compare(ex, "==", m, -1)
    if isinstance(c, bool):
        return "" if c else lib.format_value(ex, m, "")
    return Sym(z3.If(unwrap_bool(c), z3.StringVal(""), term(lib.format_value(ex, m, ""))), "str")


@spec
def gwl_record(ex, kind, fields):
    """one worklist record: the record type and its fields joined by ';'"""
    from .values import RecV

    return RecV(kind, fields.concrete_items())


@spec
def strip_(ex, s):
    return lib.str_method(ex, s, "strip", [], {})


NS["strip"] = NS.pop("strip")


@spec
def sorted_ints(ex, xs):
    """the ascending rearrangement of a list of ints (spec: sorting network over the concrete length)"""
    return lib.b_sorted(ex, xs)


@spec
def is_integral(ex, v):
    """a Python int or a numpy integer (not a bool)"""
    if isinstance(v, Sym):
        return v.ty == "int"
    return ops.is_intlike(v) and not isinstance(v, bool)
