"""Spec functions visible in contract expressions (symbolic side).  Each has a native twin in
pyvc/native_spec.py with the same name and meaning, used when a counterexample is replayed on the real code."""
from __future__ import annotations

import z3

from . import lib, ops
from .engine import Closure, HostFn
from .ops import mk_bool, mk_num, unwrap_bool, zbool
from .values import Arr2V, Blk, Lit, SeqV, Sym, Unsupported, WellV, num_kind, term

NS = {}


def spec(fn):
    NS[fn.__name__.rstrip("_")] = HostFn(fn, fn.__name__)
    return fn


def _call(ex, f, *args):
    ex.pure += 1  # spec closures are evaluated lazily: always as pure formulas
    try:
        return ex.call(f, list(args), {})
    finally:
        ex.pure -= 1


@spec
def forall(ex, lo, hi, f):
    empty = z3.simplify(term(hi, "int") <= term(lo, "int"))
    if z3.is_true(empty):
        return True
    i = z3.Int(ex.p.fresh_name("fa"))
    body = zbool(ex.truth(_call(ex, f, Sym(i, "int"))))
    return mk_bool(z3.ForAll([i], z3.Implies(z3.And(i >= term(lo, "int"), i < term(hi, "int")), body)))


@spec
def exists(ex, lo, hi, f):
    i = z3.Int(ex.p.fresh_name("ex"))
    body = zbool(ex.truth(_call(ex, f, Sym(i, "int"))))
    return mk_bool(z3.Exists([i], z3.And(i >= term(lo, "int"), i < term(hi, "int"), body)))


@spec
def implies(ex, a, b):
    return mk_bool(z3.Implies(zbool(ex.truth(a)), zbool(ex.truth(b))))


@spec
def iff(ex, a, b):
    return mk_bool(zbool(ex.truth(a)) == zbool(ex.truth(b)))


@spec
def ite_(ex, c, a, b):
    return ops.ite(ex, zbool(ex.truth(c)) if not isinstance(ex.truth(c), bool) else ex.truth(c), a, b)


NS["ite"] = NS.pop("ite")


@spec
def ceil_div(ex, a, b):
    """least integer k with k*b >= a (b > 0)."""
    return lib.ceil_of_quotient(ex, a, b, "ceil")


@spec
def floor_div(ex, a, b):
    """greatest integer k with k*b <= a (b > 0)."""
    return lib.ceil_of_quotient(ex, a, b, "floor")


@spec
def seqsum(ex, s):
    return lib.seq_sum(ex, s)


@spec
def length(ex, s):
    return lib.b_len(ex, s)


@spec
def is_int(ex, v):
    """a Python int (IntEnum members included), not a bool, not a numpy integer"""
    if isinstance(v, Sym):
        return v.ty == "int" and not v.np
    return ops.is_intlike(v) and not isinstance(v, bool)


@spec
def well(ex, r, c):
    """the well id with 0-based row index r and 1-based column number c"""
    return WellV(r if isinstance(r, int) else term(r, "int"), c if isinstance(c, int) else term(c, "int"))


@spec
def seq_of(ex, n, f):
    """the list [f(0), ..., f(n-1)]"""
    if isinstance(n, int):
        return SeqV.of("list", [_call(ex, f, i) for i in range(n)])
    return SeqV("list", [Blk(term(n, "int"), lambda i: _call(ex, f, i if isinstance(i, (int, Sym)) else Sym(i, "int")))])


@spec
def arr2(ex, rows, cols, f):
    def dim(x):
        return x if isinstance(x, int) else term(x, "int")

    def at(i, j):
        return _call(ex, f, i if isinstance(i, (int, Sym)) else Sym(i, "int"), j if isinstance(j, (int, Sym)) else Sym(j, "int"))

    return Arr2V(dim(rows), dim(cols), at)


@spec
def same(ex, a, b):
    from .contract import value_equal

    return value_equal(ex, a, b)


@spec
def colmajor(ex, a):
    """the elements of a 1-D sequence in order, of a 2-D array in column-major order (spec of 'read column-major')"""
    if isinstance(a, Arr2V):
        src = a.copy()
        R, Cn = src.rows, src.cols
        if isinstance(R, int) and isinstance(Cn, int):
            return SeqV.of("list", [src.fn(i, j) for j in range(Cn) for i in range(R)])
        Rt, Ct = term(R, "int"), term(Cn, "int")

        def at(k):
            kt = term(k, "int")
            return src.fn(lib._mk(kt % Rt), lib._mk(kt / Rt))

        return SeqV("list", [Blk(z3.simplify(Rt * Ct), at)])
    if isinstance(a, SeqV):
        return a.copy("list")
    if isinstance(a, lib.Arr0V):
        return SeqV.of("list", [a.v])
    return SeqV.of("list", [a])


# ----------------------------------------------------------------------------- text / tip predicates


@spec
def is_str(ex, v):
    return lib.isinstance_(ex, v, _B("str"))


@spec
def is_float(ex, v):
    return lib.isinstance_(ex, v, _B("float"))


@spec
def is_none(ex, v):
    return v is None


@spec
def is_nan(ex, v):
    return isinstance(v, float) and v != v


def _B(name):
    from .engine import BuiltinV

    return BuiltinV(name)


@spec
def valid_text(ex, v):
    """a str without the field separator"""
    if not lib.isinstance_(ex, v, _B("str")):
        return False
    c = ops.contains(ex, v, ";")
    return (not c) if isinstance(c, bool) else mk_bool(z3.Not(unwrap_bool(c)))


@spec
def valid_text32(ex, v):
    """a str of at most 32 characters without the field separator"""
    if not lib.isinstance_(ex, v, _B("str")):
        return False
    c = valid_text(ex, v)
    ln = lib.b_len(ex, v)
    return ops.and_(ex, c, ops.compare(ex, "<=", ln, 32))


@spec
def pow2(ex, n):
    if isinstance(n, int):
        return 2 ** n
    return mk_num(ops.pow2_term(term(n, "int")), "int")


def _tip_cls(ex):
    from .engine import ModuleRef

    return ex.module_attr(ModuleRef("robotools.evotools.types"), "Tip")


@spec
def is_tip(ex, v):
    from .values import EnumV

    return isinstance(v, EnumV) and v.cls == "Tip"


@spec
def tip_number_ok(ex, v):
    """v denotes one of the eight tips: an int 1..8 or a Tip member other than Any"""
    from .values import EnumV

    if isinstance(v, EnumV) and v.cls == "Tip":
        c = ops.compare(ex, "!=", v.value, -1)
        return c
    if is_int(ex, v):
        return ops.and_(ex, ops.compare(ex, "<=", 1, v), ops.compare(ex, "<=", v, 8))
    return False


@spec
def tip_bit(ex, v):
    """mask bit of one tip symbol: 2^(n-1) for an int n, the member's value for a Tip"""
    from .values import EnumV

    if isinstance(v, EnumV):
        return v.value
    return pow2(ex, ops.binop(ex, "-", v, 1))


@spec
def tip_of_int(ex, n):
    """the Tip member for tip number n (1..8)"""
    from .values import EnumV

    return EnumV("Tip", pow2(ex, ops.binop(ex, "-", n, 1)))


@spec
def is_collection(ex, v):
    return isinstance(v, (SeqV, Arr2V)) or type(v).__name__ in ("SetV", "MapV")


@spec
def tip_collection_ok(ex, v):
    """every member of the collection denotes one of the eight tips"""
    if not isinstance(v, SeqV):
        raise Unsupported("tip_collection_ok on non-sequence")
    if v.is_concrete_len():
        r = True
        for x in v.concrete_items():
            r = ops.and_(ex, r, tip_number_ok(ex, x))
        return r
    n = ops.seq_len(v)
    i = z3.Int(ex.p.fresh_name("tc"))
    e = zbool(unwrap_bool(tip_number_ok(ex, ops.seq_get(ex, v, Sym(i, "int")))))
    return mk_bool(z3.ForAll([i], z3.Implies(z3.And(i >= 0, i < term(n, "int")), e)))


@spec
def tipmask(ex, v):
    """Tecan tip mask of a tip argument: bitwise OR of the members = sum over the eight tips of
    2^(t-1) * [tip t is a member]; a scalar gives its own bit; Tip.Any gives -1."""
    from .values import EnumV

    if isinstance(v, SeqV):
        total = 0
        for t in range(1, 9):
            bit = 2 ** (t - 1)
            if v.is_concrete_len():
                present = False
                for x in v.concrete_items():
                    e = ops.compare(ex, "==", tip_bit(ex, x), bit)
                    if isinstance(e, bool):
                        present = True if e else present
                        if e:
                            break
                    else:
                        present = e if present is False else mk_bool(z3.Or(unwrap_bool(present), unwrap_bool(e)))
            else:
                n = ops.seq_len(v)
                i = z3.Int(ex.p.fresh_name("tm"))
                e = zbool(unwrap_bool(ops.compare(ex, "==", tip_bit(ex, ops.seq_get(ex, v, Sym(i, "int"))), bit)))
                present = mk_bool(z3.Exists([i], z3.And(i >= 0, i < term(n, "int"), e)))
            if isinstance(present, bool):
                total = ops.binop(ex, "+", total, bit if present else 0)
            else:
                total = ops.binop(ex, "+", total, ops.ite(ex, unwrap_bool(present), bit, 0))
        return total
    return tip_bit(ex, v)


@spec
def fmt_volume(ex, v):
    """the volume printed with two decimals after rounding to two decimals"""
    r = lib.np_round(ex, v, 2)
    return lib.format_value(ex, r, ".2f")


@spec
def as_float(ex, v):
    """float(v) for numeric v (spec side: numeric inputs only)"""
    return lib.to_float(ex, v)


# ----------------------------------------------------------------------------- hex strings (C12)

HEXVAL = z3.Function("hexval", z3.StringSort(), z3.IntSort())
HEXDIGITS = "0123456789ABCDEF"


def _hex_instances(ex, t, depth=0):
    """Instances of the recursive definition of hexval for the syntactic shape of t:
       hexval(DIGITS[x]) = x ; hexval(s ++ DIGITS[x]) = 16*hexval(s) + x ; hexval("0" ++ s) = hexval(s)"""
    facts = []
    if z3.is_string_value(t):
        sv = t.as_string()
        if sv and all(ch in HEXDIGITS for ch in sv):
            facts.append(HEXVAL(t) == int(sv, 16))
        return facts
    k = t.decl().kind()
    if k == z3.Z3_OP_SEQ_EXTRACT:
        base, off, ln = t.children()
        if z3.is_string_value(base) and base.as_string() == HEXDIGITS and z3.is_int_value(ln) and ln.as_long() == 1:
            facts.append(z3.Implies(z3.And(off >= 0, off < 16), HEXVAL(t) == off))
        return facts
    if k == z3.Z3_OP_SEQ_CONCAT:
        ch = t.children()
        last = ch[-1]
        prefix = ch[0] if len(ch) == 2 else z3.Concat(*ch[:-1])
        if last.decl().kind() == z3.Z3_OP_SEQ_EXTRACT:
            base, off, ln = last.children()
            if z3.is_string_value(base) and base.as_string() == HEXDIGITS:
                facts.append(z3.Implies(z3.And(off >= 0, off < 16), HEXVAL(t) == 16 * HEXVAL(prefix) + off))
                if depth < 3:
                    facts.extend(_hex_instances(ex, prefix, depth + 1))
        first = ch[0]
        if z3.is_string_value(first) and first.as_string() == "0":
            rest = ch[1] if len(ch) == 2 else z3.Concat(*ch[1:])
            facts.append(HEXVAL(t) == HEXVAL(rest))  # a leading zero does not change the value
            if depth < 3:
                facts.extend(_hex_instances(ex, rest, depth + 1))
        return facts
    if k == z3.Z3_OP_ITE:
        c, a, b = t.children()
        facts.extend(_hex_instances(ex, a, depth + 1))
        facts.extend(_hex_instances(ex, b, depth + 1))
    return facts


@spec
def hexval(ex, s):
    """value of an upper-case hexadecimal numeral (recursive definition on the last digit)"""
    t = term(s)
    for f in _hex_instances(ex, t):
        ex.p.assume(f)
    return Sym(HEXVAL(t), "int")


@spec
def substr(ex, s, lo, hi):
    """s[lo:hi] for 0 <= lo <= hi <= len(s)"""
    t = term(s)
    return Sym(z3.SubString(t, term(lo, "int"), term(hi, "int") - term(lo, "int")), "str")


@spec
def char_code(ex, s, i):
    """ord(s[i])"""
    return Sym(z3.StrToCode(z3.SubString(term(s), term(i, "int"), 1)), "int")


@spec
def hexdigit(ex, x):
    """the upper-case hexadecimal digit of 0 <= x < 16"""
    if isinstance(x, int):
        return HEXDIGITS[x]
    return Sym(z3.SubString(z3.StringVal(HEXDIGITS), term(x, "int"), 1), "str")


@spec
def hex2(ex, n):
    """two-digit upper-case hexadecimal numeral of 0 <= n <= 255"""
    nt = term(n, "int")
    return Sym(z3.Concat(z3.SubString(z3.StringVal(HEXDIGITS), nt / 16, 1), z3.SubString(z3.StringVal(HEXDIGITS), nt % 16, 1)), "str")


# ----------------------------------------------------------------------------- worklist records (C09 / C17)


@spec
def records(ex, wl):
    """the record list of a worklist"""
    return wl.fields["__records__"]


@spec
def printable(ex, s):
    """text without line breaks (the property quantifies over printable Latin-1 text)"""
    if not lib.isinstance_(ex, s, _B("str")):
        return True
    t = term(s)
    return mk_bool(z3.And(z3.Not(z3.Contains(t, z3.StringVal("\n"))), z3.Not(z3.Contains(t, z3.StringVal("\r")))))


@spec
def no_sep(ex, s):
    """a field that an independent parser reads back unchanged: no ';' and no line break"""
    t = term(s)
    return mk_bool(lib._no_sep(t))


@spec
def fmt_int(ex, x):
    """decimal representation of an int"""
    return lib.format_value(ex, lib.to_int(ex, x) if not ops.is_intlike(x) else x, "")


@spec
def fmt_num(ex, x):
    """str() of a number as Python prints it"""
    return lib.format_value(ex, x, "")


@spec
def tip_field(ex, tip):
    """tip mask field of a record: empty for Tip.Any"""
    m = tipmask(ex, tip)
    c = ops.compare(ex, "==", m, -1)
    if isinstance(c, bool):
        return "" if c else lib.format_value(ex, m, "")
    return Sym(z3.If(unwrap_bool(c), z3.StringVal(""), term(lib.format_value(ex, m, ""))), "str")


@spec
def gwl_record(ex, kind, fields):
    """one worklist record: the record type and its fields joined by ';'"""
    from .values import RecV

    if fields.is_concrete_len():
        return RecV(kind, fields.concrete_items())
    # leading concrete fields + a tail of symbolic length
    head = []
    k = 0
    for sg in fields.segs:
        if isinstance(sg, Lit):
            head.extend(sg.items)
            k += 1
        else:
            break
    return RecV(kind, head, ";", SeqV("list", fields.copy().segs[k:]))


@spec
def strip_(ex, s):
    return lib.str_method(ex, s, "strip", [], {})


NS["strip"] = NS.pop("strip")


@spec
def sorted_ints(ex, xs):
    """the ascending rearrangement of a list of ints (spec: sorting network over the concrete length)"""
    if isinstance(xs, lib.RangeDiffV):
        xs = lib.range_diff_list(ex, xs)
    if getattr(xs, "ascending", False):
        return xs
    return lib.b_sorted(ex, xs)


@spec
def is_integral(ex, v):
    """a Python int or a numpy integer (not a bool)"""
    if isinstance(v, Sym):
        return v.ty == "int"
    return ops.is_intlike(v) and not isinstance(v, bool)


# ----------------------------------------------------------------------------- file output (C17)


def _same_path(ex, a, b):
    return ops.equals(ex, a.fields["str"], b.fields["str"])


@spec
def io_nothing(ex):
    """no file operation happened"""
    return len(ex.p.ghost.get("io", [])) == 0


@spec
def io_saved_to(ex, path):
    """the only file operations were: delete `path` if present, open it for writing (text mode 'w', newline
    '\\r\\n', encoding latin_1), one write, close - in this order"""
    log = ex.p.ghost.get("io", [])
    if len(log) != 4:
        return False
    (k0, *a0), (k1, *a1), (k2, *a2), (k3, *a3) = log
    if (k0, k1, k2, k3) != ("unlink", "open", "write", "close"):
        return False
    p = path if (hasattr(path, "cls") and path.cls == "Path") else lib.make_path(ex, path)
    f = a1[0]
    ok = a0[1] is True and f.mode == "w" and f.newline == "\r\n" and f.encoding in ("latin_1", "latin-1", "latin1", "iso-8859-1")
    if not ok or a2[0] is not f or a3[0] is not f:
        return False
    fp = f.path if (hasattr(f.path, "cls") and f.path.cls == "Path") else lib.make_path(ex, f.path)
    return ops.and_(ex, _same_path(ex, a0[0], p), _same_path(ex, fp, p))


@spec
def io_text(ex):
    """the text handed to write()"""
    for ev in ex.p.ghost.get("io", []):
        if ev[0] == "write":
            return ev[2]
    raise Unsupported("io_text(): nothing was written")


@spec
def join_lines(ex, wl_records):
    """the records joined by a single line feed (no trailing line break)"""
    return lib.str_method(ex, "\n", "join", [wl_records], {})


@spec
def path_name_lower(ex, p):
    """lower-cased final component of a path"""
    pp = p if (hasattr(p, "cls") and getattr(p, "cls", None) == "Path") else lib.make_path(ex, p)
    return Sym(lib.STRLOWER(lib.PATHNAME(term(pp.fields["str"]))), "str")


@spec
def ends_with(ex, s, suffix):
    return mk_bool(z3.SuffixOf(term(suffix), term(s)))


# ----------------------------------------------------------------------------- labware bookkeeping (C02 / C04 / C11)


class ContribV:
    """sum over the first k (well, volume) pairs of volume * [well addresses real well (r, c)]"""

    def __init__(self, at):
        self.at = at  # (r, c) -> value


def _real_index(ex, L, w):
    m = L.fields["_indices"]
    ex.pure += 1
    try:
        return ops.map_get(ex, m, w)
    finally:
        ex.pure -= 1


@spec
def real_index(ex, L, w):
    """(row, column) of the real well that well id w addresses in labware L"""
    return _real_index(ex, L, w)


@spec
def known_well(ex, L, w):
    """w is a well id of labware L"""
    return ops.map_has(ex, L.fields["_indices"], ops.to_abstract(w))


def _hit(ex, L, w, r, c):
    idx = _real_index(ex, L, w).concrete_items()
    return z3.And(term(idx[0], "int") == term(r, "int"), term(idx[1], "int") == term(c, "int"))


def _bcast(ex, vols, i, n):
    """element i of the volumes after numpy-style broadcasting of a singleton"""
    ln = ops.seq_len(vols)
    if isinstance(ln, int):
        return ops.seq_get(ex, vols, 0) if ln == 1 else ops.seq_get(ex, vols, i)
    if entails(ex, ln == 1):
        return ops.seq_get(ex, vols, 0)
    if entails(ex, ln != 1):
        return ops.seq_get(ex, vols, i)
    return ops.ite(ex, ln == 1, ops.seq_get(ex, vols, 0), ops.seq_get(ex, vols, i))


def entails(ex, cond):
    """does the current path condition entail cond?  (used only to pick a canonical form of a term)"""
    s = ex.p.solver
    s.push()
    s.add(z3.Not(cond))
    r = s.check()
    s.pop()
    return r == z3.unsat


@spec
def contrib_upto(ex, L, wells, vols, k):
    wells, vols = colmajor(ex, wells), colmajor(ex, vols)
    n = ops.seq_len(wells)
    if isinstance(k, int) and wells.is_concrete_len():
        items = wells.concrete_items()[:k]

        def at(r, c):
            tot = ops.FloatQ(0)
            for i, w in enumerate(items):
                v = _bcast(ex, vols, i, n)
                tot = ops.binop(ex, "+", tot, ops.ite(ex, z3.simplify(_hit(ex, L, w, r, c)), v, ops.FloatQ(0)))
            return tot

        return ContribV(at)
    j, r, c = z3.Int("cu_j"), z3.Int("cu_r"), z3.Int("cu_c")
    wj = ops.seq_get(ex, wells, Sym(j, "int"))
    vj = _bcast(ex, vols, Sym(j, "int"), n)
    hit = z3.If(_hit(ex, L, wj, r, c), term(vj, "real"), z3.RealVal(0))
    key = "contrib:" + hit.sexpr()
    reg = ex.p.ghost.setdefault("contrib", {})
    if key not in reg:
        CU = z3.Function(f"contrib{len(reg)}", z3.IntSort(), z3.IntSort(), z3.IntSort(), z3.RealSort())
        ex.p.assume(z3.ForAll([r, c], CU(0, r, c) == 0))
        reg[key] = (CU, hit, (j, r, c))
    CU, hit, (j, r, c) = reg[key]
    kt = term(k, "int")
    return ContribV(lambda rr, cc: Sym(CU(kt, term(rr, "int"), term(cc, "int")), "real"))


@spec
def contrib_unfold(ex, L, wells, vols, k):
    """instance at k of the recursive definition: contrib(k+1)(r,c) == contrib(k)(r,c) + [well_k at (r,c)] * volume_k"""
    wells, vols = colmajor(ex, wells), colmajor(ex, vols)
    if isinstance(k, int) and wells.is_concrete_len():
        return True
    contrib_upto(ex, L, wells, vols, k)
    j, r, c = z3.Int("cu_j"), z3.Int("cu_r"), z3.Int("cu_c")
    n = ops.seq_len(wells)
    wj = ops.seq_get(ex, wells, Sym(j, "int"))
    vj = _bcast(ex, vols, Sym(j, "int"), n)
    hit = z3.If(_hit(ex, L, wj, r, c), term(vj, "real"), z3.RealVal(0))
    CU, hit, (j, r, c) = ex.p.ghost["contrib"]["contrib:" + hit.sexpr()]
    kt = term(k, "int")
    ex.p.assume(z3.ForAll([r, c], z3.Implies(kt >= 0, CU(kt + 1, r, c) == CU(kt, r, c) + z3.substitute(hit, (j, kt)))))
    return True


@spec
def contrib(ex, L, wells, vols):
    """the total contribution of all (well, volume) pairs"""
    w = colmajor(ex, wells)
    n = ops.seq_len(w)
    return contrib_upto(ex, L, wells, vols, n if isinstance(n, int) else Sym(n, "int"))


@spec
def vol_minus(ex, arr, cv):
    src = arr.copy()
    return Arr2V(src.rows, src.cols, lambda r, c: ops.binop(ex, "-", src.fn(r, c), cv.at(r, c)), "float")


@spec
def vol_plus(ex, arr, cv):
    src = arr.copy()
    return Arr2V(src.rows, src.cols, lambda r, c: ops.binop(ex, "+", src.fn(r, c), cv.at(r, c)), "float")


@spec
def loop_index(ex):
    """index of the iteration of the innermost cut loop on this path (ghost)"""
    ks = ex.p.ghost.get("loop_k", [])
    if not ks:
        raise Unsupported("loop_index(): not inside a cut loop")
    return ks[-1]


@spec
def in_loop(ex):
    return bool(ex.p.ghost.get("loop_k"))


@spec
def fields_unchanged(ex, obj, old, except_):
    """every field of obj other than the listed ones is the very same value as at entry"""
    skip = set(except_.concrete_items())
    for k, v in obj.fields.items():
        if k in skip or k.startswith("__"):
            continue
        o = old.fields.get(k)
        if _struct_same(v, o):
            continue
        same_ = (v is o) or (not isinstance(v, (SeqV, Arr2V)) and type(v).__name__ not in ("MapV", "Obj") and _cheap_eq(ex, v, o))
        if not same_:
            if isinstance(v, (SeqV, Arr2V)) or type(v).__name__ in ("MapV",):
                # snapshots are copies: compare content
                from .contract import value_equal

                try:
                    e = value_equal(ex, v, o)
                except Unsupported:
                    return False
                if e is True:
                    continue
                if e is False:
                    return False
                ex.p.ghost.setdefault("frame_terms", []).append(e)
                continue
            return False
    extra = ex.p.ghost.pop("frame_terms", [])
    if extra:
        return mk_bool(z3.And(*[zbool(unwrap_bool(e)) for e in extra]))
    return True


def _cheap_eq(ex, a, b):
    try:
        e = ops.equals(ex, a, b)
    except Unsupported:
        return False
    return e is True


@spec
def vol_at(ex, L, w):
    """tracked volume of the real well that id w addresses"""
    idx = _real_index(ex, L, w).concrete_items()
    return L.fields["_volumes"].fn(_plain(idx[0]), _plain(idx[1]))


def _plain(x):
    return x.t if isinstance(x, Sym) else x


@spec
def arr_at(ex, arr, L, w):
    idx = _real_index(ex, L, w).concrete_items()
    return arr.fn(_plain(idx[0]), _plain(idx[1]))


@spec
def contrib_at(ex, cv, L, w):
    idx = _real_index(ex, L, w).concrete_items()
    return cv.at(idx[0], idx[1])


@spec
def bcast(ex, vols, i, wells):
    """volume paired with well i: element-wise, a single volume applies to every well"""
    v = colmajor(ex, vols)
    return _bcast(ex, v, i, ops.seq_len(colmajor(ex, wells)))


@spec
def not_aliased(ex, a, b):
    return a is not b


@spec
def last(ex, s):
    n = ops.seq_len(s)
    return ops.seq_get(ex, s, -1)


def _struct_same(v, o):
    """cheap structural identity of a value and its entry snapshot (no solver)"""
    from .values import Lit, MapV

    if v is o:
        return True
    if isinstance(v, MapV) and isinstance(o, MapV):
        if v.items is None and o.items is None:
            return v.dom is o.dom and v.fn is o.fn
        if v.items is not None and o.items is not None and len(v.items) == len(o.items):
            return all(_struct_same(k1, k2) and _struct_same(x1, x2) for (k1, x1), (k2, x2) in zip(v.items, o.items))
        return False
    if isinstance(v, SeqV) and isinstance(o, SeqV) and v.kind == o.kind and len(v.segs) == len(o.segs):
        for a, b in zip(v.segs, o.segs):
            if isinstance(a, Lit) and isinstance(b, Lit):
                if len(a.items) != len(b.items) or any(not _struct_same(x, y) and x is not y and not (type(x) in (int, str, bool, type(None)) and x == y) for x, y in zip(a.items, b.items)):
                    return False
            elif isinstance(a, Blk) and isinstance(b, Blk):
                if a.fn is not b.fn or not (a.n is b.n or (isinstance(a.n, int) and a.n == b.n) or (z3.is_expr(a.n) and z3.is_expr(b.n) and z3.eq(a.n, b.n))):
                    return False
            else:
                return False
        return True
    if isinstance(v, Arr2V) and isinstance(o, Arr2V):
        return v.fn is o.fn
    if isinstance(v, Sym) and isinstance(o, Sym):
        return z3.eq(v.t, o.t)
    if type(v) in (int, str, bool, float, type(None)) and type(o) == type(v):
        return v == o or (v != v and o != o)
    return False


# ----------------------------------------------------------------------------- constructor specs (C20)


@spec
def forall2(ex, R, C, f):
    i, j = z3.Int(ex.p.fresh_name("fr")), z3.Int(ex.p.fresh_name("fc"))
    body = zbool(ex.truth(_call(ex, f, Sym(i, "int"), Sym(j, "int"))))
    return mk_bool(z3.ForAll([i, j], z3.Implies(z3.And(i >= 0, i < term(R, "int"), j >= 0, j < term(C, "int")), body)))


@spec
def is_finite(ex, v):
    if isinstance(v, float):
        return not ops.special_float(v)
    return True


@spec
def iv_count_ok(ex, iv, rows, columns):
    """the initial volumes are absent, a scalar, or exactly rows*columns values"""
    if iv is None or num_kind(iv) or isinstance(iv, lib.Arr0V):
        return True
    if isinstance(iv, SeqV):
        n = ops.seq_len(iv)
        return ops.compare(ex, "==", n if isinstance(n, int) else Sym(n, "int"), ops.binop(ex, "*", rows, columns))
    if isinstance(iv, Arr2V):
        return ops.compare(ex, "==", ops.binop(ex, "*", lib._symint(iv.rows), lib._symint(iv.cols)), ops.binop(ex, "*", rows, columns))
    return False


@spec
def init_vols(ex, iv, rows, columns):
    """the initial volumes as a rows x columns grid: 0 if absent, a scalar broadcast, otherwise the values in row-major order"""
    R = rows if isinstance(rows, int) else term(rows, "int")
    Cn = columns if isinstance(columns, int) else term(columns, "int")
    if iv is None:
        return Arr2V(R, Cn, lambda r, c: 0)
    if isinstance(iv, lib.Arr0V):
        iv = iv.v
    if num_kind(iv) or isinstance(iv, float):
        return Arr2V(R, Cn, lambda r, c: iv)
    if isinstance(iv, SeqV):
        src = iv.copy()
        return Arr2V(R, Cn, lambda r, c: ops.seq_get(ex, src, mk_num(term(r, "int") * term(columns, "int") + term(c, "int"), "int")))
    if isinstance(iv, Arr2V) and ops._same_dim(ex, R, iv.rows) and ops._same_dim(ex, Cn, iv.cols):
        return iv.copy()
    if isinstance(iv, Arr2V):
        flat = lib.flatten(ex, iv, "C")
        return Arr2V(R, Cn, lambda r, c: ops.seq_get(ex, flat, mk_num(term(r, "int") * term(columns, "int") + term(c, "int"), "int")))
    raise Unsupported("init_vols of this value")


_INITCOMP = {}


@spec
def initial_composition(ex, name, real_wells, component_names, initial_volumes):
    """(opaque here) the composition dictionary of get_initial_composition - specified by its own contract (C05)"""
    from .values import Obj

    return Obj("InitialComposition", {"args": (name, real_wells, component_names, initial_volumes)})


@spec
def bad_component_names(ex, real_wells, component_names, initial_volumes):
    """names given for unknown or empty wells"""
    from .values import MapV

    if component_names is None or (isinstance(component_names, MapV) and component_names.is_concrete() and not component_names.items):
        return False
    raise Unsupported("component_names other than None/{} in this contract")


@spec
def shape_is(ex, a, rows, columns):
    return ops.and_(ex, ops.compare(ex, "==", lib._symint(a.rows), rows), ops.compare(ex, "==", lib._symint(a.cols), columns))


@spec
def is_arraylike(ex, v):
    return isinstance(v, (SeqV, Arr2V))


# ----------------------------------------------------------------------------- worklist operations (C01 / C03 / C07)


@spec
def device_pos(ex, wl, L, w):
    """device-specific well number: 1 + column_index*rows + row_index (EVO counts the virtual rows of a trough);
    on the Fluent a trough column is numbered 1 + column_index whatever the virtual row"""
    w = ops.to_abstract(w)
    nrows = lib.b_len(ex, L.fields["row_ids"])
    col = ops.binop(ex, "-", ops.lift_raw(w.c), 1)
    full = ops.binop(ex, "+", ops.binop(ex, "+", 1, ops.binop(ex, "*", col, nrows)), ops.lift_raw(w.r))
    if wl.cls == "FluentWorklist" and L.fields.get("virtual_rows") is not None:
        return ops.binop(ex, "+", 1, col)
    return full


@spec
def kw(ex, kwargs, name, default):
    """value of a pass-through keyword argument"""
    for k, v in kwargs.items:
        if k == name:
            return v
    return default


@spec
def ad_record(ex, kind, wl, L, w, v, kwargs):
    """the A / D record for moving volume v at well w of labware L with the given pass-through keyword arguments"""
    from .values import RecV, EnumV

    g = lambda n, d: kw(ex, kwargs, n, d)  # noqa: E731
    tip = g("tip", EnumV("Tip", -1, "Any"))
    return RecV(kind, [L.fields["name"], g("rack_id", ""), g("rack_type", ""), fmt_int(ex, device_pos(ex, wl, L, w)), g("tube_id", ""),
                       fmt_volume(ex, lib.to_float(ex, v)), g("liquid_class", ""), "", tip_field(ex, tip), g("forced_rack_type", "")])


@spec
def comment_records(ex, label):
    """records a (single-line) label contributes"""
    if label is None or (isinstance(label, str) and label == ""):
        return SeqV("list")
    st = lib.str_method(ex, label, "strip", [], {}) if not isinstance(label, str) else label.strip()
    rec = lib.join_str_parts(ex, ["C;", st])
    c = ops.compare(ex, "==", st, "")
    if isinstance(c, bool):
        return SeqV("list") if c else SeqV.of("list", [rec])
    return ops.ite(ex, unwrap_bool(c), SeqV("list"), SeqV.of("list", [rec]))


@spec
def is_prefix(ex, a, b):
    """sequence a is a prefix of sequence b"""
    na, nb = ops.seq_len(a), ops.seq_len(b)
    i = z3.Int(ex.p.fresh_name("pf"))
    e = zbool(unwrap_bool(ops.equals(ex, ops.seq_get(ex, a, Sym(i, "int")), ops.seq_get(ex, b, Sym(i, "int")))))
    return mk_bool(z3.And(term(na, "int") <= term(nb, "int"), z3.ForAll([i], z3.Implies(z3.And(i >= 0, i < term(na, "int")), e))))


@spec
def arr_copy(ex, a):
    return a.copy()


@spec
def concat_if(ex, n, cond, f):
    """[f(i) for i in range(n) if cond(i)] for a concrete n (conditions may be symbolic)"""
    if not isinstance(n, int):
        raise Unsupported("concat_if over a symbolic range")
    out = SeqV("list")
    for i in range(n):
        c = ex.truth(_call(ex, cond, i))
        item = SeqV.of("list", [_call(ex, f, i)])
        if isinstance(c, bool):
            if c:
                out = ops.seq_concat(ex, out, item)
        else:
            out = ops.seq_concat(ex, out, ops.ite(ex, c, item, SeqV("list")))
    return out


# ----------------------------------------------------------------------------- EVO script commands (C13)


@spec
def two_columns_selected(ex, sel):
    """the selection array marks wells in at least two different columns"""
    i1, j1, i2, j2 = (z3.Int(ex.p.fresh_name(n)) for n in ("si", "sj", "ti", "tj"))
    R, Cn = term(sel.rows, "int"), term(sel.cols, "int")

    def pos(i, j):
        return zbool(unwrap_bool(ops.compare(ex, ">", sel.fn(i, j), 0)))

    return mk_bool(z3.Exists([i1, j1, i2, j2], z3.And(i1 >= 0, i1 < R, i2 >= 0, i2 < R, j1 >= 0, j1 < Cn, j2 >= 0, j2 < Cn, j1 != j2,
                                                      pos(i1, j1), pos(i2, j2))))


@spec
def strictly_ascending(ex, xs):
    items = xs.concrete_items()
    r = True
    for p, q in zip(items, items[1:]):
        r = ops.and_(ex, r, ops.compare(ex, "<", tip_bit(ex, p) if not isinstance(p, WellV) else p, tip_bit(ex, q) if not isinstance(q, WellV) else q))
    return r


@spec
def selection_call(ex):
    """ghost: the (rows, cols, selected, result) of the evo_get_selection call made on this path"""
    ev = [e for e in ex.events if e[0] == "evo_get_selection"]
    if len(ev) != 1:
        raise Unsupported("selection_call(): expected exactly one evo_get_selection call on this path")
    return ev[0][1]


@spec
def selection_string(ex):
    """ghost: the string returned by the evo_get_selection call made on this path"""
    return selection_call(ex)["result"]


@spec
def selection_matches(ex, n_rows, n_columns, wells):
    """evo_get_selection was called with the labware dimensions and the 0/1 array of exactly the given wells"""
    ev = selection_call(ex)
    ws = colmajor(ex, wells).concrete_items()
    sel = ev["selected"]
    i, j = z3.Int(ex.p.fresh_name("mi")), z3.Int(ex.p.fresh_name("mj"))
    member = z3.Or(*[z3.And(term(ops.to_abstract(w).r, "int") == i, term(ops.to_abstract(w).c, "int") == j + 1) for w in ws]) if ws else z3.BoolVal(False)
    cell = sel.fn(i, j)
    is1 = zbool(unwrap_bool(ops.compare(ex, "==", cell, 1)))
    is0 = zbool(unwrap_bool(ops.compare(ex, "==", cell, 0)))
    rng = z3.And(i >= 0, i < term(n_rows, "int"), j >= 0, j < term(n_columns, "int"))
    return mk_bool(z3.And(term(ev["rows"], "int") == term(n_rows, "int"), term(ev["cols"], "int") == term(n_columns, "int"),
                          term(sel.rows, "int") == term(n_rows, "int"), term(sel.cols, "int") == term(n_columns, "int"),
                          z3.ForAll([i, j], z3.Implies(rng, z3.If(member, is1, is0)))))


@spec
def evo_cmd(ex, kind, wells, labware_position, volume, liquid_class, tips, arm, selstr):
    """the EVOware script command: tip mask, liquid class, eight volume slots (slot t belongs to tip t), grid, zero-based site,
    selection string, arm - built from the arguments by EVOware's rule"""
    from .values import RecV

    tl = tips.concrete_items()
    n = len(tl)
    if isinstance(volume, SeqV):
        vols = volume.concrete_items()
    else:
        vols = [volume] * n
    pos = labware_position.concrete_items()
    mask = tipmask(ex, tips)
    fields = [lib.join_str_parts(ex, ['"', liquid_class, '"'])]
    for t in range(1, 9):
        bit = 2 ** (t - 1)
        slot = "0"
        for tp, v in reversed(list(zip(tl, vols))):
            vr = lib.np_round(ex, lib.to_float(ex, v) if not ops.is_intlike(v) else v, 2)
            quoted = lib.join_str_parts(ex, ['"', lib.format_value(ex, vr, ""), '"'])
            c = ops.compare(ex, "==", tip_bit(ex, tp), bit)
            if isinstance(c, bool):
                slot = quoted if c else slot
            else:
                slot = Sym(z3.If(unwrap_bool(c), term(quoted), term(slot)), "str")
        fields.append(slot)
    fields += ["0", "0", "0", "0", lib.format_value(ex, pos[0], ""), lib.format_value(ex, ops.binop(ex, "-", pos[1], 1), ""), "1",
               lib.join_str_parts(ex, ['"', selstr, '"']), "0", lib.join_str_parts(ex, [lib.format_value(ex, arm, ""), ");"])]
    first = lib.join_str_parts(ex, [f"B;{kind}(", lib.format_value(ex, mask, "")])
    return RecV(first, fields, ",")


@spec
def well_in_grid(ex, w, rows, cols):
    w = ops.to_abstract(w)
    return mk_bool(z3.And(term(w.r, "int") >= 0, term(w.r, "int") < term(rows, "int"), term(w.c, "int") >= 1, term(w.c, "int") <= term(cols, "int")))


@spec
def well_col(ex, w):
    w = ops.to_abstract(w)
    return ops.lift_raw(w.c)


# ----------------------------------------------------------------------------- R records (distribute)


def _as_rec(rec):
    from .values import RecV

    if not isinstance(rec, RecV) or rec.kind != "R":
        raise Unsupported("expected a spec-level R record (reagent_distribution contract)")
    return rec


@spec
def self_is_evo(ex, wl):
    return wl.cls == "EvoWorklist"


@spec
def implies_host(ex, a, b):
    if isinstance(a, bool) and not a:
        return True
    return implies(ex, a, b)


@spec
def r_header_matches(ex, rec, src_name, dst_name, volume, liquid_class):
    """the R record names the two racks, the per-well volume and the liquid class it was given"""
    r = _as_rec(rec)
    f = r.fields
    return mk_bool(z3.And(ops.field_equal(term(f[0]), term(src_name)), ops.field_equal(term(f[5]), term(dst_name)),
                          ops.field_equal(term(f[10]), term(lib.format_value(ex, volume, ""))), ops.field_equal(term(f[11]), term(liquid_class))))


@spec
def r_source_range(ex, rec, lo, hi):
    r = _as_rec(rec)
    return mk_bool(z3.And(ops.field_equal(term(r.fields[3]), term(fmt_int(ex, lo))), ops.field_equal(term(r.fields[4]), term(fmt_int(ex, hi)))))


@spec
def r_destinations_match(ex, rec, positions):
    """decoding the R record (destination range minus the exclusion list) yields exactly the given set of positions"""
    r = _as_rec(rec)
    ps = positions.concrete_items()
    lo, hi = r.fields[8], r.fields[9]
    excl = r.tail if r.tail is not None else SeqV("list")
    ne = ops.seq_len(excl)
    p = z3.Int(ex.p.fresh_name("rp"))
    j = z3.Int(ex.p.fresh_name("rj"))
    # fields are istr(..) terms: read the numbers back through the injective printer
    def num(f):
        t = term(f)
        if z3.is_app(t) and t.decl().kind() == z3.Z3_OP_UNINTERPRETED and t.decl().name() == "istr":
            return t.children()[0]
        if z3.is_string_value(t) and t.as_string().lstrip("-").isdigit():
            return z3.IntVal(int(t.as_string()))
        raise Unsupported("R record field is not a printed integer")

    lo_t, hi_t = num(lo), num(hi)
    if isinstance(ne, int) and ne == 0:
        excluded = z3.BoolVal(False)
    else:
        ej = ops.seq_get(ex, excl, Sym(j, "int"))
        excluded = z3.Exists([j], z3.And(j >= 0, j < term(ne, "int"), num(ej) == p))
    requested = z3.Or(*[term(x, "int") == p for x in ps])
    return mk_bool(z3.ForAll([p], z3.And(lo_t <= p, p <= hi_t, z3.Not(excluded)) == requested))


# ----------------------------------------------------------------------------- transfer (C07)


@spec
def transfer_order(ex, source, destination, source_wells, destination_wells, partition_by):
    """order in which the triples are processed: grouped by the column of the partitioning side (ascending), rows ascending
    within a column, ties in the order given.  Partitioning side: destination iff (auto and source is a trough and the
    destination is not) or explicitly 'destination'."""
    sw = colmajor(ex, source_wells).concrete_items()
    dw = colmajor(ex, destination_wells).concrete_items()
    src_trough = source.fields.get("virtual_rows") is not None
    dst_trough = destination.fields.get("virtual_rows") is not None
    by_dst = partition_by == "destination" or (partition_by == "auto" and src_trough and not dst_trough)
    keys = [ops.to_abstract(w) for w in (dw if by_dst else sw)]
    n = len(keys)
    if n == 1:
        return SeqV.of("list", [0])
    if n == 2:
        a, b = keys
        # (column, row) lexicographic, stable
        lt = z3.Or(term(b.c, "int") < term(a.c, "int"), z3.And(term(b.c, "int") == term(a.c, "int"), term(b.r, "int") < term(a.r, "int")))
        return ops.ite(ex, z3.simplify(lt), SeqV.of("list", [1, 0]), SeqV.of("list", [0, 1]))
    raise Unsupported("transfer_order for more than two triples")


@spec
def concat_blocks(ex, order, cond, f):
    """concatenation of f(o) over the indices o of `order` for which cond(o) holds"""
    n = ops.seq_len(order)
    out = SeqV("list")
    for k in range(n):
        o = ops.seq_get(ex, order, k)
        c = ex.truth(_call(ex, cond, o))
        item = _call(ex, f, o)
        if isinstance(c, bool):
            if c:
                out = ops.seq_concat(ex, out, item)
        else:
            out = ops.seq_concat(ex, out, ops.ite(ex, c, item, SeqV("list")))
    return out


@spec
def tip_action(ex, wl, wash_scheme):
    """record(s) of the requested tip action: W1-W4 ('W;' in DiTi mode), 'F;' for flush, nothing for reuse"""
    if wash_scheme == "flush":
        return SeqV.of("list", ["F;"])
    if wash_scheme == "reuse":
        return SeqV("list")
    if wl.fields.get("diti_mode"):
        return SeqV.of("list", ["W;"])
    return SeqV.of("list", [lib.join_str_parts(ex, ["W", lib.format_value(ex, wash_scheme, ""), ";"])])


# ----------------------------------------------------------------------------- transforms (C15)


@spec
def well_row(ex, w):
    w = ops.to_abstract(w)
    return ops.lift_raw(w.r)


@spec
def rowmajor(ex, a):
    """elements in row-major (C) order: what ndarray.flatten() yields"""
    if isinstance(a, Arr2V):
        return lib.flatten(ex, a, "C").copy("list")
    if isinstance(a, SeqV):
        return a.copy("list")
    if isinstance(a, lib.Arr0V):
        return SeqV.of("list", [a.v])
    return SeqV.of("list", [a])


@spec
def same_shape(ex, res, arg):
    """the result array has the shape of numpy.array(arg)"""
    def shape(v):
        if isinstance(v, Arr2V):
            return (lib._symint(v.rows), lib._symint(v.cols))
        if isinstance(v, SeqV):
            n = ops.seq_len(v)
            return (n if isinstance(n, int) else Sym(n, "int"),)
        return ()

    sa, sb = shape(res), shape(arg)
    if len(sa) != len(sb):
        return False
    r = True
    for x, y in zip(sa, sb):
        r = ops.and_(ex, r, ops.compare(ex, "==", x, y))
    return r


NS["wid"] = NS["well"]  # alias usable where the code under verification has a local called `well`


# ----------------------------------------------------------------------------- column partitioning (C18)


def _groups(ex, result):
    out = []
    for g in result.concrete_items():
        parts = g.concrete_items()
        if len(parts) != 3:
            raise Unsupported("group is not a (sources, destinations, volumes) triple")
        out.append([p.concrete_items() for p in parts])
    return out


def _eqz(ex, a, b):
    return zbool(unwrap_bool(ops.equals(ex, a, b)))


@spec
def groups_keep_triples(ex, result, sources, destinations, volumes):
    """the groups together contain exactly the input triples (as a multiset; the three lists of a group stay aligned)"""
    gs = _groups(ex, result)
    out = []
    for s, d, v in gs:
        if not (len(s) == len(d) == len(v)):
            return False
        out.extend(zip(s, d, v))
    ins = list(zip(sources.concrete_items(), destinations.concrete_items(), volumes.concrete_items()))
    if len(out) != len(ins):
        return False
    conj = []
    for t in ins:
        cnt_in = sum(z3.If(z3.And(_eqz(ex, t[0], u[0]), _eqz(ex, t[1], u[1]), _eqz(ex, t[2], u[2])), 1, 0) for u in ins)
        cnt_out = sum(z3.If(z3.And(_eqz(ex, t[0], u[0]), _eqz(ex, t[1], u[1]), _eqz(ex, t[2], u[2])), 1, 0) for u in out)
        conj.append(cnt_in == cnt_out)
    return mk_bool(z3.And(*conj)) if conj else True


def _side(pb):
    return 1 if pb == "destination" else 0


@spec
def groups_single_column(ex, result, partition_by):
    k = _side(partition_by)
    conj = []
    for g in _groups(ex, result):
        ws = [ops.to_abstract(x) for x in g[k]]
        conj += [term(a.c, "int") == term(ws[0].c, "int") for a in ws[1:]]
    return mk_bool(z3.And(*conj)) if conj else True


@spec
def groups_columns_ascending(ex, result, partition_by):
    k = _side(partition_by)
    gs = _groups(ex, result)
    firsts = [ops.to_abstract(g[k][0]) for g in gs if g[k]]
    if len(firsts) != len(gs):
        return False  # an empty group
    conj = [term(a.c, "int") < term(b.c, "int") for a, b in zip(firsts, firsts[1:])]
    return mk_bool(z3.And(*conj)) if conj else True


@spec
def groups_rows_ascending(ex, result, partition_by):
    k = _side(partition_by)
    conj = []
    for g in _groups(ex, result):
        ws = [ops.to_abstract(x) for x in g[k]]
        conj += [term(a.r, "int") <= term(b.r, "int") for a, b in zip(ws, ws[1:])]
    return mk_bool(z3.And(*conj)) if conj else True


# ----------------------------------------------------------------------------- composition (C05)


def _frac_of(ex, m, key):
    """fraction of component `key` in composition dict m (0 if absent) as a z3 real term"""
    t = z3.RealVal(0)
    for k, f in m.items:
        e = zbool(unwrap_bool(ops.equals(ex, k, key)))
        t = z3.If(e, term(f, "real"), t)
    return t


@spec
def mixing_ok(ex, result, vA, cA, vB, cB):
    """result has exactly the components of A and B, each with the volume-weighted mean fraction"""
    keys = [k for k, _ in cA.items] + [k for k, _ in cB.items]
    tot = term(vA, "real") + term(vB, "real")
    conj = []
    for key in keys:
        want = (term(vA, "real") * _frac_of(ex, cA, key) + term(vB, "real") * _frac_of(ex, cB, key)) / tot
        present = z3.Or(*[zbool(unwrap_bool(ops.equals(ex, k, key))) for k, _ in result.items]) if result.items else z3.BoolVal(False)
        conj.append(z3.And(present, _frac_of(ex, result, key) == want))
    for k, _ in result.items:  # nothing else
        conj.append(z3.Or(*[zbool(unwrap_bool(ops.equals(ex, k, key))) for key in keys]) if keys else z3.BoolVal(False))
    # result keys are pairwise distinct (it is a dict)
    return mk_bool(z3.And(*conj)) if conj else True


@spec
def comp_sum(ex, m):
    if m is None:
        return 0
    t = z3.RealVal(0)
    for _, f in m.items:
        t = t + term(f, "real")
    return mk_num(t, "real")


@spec
def comp_all(ex, m, pred):
    r = True
    for _, f in m.items:
        r = ops.and_(ex, r, ex.truth(_call(ex, pred, f)) if not isinstance(ex.truth(_call(ex, pred, f)), bool) else ex.truth(_call(ex, pred, f)))
    return r


def _lw_frac(ex, L, key, r, c):
    """fraction of component `key` at real well (r, c) of labware L (0 if L has no such component)"""
    t = z3.RealVal(0)
    for k, arr in L.fields["_composition"].items:
        e = zbool(unwrap_bool(ops.equals(ex, k, key)))
        t = z3.If(e, term(arr.fn(r, c), "real"), t)
    return t


@spec
def composition_after_add_ok(ex, L, old, well, volume, comp):
    """at the addressed real well every component of (old composition + incoming liquid) has the ideal mixture fraction
    (v_old*f_old + v*f_in)/(v_old + v); fractions add up to 1; nothing changes when the well stays empty"""
    idx = _real_index(ex, old, well).concrete_items()
    r, c = _plain(idx[0]), _plain(idx[1])
    v_old = term(old.fields["_volumes"].fn(r, c), "real")
    v = term(volume, "real")
    keys = [k for k, _ in old.fields["_composition"].items] + [k for k, _ in comp.items]
    conj = []
    total = z3.RealVal(0)
    for key in keys:
        want = (v_old * _lw_frac(ex, old, key, r, c) + v * _frac_of(ex, comp, key)) / (v_old + v)
        conj.append(z3.If(v_old + v > 0, _lw_frac(ex, L, key, r, c) == want, _lw_frac(ex, L, key, r, c) == _lw_frac(ex, old, key, r, c)))
    seen = []
    for k, arr in L.fields["_composition"].items:
        total = total + term(arr.fn(r, c), "real")
    incoming = z3.RealVal(0)
    for _, f in comp.items:
        incoming = incoming + term(f, "real")
    # (a liquid without tracked components dilutes: the fractions then add up to less than 1)
    conj.append(z3.Implies(z3.And(v_old + v > 0, z3.Or(v_old == 0, _sum_old(ex, old, r, c) == 1), z3.Or(v == 0, incoming == 1)), total == 1))
    return mk_bool(z3.And(*conj))


def _sum_old(ex, old, r, c):
    t = z3.RealVal(0)
    for _, arr in old.fields["_composition"].items:
        t = t + term(arr.fn(r, c), "real")
    return t


@spec
def composition_frame_ok(ex, L, old, well):
    """no fraction of any other real well changed (and no component appeared there); with well=None: nothing changed at all"""
    i, j = z3.Int(ex.p.fresh_name("cr")), z3.Int(ex.p.fresh_name("cc"))
    vols = old.fields["_volumes"]
    rng = z3.And(i >= 0, i < term(vols.rows, "int"), j >= 0, j < term(vols.cols, "int"))
    if well is not None:
        idx = _real_index(ex, old, well).concrete_items()
        rng = z3.And(rng, z3.Not(z3.And(i == term(idx[0], "int"), j == term(idx[1], "int"))))
    keys = [k for k, _ in L.fields["_composition"].items] + [k for k, _ in old.fields["_composition"].items]
    conj = [_lw_frac(ex, L, key, i, j) == _lw_frac(ex, old, key, i, j) for key in keys]
    return mk_bool(z3.ForAll([i, j], z3.Implies(rng, z3.And(*conj))))


@spec
def well_composition_ok(ex, result, L, well):
    """None for unknown composition; otherwise exactly the components with a positive fraction at the well, with that fraction"""
    if L.fields["_composition"] is None:
        return result is None
    if result is None:
        return False
    idx = _real_index(ex, L, well).concrete_items()
    r, c = _plain(idx[0]), _plain(idx[1])
    conj = []
    for k, arr in L.fields["_composition"].items:
        f = term(arr.fn(r, c), "real")
        present = z3.Or(*[zbool(unwrap_bool(ops.equals(ex, k2, k))) for k2, _ in result.items]) if result.items else z3.BoolVal(False)
        conj.append(present == (f > 0))
        conj.append(z3.Implies(f > 0, _frac_of(ex, result, k) == f))
    for k2, _ in result.items:
        conj.append(z3.Or(*[zbool(unwrap_bool(ops.equals(ex, k2, k))) for k, _ in L.fields["_composition"].items]))
    return mk_bool(z3.And(*conj))


_EVOSEL = {}


@spec
def evo_sel_spec(ex, n_rows, n_columns, wells):
    """the selection string evo_get_selection yields for the 0/1 array of exactly these wells (meaning fixed by the C12 contract)"""
    ws = [ops.to_abstract(w) for w in colmajor(ex, wells).concrete_items()]
    n = len(ws)
    if n not in _EVOSEL:
        _EVOSEL[n] = z3.Function(f"evo_selection_{n}", *([z3.IntSort()] * (2 + 2 * n)), z3.StringSort())
    args = [term(n_rows, "int"), term(n_columns, "int")]
    for w in ws:
        args += [term(w.r, "int"), term(w.c, "int")]
    s = _EVOSEL[n](*args)
    ex.p.assume(z3.And(z3.Not(z3.Contains(s, z3.StringVal(","))), z3.Not(z3.Contains(s, z3.StringVal(";")))))
    return Sym(s, "str")


@spec
def define_selection(ex, n_rows, n_columns, wells):
    """obligation: evo_get_selection was called with the labware dimensions and the array of exactly these wells;
    then (by definition of evo_sel_spec and determinism of evo_get_selection) its result is evo_sel_spec(...)"""
    ok = selection_matches(ex, n_rows, n_columns, wells)
    ex.p.check("selection-arguments (inside define_selection)", zbool(unwrap_bool(ok)), {"kind": "ensures", "text": "selection_matches(n_rows, n_columns, wells)"})
    ex.p.assume(zbool(unwrap_bool(ok)))
    ex.p.assume(term(selection_string(ex)) == term(evo_sel_spec(ex, n_rows, n_columns, wells)))
    return True


@spec
def evo_wash_cmd(ex, tips, waste_location, cleaner_location, arm, waste_vol, waste_delay, cleaner_vol, cleaner_delay, airgap, airgap_speed,
                 retract_speed, fastwash, low_volume):
    """the EVOware Wash command with its 16 parameters in the documented order (sites zero-based, volumes to one decimal)"""
    from .values import RecV

    wl, cl = waste_location.concrete_items(), cleaner_location.concrete_items()
    fm = lambda v: lib.format_value(ex, v, "")  # noqa: E731
    q = lambda v: lib.join_str_parts(ex, ['"', fm(lib.np_round(ex, v, 1)), '"'])  # noqa: E731
    first = lib.join_str_parts(ex, ["B;Wash(", fm(tipmask(ex, tips))])
    fields = [fm(wl[0]), fm(ops.binop(ex, "-", wl[1], 1)), fm(cl[0]), fm(ops.binop(ex, "-", cl[1], 1)), q(waste_vol), fm(waste_delay), q(cleaner_vol),
              fm(cleaner_delay), fm(airgap), fm(airgap_speed), fm(retract_speed), fm(fastwash), fm(low_volume), "1000",
              lib.join_str_parts(ex, [fm(arm), ");"])]
    return RecV(first, fields, ",")


@spec
def tips_distinct(ex, tips):
    items = tips.concrete_items()
    r = True
    for i, p in enumerate(items):
        for q in items[:i]:
            r = ops.and_(ex, r, ops.compare(ex, "!=", tip_bit(ex, p), tip_bit(ex, q)))
    return r


# ----------------------------------------------------------------------------- records of the positive pairs (aspirate / dispense of any length)


def _posfilter(ex, volumes):
    """ghost functions for 'the pairs with a positive volume': CNT(k) = number of positive volumes among the first k,
    SEL(j) = index of the j-th positive volume.  Defined by CNT(0)=0, CNT(k+1)=CNT(k)+[v_k>0], SEL(CNT(k))=k if v_k>0."""
    j = z3.Int("pf_j")
    vj = ops.seq_get(ex, volumes, Sym(j, "int"))
    key = "posfilter:" + term(vj, "real").sexpr()
    reg = ex.p.ghost.setdefault("posfilter", {})
    if key not in reg:
        CNT = z3.Function(f"poscount{len(reg)}", z3.IntSort(), z3.IntSort())
        SEL = z3.Function(f"possel{len(reg)}", z3.IntSort(), z3.IntSort())
        ex.p.assume(CNT(0) == 0)
        reg[key] = (CNT, SEL, term(vj, "real"), j)
    return reg[key]


@spec
def pos_unfold(ex, volumes, k):
    """definitional instances at k (sound: they are the definition of the two ghost functions) + the lemma 0 <= CNT(k) <= k"""
    CNT, SEL, vj, j = _posfilter(ex, volumes)
    kt = term(k, "int")
    vk = z3.substitute(vj, (j, kt))
    ex.p.assume(z3.Implies(kt >= 0, z3.And(CNT(kt + 1) == CNT(kt) + z3.If(vk > 0, 1, 0), z3.Implies(vk > 0, SEL(CNT(kt)) == kt),
                                           CNT(kt) >= 0, CNT(kt) <= kt)))
    return True


@spec
def pos_mono(ex, volumes, k, n):
    """lemma instance: k <= n implies CNT(k) <= CNT(n)   (proved by induction: lemma C01/poscount-monotone)"""
    CNT, SEL, vj, j = _posfilter(ex, volumes)
    kt, nt = term(k, "int"), term(n, "int")
    ex.p.assume(z3.Implies(z3.And(0 <= kt, kt <= nt), z3.And(CNT(kt) <= CNT(nt), CNT(kt) >= 0)))
    return True


@spec
def pair_records(ex, kind, wl, L, wells, volumes, kwargs, k):
    """the A / D records of the pairs i < k with a positive volume, in order"""
    w = colmajor(ex, wells)
    n = ops.seq_len(w)
    if isinstance(k, int) and w.is_concrete_len():
        vols = colmajor(ex, volumes)
        out = SeqV("list")
        for i in range(k):
            v = _bcast(ex, vols, i, n)
            c = ex.truth(ops.compare(ex, ">", v, 0))
            item = SeqV.of("list", [ad_record(ex, kind, wl, L, ops.seq_get(ex, w, i), v, kwargs)])
            out = ops.seq_concat(ex, out, item if c is True else (SeqV("list") if c is False else ops.ite(ex, c, item, SeqV("list"))))
        return out
    vols = colmajor(ex, volumes)
    bv = SeqV("list", [Blk(term(n, "int"), lambda i: _bcast(ex, vols, i if isinstance(i, (int, Sym)) else Sym(i, "int"), n))])
    CNT, SEL, vj, j = _posfilter(ex, bv)
    kt = term(k, "int")

    def rec(jj):
        idx = Sym(SEL(term(jj, "int")), "int")
        return ad_record(ex, kind, wl, L, ops.seq_get(ex, w, idx), ops.seq_get(ex, bv, idx), kwargs)

    return SeqV("list", [Blk(CNT(kt), rec)])


@spec
def pos_mono_all(ex, wells, volumes):
    """lemma instances CNT(k) <= CNT(n) for the current loop index k (if inside the cut loop) and n = number of wells"""
    w = colmajor(ex, wells)
    n = ops.seq_len(w)
    if isinstance(n, int):
        return True
    vols = colmajor(ex, volumes)
    bv = SeqV("list", [Blk(term(n, "int"), lambda i: _bcast(ex, vols, i if isinstance(i, (int, Sym)) else Sym(i, "int"), n))])
    ks = ex.p.ghost.get("loop_k", [])
    pos_mono(ex, bv, 0, Sym(term(n, "int"), "int"))
    for k in ks[-1:]:
        pos_mono(ex, bv, k, Sym(term(n, "int"), "int"))
    CNT, SEL, vj, j = _posfilter(ex, bv)
    ex.p.assume(CNT(0) == 0)
    return True


# ----------------------------------------------------------------------------- get_initial_composition (C05 / C20)


def _gic_cells(ex, real_wells, component_names, initial_volumes):
    """[(r, c, well, volume-term, given-name or None)] over a concrete-shape well array"""
    from .values import MapV

    if not (isinstance(real_wells, Arr2V) and isinstance(real_wells.rows, int) and isinstance(real_wells.cols, int)):
        raise Unsupported("get_initial_composition spec: well array of symbolic shape")
    if not (isinstance(component_names, MapV) and component_names.is_concrete()):
        raise Unsupported("get_initial_composition spec: component_names must be a concrete-key dict")
    out = []
    for r in range(real_wells.rows):
        for c in range(real_wells.cols):
            w = real_wells.fn(r, c)
            given = None
            for k, v in component_names.items:
                e = ops.equals(ex, k, w)
                if not isinstance(e, bool):
                    raise Unsupported("get_initial_composition spec: symbolic component_names key")
                if e:
                    given = v
            out.append((r, c, w, term(initial_volumes.fn(r, c), "real"), given))
    return out


@spec
def gic_rejects(ex, real_wells, component_names, initial_volumes):
    """a name is given for a well that does not exist, or a (non-None) name is given for an empty well"""
    cells = _gic_cells(ex, real_wells, component_names, initial_volumes)
    bad = []
    for k, _ in component_names.items:
        if not any(ops.equals(ex, k, w) is True for (_, _, w, _, _) in cells):
            return True
    for (_, _, _, v, given) in cells:
        if given is not None:
            bad.append(v == 0)
    return mk_bool(z3.Or(*bad)) if bad else False


def _gic_expected(ex, name, real_wells, cell):
    """acceptable component names of a non-empty well"""
    r, c, w, v, given = cell
    if given is not None:
        return [given]
    dotted = lib.join_str_parts(ex, [lib.format_value(ex, name, "", -1), ".", lib.format_value(ex, w, "", -1)])
    if real_wells.rows > 1:
        return [dotted]
    if real_wells.cols == 1:
        return [name]
    return [name, dotted]  # single-row, multi-column plates: the property does not fix the default


@spec
def gic_ok(ex, result, name, real_wells, component_names, initial_volumes):
    """every non-empty well consists 100 % of its expected component (given name, else `<labware>.<well>` on multi-row
    labware, else the labware name) and 0 % of every other; empty wells contain nothing; there are no other components;
    every component array has the shape of the well array"""
    cells = _gic_cells(ex, real_wells, component_names, initial_volumes)
    conj = []
    for k, arr in result.items:
        if not isinstance(arr, Arr2V):
            return False
        conj.append(zbool(unwrap_bool(ops.and_(ex, ops.compare(ex, "==", lib._symint(arr.rows), real_wells.rows),
                                               ops.compare(ex, "==", lib._symint(arr.cols), real_wells.cols)))))

    def accepted(k, cell):
        return z3.Or(*[zbool(unwrap_bool(ops.equals(ex, k, a))) for a in _gic_expected(ex, name, real_wells, cell)])

    for cell in cells:
        r, c, w, v, given = cell
        acc = [accepted(k, cell) for k, _ in result.items]
        frac = [term(arr.fn(r, c), "real") for _, arr in result.items]
        filled = z3.And(z3.Sum(*frac) == 1 if len(frac) > 1 else (frac[0] == 1 if frac else z3.BoolVal(False)),
                        *[z3.Or(f == 0, z3.And(f == 1, a)) for a, f in zip(acc, frac)])
        empty = z3.And(*[f == 0 for f in frac]) if frac else z3.BoolVal(True)
        conj.append(z3.If(v == 0, empty, filled))
    for i, (k, _) in enumerate(result.items):  # no component without a non-empty well that consists of it
        conj.append(z3.Or(*[z3.And(cell[3] != 0, term(result.items[i][1].fn(cell[0], cell[1]), "real") == 1) for cell in cells]))
    ks = [k for k, _ in result.items]
    for i in range(len(ks)):  # keys of a dict are pairwise different
        for j in range(i):
            conj.append(z3.Not(zbool(unwrap_bool(ops.equals(ex, ks[i], ks[j])))))
    return mk_bool(z3.And(*conj)) if conj else True


# ----------------------------------------------------------------------------- get_trough_component_names (C05 / C20)


@spec
def gtcn_rejects(ex, columns, column_names, initial_volumes):
    """wrong number of names or volumes, or a name for an empty column"""
    names, vols = column_names.concrete_items(), initial_volumes.concrete_items()
    if len(names) != columns or len(vols) != columns:
        return True
    bad = [term(v, "real") == 0 for n, v in zip(names, vols) if n is not None]
    return mk_bool(z3.Or(*bad)) if bad else False


@spec
def gtcn_ok(ex, result, name, columns, column_names, initial_volumes):
    """keys are exactly the row-A well ids of the columns, in order; a filled column carries its given name, else
    `<trough>.column_NN` (1-based, two digits) on a multi-column trough, else the trough's name; an empty column None"""
    names, vols = column_names.concrete_items(), initial_volumes.concrete_items()
    if len(result.items) != columns:
        return False
    conj = []
    for c, ((k, val), given, v) in enumerate(zip(result.items, names, vols)):
        ke = ops.equals(ex, k, WellV(0, c + 1))
        if ke is not True:
            return False
        if given is not None:
            want = given
        elif columns > 1:
            want = lib.join_str_parts(ex, [lib.format_value(ex, name, "", -1), f".column_{c + 1:02d}"])
        else:
            want = name
        filled = term(v, "real") > 0
        if val is None:
            conj.append(z3.Not(filled) if given is None else z3.BoolVal(False))
        else:
            e = ops.equals(ex, val, want)
            conj.append(z3.And(filled if given is None else z3.BoolVal(True), zbool(unwrap_bool(e))))
    return mk_bool(z3.And(*conj)) if conj else True


# ----------------------------------------------------------------------------- Trough constructor (C20 / C05)


def _trough_cols(ex, columns, column_names, initial_volumes):
    """[(given name or None, volume term)] per column; None if the argument shapes do not describe `columns` columns"""
    if column_names is None:
        names = [None] * columns
    elif isinstance(column_names, (str, Sym)):
        names = [column_names]
    else:
        names = column_names.concrete_items()
    if isinstance(initial_volumes, SeqV):
        vols = initial_volumes.concrete_items()
    else:
        vols = [initial_volumes] * columns
    if len(names) != columns or len(vols) != columns:
        return None
    return list(zip(names, [term(v, "real") for v in vols]))


@spec
def trough_args_ok(ex, columns, column_names, initial_volumes, max_volume):
    """one name slot and one finite volume in [0, max_volume] per column, names only for filled columns"""
    cols = _trough_cols(ex, columns, column_names, initial_volumes)
    if cols is None:
        return False
    conj = []
    for given, v in cols:
        conj.append(z3.And(v >= 0, v <= term(max_volume, "real")))
        if given is not None:
            conj.append(v != 0)
    return mk_bool(z3.And(*conj)) if conj else True


@spec
def trough_volumes_ok(ex, L, columns, initial_volumes):
    cols = _trough_cols(ex, columns, None, initial_volumes)
    vols = L.fields["_volumes"]
    if cols is None or not isinstance(vols, Arr2V):
        return False
    shape = ops.and_(ex, ops.compare(ex, "==", lib._symint(vols.rows), 1), ops.compare(ex, "==", lib._symint(vols.cols), columns))
    conj = [zbool(unwrap_bool(shape))] + [term(vols.fn(0, c), "real") == v for c, (_, v) in enumerate(cols)]
    return mk_bool(z3.And(*conj))


@spec
def trough_composition_ok(ex, L, name, columns, column_names, initial_volumes):
    """every filled column consists 100 % of its component (given name, else `<trough>.column_NN` on a multi-column
    trough, else the trough's name), empty columns of nothing, and there is no other component"""
    cols = _trough_cols(ex, columns, column_names, initial_volumes)
    comp = L.fields.get("_composition")
    if cols is None or comp is None or not comp.is_concrete():
        return False
    conj = []
    wants = []
    for c, (given, v) in enumerate(cols):
        if given is not None:
            want = given
        elif columns > 1:
            want = lib.join_str_parts(ex, [lib.format_value(ex, name, "", -1), f".column_{c + 1:02d}"])
        else:
            want = name
        wants.append(want)
        is_want = [zbool(unwrap_bool(ops.equals(ex, k, want))) for k, _ in comp.items]
        frac = [term(arr.fn(0, c), "real") for _, arr in comp.items]
        filled = z3.And(z3.Or(*is_want) if is_want else z3.BoolVal(False), *[f == z3.If(e, z3.RealVal(1), z3.RealVal(0)) for e, f in zip(is_want, frac)])
        empty = z3.And(*[f == 0 for f in frac]) if frac else z3.BoolVal(True)
        conj.append(z3.If(v == 0, empty, filled))
    for k, arr in comp.items:
        if not isinstance(arr, Arr2V):
            return False
        conj.append(zbool(unwrap_bool(ops.and_(ex, ops.compare(ex, "==", lib._symint(arr.rows), 1), ops.compare(ex, "==", lib._symint(arr.cols), columns)))))
        conj.append(z3.Or(*[z3.And(v != 0, zbool(unwrap_bool(ops.equals(ex, k, w)))) for (_, v), w in zip(cols, wants)]))
    ks = [k for k, _ in comp.items]
    for i in range(len(ks)):
        for j in range(i):
            conj.append(z3.Not(zbool(unwrap_bool(ops.equals(ex, ks[i], ks[j])))))
    return mk_bool(z3.And(*conj)) if conj else True


# ----------------------------------------------------------------------------- well-array helpers of transform.py (C08 / C15)


@spec
def index_dict_ok(ex, d, R, C):
    """d maps exactly the ids well(r, c+1), r < R, c < C, to (r, c)"""
    i, j = z3.Int(ex.p.fresh_name("ir")), z3.Int(ex.p.fresh_name("ic"))
    w = WellV(i, j + 1)
    has = zbool(unwrap_bool(ops.map_has(ex, d, w)))
    ex.pure += 1
    try:
        val = ops.map_get(ex, d, w)
    finally:
        ex.pure -= 1
    items = val.concrete_items()
    inside = z3.And(i >= 0, i < term(R, "int"), j >= 0, j < term(C, "int"))
    hit = z3.And(term(items[0], "int") == i, term(items[1], "int") == j)
    return mk_bool(z3.ForAll([i, j], z3.And(z3.Implies(inside, z3.And(has, hit)),
                                              z3.Implies(z3.And(i >= 0, i < 26, j >= 0, z3.Not(inside)), z3.Not(has)))))


# ----------------------------------------------------------------------------- DilutionPlan (C14), concrete R x C


def _plan_parts(ex, P, R, C, vmax):
    """(instructions as [(c, dsteps, src, [v_r])], per-column vmax terms) or None if the object has another shape"""
    ins = P.fields.get("instructions")
    if not isinstance(ins, SeqV) or not ins.is_concrete_len():
        return None
    out = []
    for it in ins.concrete_items():
        if not isinstance(it, SeqV) or not it.is_concrete_len():
            return None
        parts = it.concrete_items()
        if len(parts) != 4 or not isinstance(parts[3], SeqV) or not parts[3].is_concrete_len():
            return None
        vs = parts[3].concrete_items()
        if len(vs) != R:
            return None
        out.append((parts[0], parts[1], parts[2], [term(v, "real") for v in vs]))
    if isinstance(vmax, SeqV):
        vm = [term(v, "real") for v in vmax.concrete_items()]
        if len(vm) == 1:
            vm = vm * C
    else:
        vm = [term(vmax, "real")] * C
    if len(vm) != C:
        return None
    return out, vm


def _plan_conc(parts, stock):
    """concentration of every well as implied by the instructions (exact arithmetic): conc[c][r]"""
    ins, vm = parts
    st = term(stock, "real")
    conc = {}
    for c, d, src, vs in ins:
        if isinstance(src, str):
            conc[c] = [v / vm[c] * st for v in vs]
        else:
            conc[c] = [v * conc[src][r] / vm[c] for r, v in enumerate(vs)]
    return conc


@spec
def plan_volumes_ok(ex, P, R, C, vmax, min_transfer):
    """one instruction per column, in column order; every transfer volume a whole number with min_transfer <= v <= vmax[column]"""
    parts = _plan_parts(ex, P, R, C, vmax)
    if parts is None:
        return False
    ins, vm = parts
    if [c for c, _, _, _ in ins] != list(range(C)):
        return False
    mt = term(min_transfer, "real")
    conj = []
    for c, _, _, vs in ins:
        for v in vs:
            k = z3.Int(ex.p.fresh_name("whole"))
            conj.append(z3.And(z3.Exists([k], v == z3.ToReal(k)), mt <= v, v <= vm[c]))
    return mk_bool(z3.And(*conj))


@spec
def plan_sources_ok(ex, P, R, C, vmax):
    """every column is prepared from the stock (0 dilution steps) or from a column prepared earlier (one step more than it)"""
    parts = _plan_parts(ex, P, R, C, vmax)
    if parts is None:
        return False
    ins, _ = parts
    steps = {}
    for c, d, src, _ in ins:
        if isinstance(c, bool) or not isinstance(c, int) or isinstance(d, bool) or not isinstance(d, int):
            return False
        if isinstance(src, str):
            if src != "stock" or d != 0:
                return False
        else:
            if isinstance(src, bool) or not isinstance(src, int) or not (0 <= src < c) or src not in steps or d != steps[src] + 1:
                return False
        steps[c] = d
    return len(steps) == C


@spec
def plan_concentrations_ok(ex, P, R, C, vmax, stock):
    """the reported concentrations x (R x C), xmin and xmax equal those implied by the instructions"""
    parts = _plan_parts(ex, P, R, C, vmax)
    if parts is None or not plan_sources_ok(ex, P, R, C, vmax):
        return False
    conc = _plan_conc(parts, stock)
    x = P.fields.get("x")
    if not isinstance(x, Arr2V) or x.rows != R or x.cols != C:
        return False
    conj = [term(x.fn(r, c), "real") == conc[c][r] for c in range(C) for r in range(R)]
    flat = [conc[c][r] for c in range(C) for r in range(R)]
    for name, le in (("xmin", lambda a, b: a <= b), ("xmax", lambda a, b: a >= b)):
        m = term(P.fields[name], "real")
        conj.append(z3.And(*[le(m, e) for e in flat]))
        conj.append(z3.Or(*[m == e for e in flat]))
    return mk_bool(z3.And(*conj))


@spec
def plan_totals_ok(ex, P, R, C, vmax):
    """v_stock = everything drawn from the stock, v_diluent = total volume minus v_stock, max_steps, R, C, N and vmax as reported"""
    parts = _plan_parts(ex, P, R, C, vmax)
    if parts is None:
        return False
    ins, vm = parts
    f = P.fields
    if f.get("R") != R or f.get("C") != C or f.get("N") != R * C:
        return False
    pv = f.get("vmax")
    if not isinstance(pv, SeqV) or not pv.is_concrete_len() or len(pv.concrete_items()) != C:
        return False
    conj = [term(a, "real") == b for a, b in zip(pv.concrete_items(), vm)]
    vstock = z3.Sum(*([z3.RealVal(0)] + [v for _, d, src, vs in ins if isinstance(src, str) for v in vs]))
    conj.append(term(f["v_stock"], "real") == vstock)
    conj.append(term(f["v_diluent"], "real") == R * z3.Sum(*vm) - vstock)
    ds = [d for _, d, _, _ in ins]
    if not ds or any(not isinstance(d, int) for d in ds) or f.get("max_steps") != max(ds):
        return False
    return mk_bool(z3.And(*conj))


# ----------------------------------------------------------------------------- WellRandomizer constructor (C15), concrete R x C


@spec
def randomizer_wf(ex, P, R, C, mode):
    """`lookup` has exactly the wells of the R x C plate as keys and maps them bijectively onto the plate, `lookup_reverse`
    is its inverse (same number of entries, every image well leads back to its original), and in row / column mode every
    well keeps its row / column"""
    from .values import MapV

    lk, rv = P.fields.get("lookup"), P.fields.get("lookup_reverse")
    if not isinstance(lk, MapV) or not isinstance(rv, MapV) or not lk.is_concrete() or not rv.is_concrete():
        return False
    if len(lk.items) != R * C or len(rv.items) != R * C:
        return False
    conj = []

    def eq(a, b):
        e = ops.equals(ex, ops.to_abstract(a), ops.to_abstract(b))
        return z3.BoolVal(e) if isinstance(e, bool) else zbool(unwrap_bool(e))

    grid = [WellV(r, c + 1) for r in range(R) for c in range(C)]
    for w in grid:
        hits = [v for k, v in lk.items if ops.equals(ex, ops.to_abstract(k), w) is True]
        if len(hits) != 1:
            return False
        v = ops.to_abstract(hits[0])
        if not isinstance(v, WellV):
            return False
        vr, vc = term(v.r, "int"), term(v.c, "int")
        conj.append(z3.And(vr >= 0, vr < R, vc >= 1, vc <= C))
        if mode == "row":
            conj.append(vr == w.r)
        if mode == "column":
            conj.append(vc == w.c)
        # the reverse map leads back: some entry has the key v, and every entry with the key v has the value w
        conj.append(z3.Or(*[eq(k2, v) for k2, _ in rv.items]))
        conj.append(z3.And(*[z3.Implies(eq(k2, v), eq(v2, w)) for k2, v2 in rv.items]))
    ks = [k for k, _ in rv.items]
    for i in range(len(ks)):
        for j in range(i):
            conj.append(z3.Not(eq(ks[i], ks[j])))
    return mk_bool(z3.And(*conj))
