"""Spec functions visible in contract expressions (symbolic side).  Each has a native twin in
pyvc/native_spec.py with the same name and meaning, used when a counterexample is replayed on the real code."""
from __future__ import annotations

import z3

from . import lib, ops
from .engine import Closure, HostFn
from .ops import mk_bool, mk_num, unwrap_bool, zbool
from .values import Arr2V, Blk, Lit, SeqV, Sym, Unsupported, WellV, num_kind, term

NS = {}


def spec(fn):
    NS[fn.__name__.rstrip("_")] = HostFn(fn, fn.__name__)
    return fn


def _call(ex, f, *args):
    return ex.call(f, list(args), {})


@spec
def forall(ex, lo, hi, f):
    empty = z3.simplify(term(hi, "int") <= term(lo, "int"))
    if z3.is_true(empty):
        return True
    i = z3.Int(ex.p.fresh_name("fa"))
    body = zbool(ex.truth(_call(ex, f, Sym(i, "int"))))
    return mk_bool(z3.ForAll([i], z3.Implies(z3.And(i >= term(lo, "int"), i < term(hi, "int")), body)))


@spec
def exists(ex, lo, hi, f):
    i = z3.Int(ex.p.fresh_name("ex"))
    body = zbool(ex.truth(_call(ex, f, Sym(i, "int"))))
    return mk_bool(z3.Exists([i], z3.And(i >= term(lo, "int"), i < term(hi, "int"), body)))


@spec
def implies(ex, a, b):
    return mk_bool(z3.Implies(zbool(ex.truth(a)), zbool(ex.truth(b))))


@spec
def iff(ex, a, b):
    return mk_bool(zbool(ex.truth(a)) == zbool(ex.truth(b)))


@spec
def ite_(ex, c, a, b):
    return ops.ite(ex, zbool(ex.truth(c)) if not isinstance(ex.truth(c), bool) else ex.truth(c), a, b)


NS["ite"] = NS.pop("ite")


@spec
def ceil_div(ex, a, b):
    """least integer k with k*b >= a (b > 0)."""
    at, bt = term(a, "real"), term(b, "real")
    k = z3.Int(ex.p.fresh_name("cdiv"))
    kr = z3.ToReal(k)
    ex.p.assume(z3.Implies(bt > 0, z3.And((kr - 1) * bt < at, at <= kr * bt)))
    return Sym(k, "int")


@spec
def floor_div(ex, a, b):
    """greatest integer k with k*b <= a (b > 0)."""
    at, bt = term(a, "real"), term(b, "real")
    k = z3.Int(ex.p.fresh_name("fdiv"))
    kr = z3.ToReal(k)
    ex.p.assume(z3.Implies(bt > 0, z3.And(kr * bt <= at, at < (kr + 1) * bt)))
    return Sym(k, "int")


@spec
def seqsum(ex, s):
    return lib.seq_sum(ex, s)


@spec
def length(ex, s):
    return lib.b_len(ex, s)


@spec
def is_int(ex, v):
    return ops.is_intlike(v) and not isinstance(v, bool)


@spec
def well(ex, r, c):
    """the well id with 0-based row index r and 1-based column number c"""
    return WellV(r if isinstance(r, int) else term(r, "int"), c if isinstance(c, int) else term(c, "int"))


@spec
def seq_of(ex, n, f):
    """the list [f(0), ..., f(n-1)]"""
    if isinstance(n, int):
        return SeqV.of("list", [_call(ex, f, i) for i in range(n)])
    return SeqV("list", [Blk(term(n, "int"), lambda i: _call(ex, f, i if isinstance(i, (int, Sym)) else Sym(i, "int")))])


@spec
def arr2(ex, rows, cols, f):
    def dim(x):
        return x if isinstance(x, int) else term(x, "int")

    def at(i, j):
        return _call(ex, f, i if isinstance(i, (int, Sym)) else Sym(i, "int"), j if isinstance(j, (int, Sym)) else Sym(j, "int"))

    return Arr2V(dim(rows), dim(cols), at)


@spec
def same(ex, a, b):
    from .contract import value_equal

    return value_equal(ex, a, b)
