"""Native twins of the spec functions (pyvc/spec.py), used when a counterexample is replayed on the real
code under the repo's interpreter.  Numbers are compared leniently (float rounding is outside the model):
a clause that is still false under lenient comparison is a confirmed violation."""
import math
from fractions import Fraction

TOL = 1e-9


def _f(x):
    if isinstance(x, Num):
        return x.v
    return x


def close(a, b):
    a, b = float(_f(a)), float(_f(b))
    if math.isnan(a) or math.isnan(b):
        return False
    if a == b:
        return True
    if math.isinf(a) or math.isinf(b):
        return False
    return abs(a - b) <= TOL * max(1.0, abs(a), abs(b))


class Num:
    """number with lenient comparison"""

    __slots__ = ("v",)

    def __init__(self, v):
        self.v = float(v) if not isinstance(v, (int, bool)) else v

    def _o(self, o):
        return _f(o)

    def __eq__(self, o):
        o = self._o(o)
        if isinstance(o, (int, float)):
            return close(self.v, o)
        return False

    def __ne__(self, o):
        return not self.__eq__(o)

    def __lt__(self, o):
        o = self._o(o)
        return self.v < o or (close(self.v, o) and self.v != o)

    def __le__(self, o):
        o = self._o(o)
        return self.v <= o or close(self.v, o)

    def __gt__(self, o):
        o = self._o(o)
        return self.v > o or (close(self.v, o) and self.v != o)

    def __ge__(self, o):
        o = self._o(o)
        return self.v >= o or close(self.v, o)

    def __hash__(self):
        return hash(self.v)

    def __add__(self, o):
        return Num(self.v + _f(o))

    __radd__ = __add__

    def __sub__(self, o):
        return Num(self.v - _f(o))

    def __rsub__(self, o):
        return Num(_f(o) - self.v)

    def __mul__(self, o):
        return Num(self.v * _f(o))

    __rmul__ = __mul__

    def __truediv__(self, o):
        return Num(self.v / _f(o))

    def __rtruediv__(self, o):
        return Num(_f(o) / self.v)

    def __neg__(self):
        return Num(-self.v)

    def __index__(self):
        return int(self.v)

    def __int__(self):
        return int(self.v)

    def __float__(self):
        return float(self.v)

    def __bool__(self):
        return bool(self.v)

    def __repr__(self):
        return f"Num({self.v!r})"


def wrap(x):
    """wrap numbers of a (nested) python / numpy value into Num; lists stay lists"""
    import numpy as np

    import enum

    if isinstance(x, enum.Enum):
        return x
    if isinstance(x, (bool, np.bool_)):
        return bool(x)
    if isinstance(x, np.integer):
        return x  # stays a numpy integer: not a Python int
    if isinstance(x, int):
        return int(x)
    if isinstance(x, (float, np.floating)):
        return Num(float(x))
    if isinstance(x, np.ndarray):
        return [wrap(e) for e in x.tolist()] if x.ndim else wrap(x.item())
    if type(x) in (list, tuple):
        return type(x)(wrap(e) for e in x)
    if type(x) is dict:
        return {k: wrap(v) for k, v in x.items()}
    if isinstance(x, np.str_):
        return str(x)
    return x


def forall(lo, hi, f):
    return all(f(i) for i in range(int(_f(lo)), int(_f(hi))))


def exists(lo, hi, f):
    return any(f(i) for i in range(int(_f(lo)), int(_f(hi))))


def implies(a, b):
    return (not a) or bool(b)


def iff(a, b):
    return bool(a) == bool(b)


def ite(c, a, b):
    return a if c else b


def ceil_div(a, b):
    q = Fraction(float(_f(a))) / Fraction(float(_f(b)))
    k = math.ceil(q)
    # lenient: a value within tolerance of an integer counts as that integer
    if close(float(q), round(float(q))):
        return CeilSet({k, int(round(float(q)))})
    return k


class CeilSet:
    """result of a ceil/floor on a value that float rounding may have pushed across an integer"""

    def __init__(self, vals):
        self.vals = set(vals)

    def __eq__(self, o):
        return _f(o) in self.vals

    def __hash__(self):
        return 0

    def __repr__(self):
        return f"CeilSet({sorted(self.vals)})"


def floor_div(a, b):
    q = Fraction(float(_f(a))) / Fraction(float(_f(b)))
    k = math.floor(q)
    if close(float(q), round(float(q))):
        return CeilSet({k, int(round(float(q)))})
    return k


def seqsum(s):
    tot = 0.0
    for x in s:
        tot += float(_f(x))
    return Num(tot)


def length(s):
    return len(s)


def is_int(v):
    return isinstance(v, int) and not isinstance(v, bool)


def is_integral(v):
    import numpy as np

    return isinstance(v, (int, np.integer)) and not isinstance(v, (bool, np.bool_))


def is_str(v):
    return isinstance(v, str)


def is_float(v):
    return isinstance(v, (float, Num)) and not isinstance(getattr(v, "v", None), int) or isinstance(v, float)


def is_none(v):
    return v is None


def is_nan(v):
    try:
        return math.isnan(float(_f(v)))
    except (TypeError, ValueError):
        return False


def valid_text(v):
    return isinstance(v, str) and ";" not in v


def valid_text32(v):
    return isinstance(v, str) and ";" not in v and len(v) <= 32


def pow2(n):
    return 2 ** int(_f(n))


def is_tip(v):
    return type(v).__name__ == "Tip"


def tip_number_ok(v):
    if is_tip(v):
        return v.value != -1
    return is_int(v) and 1 <= v <= 8


def tip_bit(v):
    return v.value if is_tip(v) else 2 ** (int(v) - 1)


def tip_of_int(n):
    from robotools.evotools.types import Tip

    return Tip(2 ** (int(n) - 1))


def is_collection(v):
    return isinstance(v, (list, tuple, set, dict)) or type(v).__name__ == "ndarray"


def tip_collection_ok(v):
    return all(tip_number_ok(x) for x in v)


def tipmask(v):
    if is_collection(v):
        m = 0
        for x in v:
            m |= tip_bit(x)
        return m
    return tip_bit(v)


def fmt_volume(v):
    import numpy as np

    return f"{np.round(float(_f(v)), decimals=2):.2f}"


def as_float(v):
    return Num(float(_f(v)))


def well(r, c):
    return f"{'ABCDEFGHIJKLMNOPQRSTUVWXYZ'[int(_f(r))]}{int(_f(c)):02d}"


def seq_of(n, f):
    return [f(i) for i in range(int(_f(n)))]


def _max(*a):
    if len(a) == 1:
        a = tuple(a[0])
    best = a[0]
    for x in a[1:]:
        if isinstance(x, CeilSet) or isinstance(best, CeilSet):
            xs = x.vals if isinstance(x, CeilSet) else {_f(x)}
            bs = best.vals if isinstance(best, CeilSet) else {_f(best)}
            best = CeilSet({max(p, q) for p in xs for q in bs})
        elif _f(x) > _f(best):
            best = x
    return best


def sorted_ints(xs):
    return sorted(xs)


def records(wl):
    return list(wl)


def printable(s):
    return not isinstance(s, str) or ("\n" not in s and "\r" not in s)


def no_sep(s):
    return ";" not in s and "\n" not in s and "\r" not in s


def fmt_int(x):
    return str(int(_f(x)))


def fmt_num(x):
    return str(_f(x))


def tip_field(tip):
    m = tipmask(tip)
    return "" if m == -1 else str(m)


def gwl_record(kind, fields):
    return ";".join([kind] + list(fields))


def strip(s):
    return s.strip()


def substr(s, lo, hi):
    return s[int(_f(lo)):int(_f(hi))]


def same(a, b):
    return a == b


def colmajor(a):
    import numpy as np

    arr = np.asarray(_unwrap(a), dtype=object) if not isinstance(a, np.ndarray) else a
    return [wrap(x) for x in arr.flatten("F").tolist()]


def _unwrap(x):
    if isinstance(x, Num):
        return x.v
    if isinstance(x, (list, tuple)):
        return type(x)(_unwrap(e) for e in x)
    return x


# ---- get_initial_composition (twins of spec.gic_rejects / spec.gic_ok)


def _gic_cells(real_wells, component_names, initial_volumes):
    wells = _unwrap(real_wells)
    vols = _unwrap(initial_volumes)
    return [(r, c, w, _f(vols[r][c]), component_names.get(w)) for r, row in enumerate(wells) for c, w in enumerate(row)]


def gic_rejects(real_wells, component_names, initial_volumes):
    cells = _gic_cells(real_wells, component_names, initial_volumes)
    known = {w for (_, _, w, _, _) in cells}
    if any(k not in known for k in component_names):
        return True
    return any(given is not None and v == 0 for (_, _, _, v, given) in cells)


def gic_ok(result, name, real_wells, component_names, initial_volumes):
    cells = _gic_cells(real_wells, component_names, initial_volumes)
    wells = _unwrap(real_wells)
    R, Cn = len(wells), len(wells[0])
    res = {k: _unwrap(v) for k, v in result.items()}
    for arr in res.values():
        if len(arr) != R or any(len(row) != Cn for row in arr):
            return False
    used_keys = set()
    for (r, c, w, v, given) in cells:
        if given is not None:
            acc = {given}
        elif R > 1:
            acc = {f"{name}.{w}"}
        elif Cn == 1:
            acc = {name}
        else:  # single-row, multi-column plates: the property does not fix the default
            acc = {name, f"{name}.{w}"}
        fr = {k: _f(arr[r][c]) for k, arr in res.items()}
        if v == 0:
            if any(f != 0 for f in fr.values()):
                return False
            continue
        ones = [k for k, f in fr.items() if f == 1]
        if len(ones) != 1 or ones[0] not in acc or any(f != 0 for k, f in fr.items() if k != ones[0]):
            return False
        used_keys.add(ones[0])
    return used_keys == set(res)


# ---- EVO script commands (twins of spec.evo_cmd / evo_sel_spec / evo_wash_cmd and the C13 predicates)


def _well_rc(w):
    w = str(w)
    return "ABCDEFGHIJKLMNOPQRSTUVWXYZ".index(w[0]), int(w[1:])


def _flat_wells(wells):
    import numpy as np

    return [str(x) for x in np.array(_unwrap(wells), dtype=object).flatten("F").tolist()] if is_collection(wells) else [str(wells)]


def evo_sel_spec(n_rows, n_columns, wells):
    """selection string by the documented EVOware rule: 2 hex digits columns, 2 hex digits rows, then the column-major
    bitmap in groups of 7 bits (least significant first), each group printed as chr(48 + value)"""
    R, Cn = int(n_rows), int(n_columns)
    sel = set(_well_rc(w) for w in _flat_wells(wells))
    bits = [1 if (k % R, k // R + 1) in sel else 0 for k in range(R * Cn)]
    out = f"{Cn:02X}{R:02X}"
    for g in range(0, len(bits), 7):
        out += chr(48 + sum(b << i for i, b in enumerate(bits[g:g + 7])))
    return out


def _fmt_round(v, dec):
    import numpy as np

    x = _f(v)
    return str(np.round(x, dec)) if not isinstance(x, int) or isinstance(x, bool) else str(x)


def evo_cmd(kind, wells, labware_position, volume, liquid_class, tips, arm, selstr):
    tl = list(tips)
    vols = list(volume) if is_collection(volume) else [volume] * len(tl)
    slots = ["0"] * 8
    for tp, v in zip(tl, vols):
        t = tip_bit(tp).bit_length() - 1
        slots[t] = '"' + _fmt_round(v, 2) + '"'
    pos = list(labware_position)
    return (f'B;{kind}({tipmask(tl)},"{liquid_class}",' + ",".join(slots) + f',0,0,0,0,{_f(pos[0])},{_f(pos[1]) - 1},1,"{selstr}",0,{_f(arm)});')


def evo_wash_cmd(tips, waste_location, cleaner_location, arm, waste_vol, waste_delay, cleaner_vol, cleaner_delay, airgap, airgap_speed,
                 retract_speed, fastwash, low_volume):
    wl, cl = list(waste_location), list(cleaner_location)
    return (f'B;Wash({tipmask(list(tips))},{_f(wl[0])},{_f(wl[1]) - 1},{_f(cl[0])},{_f(cl[1]) - 1},"{_fmt_round(waste_vol, 1)}",{_f(waste_delay)},'
            f'"{_fmt_round(cleaner_vol, 1)}",{_f(cleaner_delay)},{_f(airgap)},{_f(airgap_speed)},{_f(retract_speed)},{_f(fastwash)},{_f(low_volume)},1000,{_f(arm)});')


def well_in_grid(w, rows, cols):
    r, c = _well_rc(w)
    return 0 <= r < rows and 1 <= c <= cols


def well_col(w):
    return _well_rc(w)[1]


def strictly_ascending(xs):
    ks = [(_well_rc(x)[1], _well_rc(x)[0]) if isinstance(x, str) else tip_bit(x) for x in xs]
    return all(a < b for a, b in zip(ks, ks[1:]))


def tips_distinct(xs):
    ks = [tip_bit(x) for x in xs]
    return len(set(ks)) == len(ks)


def is_arraylike(v):
    return is_collection(v)


# ---- get_trough_component_names


def gtcn_rejects(columns, column_names, initial_volumes):
    names, vols = list(column_names), [_f(v) for v in initial_volumes]
    if len(names) != columns or len(vols) != columns:
        return True
    return any(n is not None and v == 0 for n, v in zip(names, vols))


def gtcn_ok(result, name, columns, column_names, initial_volumes):
    names, vols = list(column_names), [_f(v) for v in initial_volumes]
    if list(result.keys()) != [f"A{c + 1:02d}" for c in range(columns)]:
        return False
    for c, (given, v) in enumerate(zip(names, vols)):
        got = result[f"A{c + 1:02d}"]
        if given is not None:
            want = given
        elif v > 0:
            want = f"{name}.column_{c + 1:02d}" if columns > 1 else name
        else:
            want = None
        if got != want:
            return False
    return True


NS = {k: v for k, v in globals().items() if callable(v) and not k.startswith("_") and k not in ("wrap", "Num", "CeilSet", "Fraction")}
NS["max"] = _max
