"""Contracts (sidecar, never in /repo), body verification, loop cuts and call-site use of contracts."""
from __future__ import annotations

import ast
import copy
import os
import traceback

import z3

from . import lib, ops
from .engine import (
    BreakEx,
    ContinueEx,
    Exec,
    Frame,
    FuncV,
    HostFn,
    LoopSpec,
    Path,
    PathEnd,
    PyRaise,
    ReturnEx,
    World,
)
from .ops import mk_bool, unwrap_bool, zbool
from .values import Arr2V, Blk, EnumV, ExcV, Lit, MapV, Obj, SeqV, SetV, Sym, Unsupported, WellV, term


class Scenario:
    """One type-case of the parameters: `make(ex)` builds the (symbolic) arguments."""

    def __init__(self, name, make, requires=(), note="", concretize=None, thorough_only=False, pins=()):
        self.thorough_only = thorough_only  # explored only by the thorough tier (cost)
        self.pins = list(pins)  # [{parameter name: value}]: inputs the native (bounded) evaluation always tries
        self.name = name
        self.make = make
        self.requires = list(requires)
        self.note = note
        self.concretize = concretize  # optional: model -> native call description


class Contract:
    def __init__(self, func, serves, scenarios, raises=(), returns=None, updates=None, ensures=(), exc_ensures=(),
                 loops=None, policy=None, requires=(), note="", native=None, ghost_params=(), fresh_result=None, decreases=None, key=None, partial_ok=False):
        self.partial_ok = partial_ok  # the body leaves the deductive subset after a prefix: only the prefix is verified (rest: bounded)
        self.key = key or func
        self.decreases = decreases
        self.fresh_result = fresh_result  # 'str'|'int'|'real': non-functional contract, callers get a fresh value + ensures
        self.func = func
        self.serves = list(serves)
        self.scenarios = list(scenarios)
        self.raises = list(raises)  # [(ExcName, cond_expr)]  raise E => cond ; normal return => no cond holds
        self.returns = returns  # expression text: result == <expr>
        self.updates = dict(updates or {})  # 'self.field' -> expression text over entry state
        self.ensures = list(ensures)  # [(id, expr, [props])] at normal exits
        self.exc_ensures = list(exc_ensures)  # [(id, expr, [props])] at every raise exit
        self.loops = dict(loops or {})
        self.policy = dict(policy or {})
        self.requires = list(requires)
        self.note = note
        self.native = native  # how to call the real function in a replay
        self.ghost_params = ghost_params


class Lemma:
    """Stand-alone obligations over spec functions (no code): make(ex) yields (name, goal)."""

    def __init__(self, name, serves, make):
        self.name = name
        self.serves = list(serves)
        self.make = make


def verify_lemma(world, lem, budget_ms=2000):
    path = Path([], budget_ms)
    ex = Exec(world, path)
    r = PathResult()
    r.outcome = "lemma"
    for name, goal in lem.make(ex):
        path.check(f"{lem.name}/{name}", goal, {"kind": "lemma", "text": name})
    r.vcs = path.vcs
    r.trace = []
    return [r]


def register(world: World, ct: Contract):
    world.contracts[ct.key] = ct
    if ct.loops:
        if not hasattr(world, "loop_specs"):
            world.loop_specs = {}
        world.loop_specs[ct.func] = ct.loops
    return ct


# ----------------------------------------------------------------------------- expression evaluation


_expr_cache = {}


def parse_expr(text):
    if text not in _expr_cache:
        _expr_cache[text] = ast.parse(text.strip(), mode="eval").body
    return _expr_cache[text]


def eval_clause(ex: Exec, text, env, mi=None):
    """Evaluate a contract expression (pure: builds formulas, never forks)."""
    fr = Frame(ex, None, dict(env))
    fr.mi = mi
    fr.spec_visible = True
    ex.pure += 1
    try:
        return ex.eval(parse_expr(text), fr)
    finally:
        ex.pure -= 1


def clause_truth(ex, text, env, mi=None):
    v = eval_clause(ex, text, env, mi)
    t = ex.truth(v)
    return zbool(t)


def snapshot(v, memo=None):
    """Deep copy of containers / objects (entry state for old_...)."""
    memo = {} if memo is None else memo
    if id(v) in memo:
        return memo[id(v)]
    if isinstance(v, SeqV):
        c = SeqV(v.kind, [], v.dtype)
        memo[id(v)] = c
        segs = []
        for s in v.segs:
            if isinstance(s, Lit):
                segs.append(Lit([snapshot(x, memo) for x in s.items]))
            else:
                segs.append(Blk(s.n, s.fn))
        c.segs = segs
        return c
    if isinstance(v, Arr2V):
        c = v.copy()
        memo[id(v)] = c
        return c
    if isinstance(v, MapV):
        c = MapV(items=None if v.items is None else [(k, snapshot(x, memo)) for k, x in v.items], dom=v.dom, fn=v.fn, keyseq=v.keyseq)
        memo[id(v)] = c
        return c
    if isinstance(v, Obj):
        c = Obj(v.cls, {})
        memo[id(v)] = c
        for k, x in v.fields.items():
            c.fields[k] = x if k == "__class__" else snapshot(x, memo)
        return c
    return v


# ----------------------------------------------------------------------------- loop cut


def assigned_names(stmts):
    names = set()

    def targets(t):
        if isinstance(t, ast.Name):
            names.add(t.id)
        elif isinstance(t, (ast.Tuple, ast.List)):
            for e in t.elts:
                targets(e)

    for st in stmts:
        for node in ast.walk(st):
            if isinstance(node, ast.Assign):
                for t in node.targets:
                    targets(t)
            elif isinstance(node, (ast.AugAssign, ast.AnnAssign)):
                targets(node.target)
            elif isinstance(node, ast.For):
                targets(node.target)
            elif isinstance(node, ast.ExceptHandler) and node.name:
                names.add(node.name)
            elif isinstance(node, ast.Call) and isinstance(node.func, ast.Attribute) and isinstance(node.func.value, ast.Name):
                # in-place mutation of a local list
                if node.func.attr in ("append", "extend", "pop"):
                    names.add(node.func.value.id)
    return names


def havoc_like(ex, name, cur):
    if isinstance(cur, bool):
        return ex.p.fresh(name, "bool")
    if isinstance(cur, int) or (isinstance(cur, Sym) and cur.ty == "int"):
        return ex.p.fresh(name, "int")
    if isinstance(cur, (float, ops.FloatQ)) or (isinstance(cur, Sym) and cur.ty == "real"):
        return ex.p.fresh(name, "real")
    if isinstance(cur, Sym) and cur.ty == "bool":
        return ex.p.fresh(name, "bool")
    raise Unsupported(f"loop modifies `{name}` ({type(cur).__name__}) and the loop contract gives no definition for it")


def set_path(ex, fr, path_text, value):
    tgt = ast.parse(path_text, mode="eval").body
    ex.assign(tgt, value, fr)


def value_equal(ex, a, b):
    """Equality goal for arbitrary values (arrays / sequences elementwise)."""
    if isinstance(a, Arr2V) and isinstance(b, Arr2V):
        i, j = z3.Int(ex.p.fresh_name("ei")), z3.Int(ex.p.fresh_name("ej"))
        e = zbool(unwrap_bool(value_equal(ex, a.fn(i, j), b.fn(i, j))))
        rng = z3.And(i >= 0, i < term(a.rows, "int"), j >= 0, j < term(a.cols, "int"))
        return mk_bool(z3.And(term(a.rows, "int") == term(b.rows, "int"), term(a.cols, "int") == term(b.cols, "int"),
                              z3.ForAll([i, j], z3.Implies(rng, e))))
    if isinstance(a, SeqV) and isinstance(b, SeqV):
        return ops.seq_equal(ex, a, b)
    if isinstance(a, MapV) and isinstance(b, MapV) and not (a.is_concrete() and b.is_concrete()):
        raise Unsupported("equality of functional maps in a contract")
    return ops.equals(ex, a, b)


def cut_loop(ex: Exec, node, fr, spec: LoopSpec, n, item_at):
    p = ex.p
    where = f"{fr.func.dotted}:loop@{node.lineno}"
    mi = fr.func.mi
    kname = spec.k

    split_state = {}

    def check_all(kval, stage):
        env = dict(fr.env)
        env[kname] = kval
        for gname, gexpr in spec.ghost_defs.items():
            env[gname] = eval_clause(ex, gexpr, env, mi)
        extra = {}
        if stage == "preserve" and "split" in split_state:
            extra["split"] = split_state["split"]
        for idx, inv in enumerate(spec.invariants):
            p.check(f"{where}/inv[{idx}]-{stage}", clause_truth(ex, inv, env, mi),
                    dict({"kind": "invariant", "text": inv, "stage": stage}, **extra))
        for var, dexpr in spec.defs.items():
            cur = eval_clause(ex, var, env, mi)
            want = eval_clause(ex, dexpr, env, mi)
            p.check(f"{where}/def[{var}]-{stage}", zbool(unwrap_bool(value_equal(ex, cur, want))),
                    dict({"kind": "invariant", "text": f"{var} == {dexpr}", "stage": stage}, **extra))

    # values at loop entry, visible to the invariants as pre<ordinal>_<name>
    ordinal = fr.loop_ordinal.get(id(node))
    for var in assigned_names(node.body):
        if var in fr.env:
            cur = fr.env[var]
            if isinstance(cur, Sym) and cur.ty == "str" and not z3.is_const(cur.t):
                # name complex string terms: keeps the string reasoning of the invariants shallow
                c = p.fresh(f"pre{ordinal}_{var}", "str")
                p.assume(c.t == cur.t)
                fr.env[var] = c
                cur = c
            fr.env[f"pre{ordinal}_{var}"] = cur
    for ename, eexpr in spec.entry.items():
        fr.env[ename] = snapshot(eval_clause(ex, eexpr, fr.env, mi))
    # 1. establishment
    check_all(0, "entry")
    # 2. arbitrary iteration
    choice = p.choose(2, f"loopcut@{node.lineno}")
    kk = p.fresh(kname, "int")
    p.assume(kk.t >= 0)
    nt = term(n, "int")
    p.assume(kk.t <= nt)
    modified = assigned_names(node.body) | assigned_names([ast.Assign(targets=[node.target], value=ast.Constant(0))])
    fr.env[kname] = kk
    env = fr.env
    for gname, gexpr in spec.ghost_defs.items():
        env[gname] = eval_clause(ex, gexpr, env, mi)
    defs_done = set()
    # definitions first (they may depend on un-modified variables and k only)
    for var, dexpr in spec.defs.items():
        val = eval_clause(ex, dexpr, env, mi)
        set_path(ex, fr, var, val)
        defs_done.add(var)
    for var in sorted(modified):
        if var in defs_done or var == kname:
            continue
        if var in env:
            if var in spec.havoc_types:
                env[var] = p.fresh(var, spec.havoc_types[var])
            else:
                try:
                    env[var] = havoc_like(ex, var, env[var])
                except Unsupported:
                    # a temporary that is re-assigned before use in every iteration: drop it
                    if var in spec.modifies or _live_in(node, var):
                        raise
                    del env[var]
    for extra in spec.modifies:
        if extra not in defs_done:
            raise Unsupported(f"loop modifies {extra} without a definition in the loop contract")
    for idx, inv in enumerate(spec.invariants):
        p.assume(clause_truth(ex, inv, env, mi))
    if choice == 0:
        p.assume(kk.t < nt)
        p.ghost.setdefault("loop_k", []).append(kk)
        ex.assign(node.target, item_at(kk), fr)
        if spec.split is not None:
            sv = eval_clause(ex, spec.split[0], fr.env, mi)
            split_state["split"] = (term(sv, "int"), list(spec.split[1]))
        for idx, a in enumerate(spec.asserts):
            g = clause_truth(ex, a, fr.env, mi)
            p.check(f"{where}/assert[{idx}]", g, {"kind": "invariant", "text": a, "stage": "body-assert"})
            p.assume(g)
        try:
            ex.exec_block(node.body, fr)
        except ContinueEx:
            pass
        except BreakEx:
            raise Unsupported("break inside a cut loop")
        check_all(ops.mk_num(kk.t + 1, "int"), "preserve")
        raise PathEnd("loop body verified")
    p.assume(kk.t == nt)
    for idx, a in enumerate(spec.exit_asserts):
        g = clause_truth(ex, a, fr.env, mi)
        p.check(f"{where}/exit-assert[{idx}]", g, {"kind": "invariant", "text": a, "stage": "exit-assert"})
        p.assume(g)
    if node.orelse:
        ex.exec_block(node.orelse, fr)


def _live_in(node, var):
    """Is `var` read in the loop body before being assigned?  (conservative syntactic check)"""
    for st in node.body:
        reads = {n.id for n in ast.walk(st) if isinstance(n, ast.Name) and isinstance(n.ctx, ast.Load)}
        writes = assigned_names([st])
        if var in reads:
            # read in the same statement that assigns it (x = f(x)) counts as live
            return True
        if var in writes:
            return False
    return False


# ----------------------------------------------------------------------------- call-site use


def apply_contract(ex: Exec, ct: Contract, fv: FuncV, env):
    """Replace a call by the callee's contract (raises cascade, updates, returns)."""
    mi = fv.mi
    cenv = dict(env)
    for k, v in list(env.items()):
        if isinstance(v, Obj):
            cenv["old_" + k] = snapshot(v)
    for idx, req in enumerate(ct.requires):
        ex.p.check(f"call[{ct.func}]/requires[{idx}]", clause_truth(ex, req, cenv, mi), {"kind": "callsite-pre", "text": req})
    if ct.decreases is not None and getattr(ex, "verifying", None) == ct.func:
        m = eval_clause(ex, ct.decreases, cenv, mi)
        ex.p.check(f"call[{ct.func}]/decreases", z3.And(term(m, "int") >= 0, term(m, "int") < term(ex.measure_entry, "int")),
                   {"kind": "termination", "text": f"recursive call decreases {ct.decreases}"})
    for exc, cond in ct.raises:
        c = eval_clause(ex, cond, cenv, mi)
        t = ex.truth(c)
        if isinstance(t, bool):
            if t:
                raise PyRaise(ExcV(exc))
        elif ex.p.branch(t, f"contract-raise[{exc}]"):
            raise PyRaise(ExcV(exc))
    fr = Frame(ex, fv, cenv)
    newvals = [(target, eval_clause(ex, expr, cenv, mi)) for target, expr in ct.updates.items()]  # simultaneous: all over the pre-state
    for target, val in newvals:
        set_path(ex, fr, target, val)
    ex.events.append(("call", ct.func))
    if ct.returns is not None:
        return eval_clause(ex, ct.returns, cenv, mi)
    if ct.fresh_result is not None:
        res = ex.p.fresh("res_" + ct.func.split(".")[-1], ct.fresh_result)
        cenv["result"] = res
        for cid, expr, props in ct.ensures:
            ex.p.assume(clause_truth(ex, expr, cenv, mi))
        return res
    return None


# ----------------------------------------------------------------------------- body verification


class PathResult:
    def __init__(self):
        self.outcome = None  # 'return' | 'raise:<E>' | 'cut' | 'unsupported' | 'infeasible'
        self.vcs = []
        self.detail = ""
        self.trace = []


SHARD_DEPTH = 22


def _bucket(dec, nshards):
    """which shard owns the paths whose first SHARD_DEPTH decisions are dec[:SHARD_DEPTH]"""
    import zlib

    return zlib.crc32(bytes(int(d) & 0xFF for d in dec[:SHARD_DEPTH])) % nshards


def verify_scenario(world: World, ct: Contract, sc: Scenario, budget_ms=1500, max_paths=4000, shard=0, nshards=1):
    """Symbolically execute the real body under one scenario; returns list[PathResult].
    With nshards > 1 the path tree is split by the first SHARD_DEPTH decisions: every shard walks the (small) top of the
    tree, and below it only the sub-trees it owns, so the union over the shards is exactly the set of all paths."""
    fv = world.funcv(ct.func)
    results = []
    stack = [[]]
    npaths = 0
    while stack:
        dec = stack.pop()
        if nshards > 1 and len(dec) >= SHARD_DEPTH and _bucket(dec, nshards) != shard:
            continue
        npaths += 1
        if npaths > max_paths:
            r = PathResult()
            r.outcome = "unsupported"
            r.detail = f"more than {max_paths} paths"
            results.append(r)
            break
        path = Path(dec, budget_ms)
        ex = Exec(world, path)
        ex.call_policy = dict(ct.policy)
        ex.loop_specs = getattr(world, "loop_specs", {})
        r = PathResult()
        try:
            env = sc.make(ex)
            ghost = {k: env[k] for k in list(env) if k.startswith("ghost_")}  # ghosts stay visible to loop invariants
            cenv = dict(env)
            cenv.update(ghost)
            for k, v in list(env.items()):
                if isinstance(v, (Obj, SeqV, Arr2V, MapV)):
                    cenv["old_" + k] = snapshot(v)
                    cenv["live_" + k] = v  # the caller's object itself (for aliasing clauses)
                    if not isinstance(v, Obj):
                        cenv[k] = cenv["old_" + k]
            for req in list(ct.requires) + list(sc.requires):
                path.assume(clause_truth(ex, req, cenv, fv.mi))
            if not path.feasible():
                raise PathEnd("requires unsatisfiable")
            ex.verifying = ct.func
            if ct.decreases is not None:
                ex.measure_entry = eval_clause(ex, ct.decreases, cenv, fv.mi)
            raised = None
            try:
                a = fv.node.args
                special = {n.arg for n in (a.kwarg, a.vararg) if n is not None}
                fenv = ex.bind_args(fv, [], {k: v for k, v in env.items() if not k.startswith("ghost_") and k not in special})  # fills defaults
                for k in special:
                    if k in env:
                        fenv[k] = env[k]
                fenv.update(ghost)
                fenv.update({k: v for k, v in cenv.items() if k.startswith("old_")})  # entry snapshots for loop invariants
                for k, v in fenv.items():
                    cenv.setdefault(k, v)
                result = ex.run_body(fv, fenv)
            except PyRaise as pr:
                raised = pr
            renv = dict(cenv)  # raise conditions speak about the entry state
            for k, v in list(env.items()):
                if isinstance(v, Obj):
                    renv[k] = cenv["old_" + k]
            if raised is None:
                r.outcome = "return"
                cenv["result"] = result
                for exc, cond in ct.raises:
                    if cond is None:
                        continue  # merely an allowed outcome
                    path.check(f"{ct.func}/no-raise[{exc}]", z3.Not(clause_truth(ex, cond, renv, fv.mi)),
                               {"kind": "raises-complete", "text": f"normal return implies not ({cond})", "exc": exc})
                for cid, expr, props in ct.ensures:
                    path.check(f"{ct.func}/ensures[{cid}]", clause_truth(ex, expr, cenv, fv.mi),
                               {"kind": "ensures", "text": expr, "props": props})
                if ct.returns is not None:
                    want = eval_clause(ex, ct.returns, cenv, fv.mi)
                    path.check(f"{ct.func}/returns", zbool(unwrap_bool(value_equal(ex, result, want))),
                               {"kind": "ensures", "text": f"result == {ct.returns}"})
                for target, expr in ct.updates.items():
                    cur = eval_clause(ex, target, cenv, fv.mi)
                    want = eval_clause(ex, expr, renv, fv.mi)  # update expressions speak about the entry state
                    path.check(f"{ct.func}/update[{target}]", zbool(unwrap_bool(value_equal(ex, cur, want))),
                               {"kind": "ensures", "text": f"{target} == {expr}"})
            else:
                pr = raised
                r.outcome = f"raise:{pr.exc.cls}"
                cenv["raised"] = pr.exc.cls
                conds = [c for e, c in ct.raises if ex.exc_is_subclass(pr.exc.cls, e) or e == pr.exc.cls]
                if not conds:
                    path.check(f"{ct.func}/unexpected-exception[{pr.exc.cls}]", z3.BoolVal(False),
                               {"kind": "raises", "text": f"{pr.exc.cls} is not an allowed outcome"})
                else:
                    goal = z3.BoolVal(True) if any(c is None for c in conds) else z3.Or(*[clause_truth(ex, c, renv, fv.mi) for c in conds])
                    path.check(f"{ct.func}/raises[{pr.exc.cls}]", goal,
                               {"kind": "raises", "text": f"raise {pr.exc.cls} implies ({' or '.join(str(c) for c in conds)})"})
                for cid, expr, props in ct.exc_ensures:
                    path.check(f"{ct.func}/exc-ensures[{cid}]", clause_truth(ex, expr, cenv, fv.mi),
                               {"kind": "exc-ensures", "text": expr, "props": props})
            if not path.feasible():
                r.outcome = "infeasible"
        except PathEnd as pe:
            r.outcome = "cut" if "loop body" in pe.why else "infeasible"
            r.detail = pe.why
        except Unsupported as u:
            r.outcome = "unsupported"
            r.detail = str(u)
            if ct.partial_ok:
                # prefix completeness: where the verifier's reach ends, none of the prefix rejection conditions holds
                try:
                    r.outcome = "beyond-reach"
                    for exc, cond in ct.raises:
                        if cond is not None:
                            path.check(f"{ct.func}/prefix-complete[{exc}]", z3.Not(clause_truth(ex, cond, cenv, fv.mi)),
                                       {"kind": "raises-complete", "text": f"past the verified prefix implies not ({cond})"})
                except (Unsupported, PyRaise) as u2:
                    r.outcome = "unsupported"
                    r.detail = f"{u}; and prefix condition not evaluable: {u2}"
        except PyRaise as pr:  # raised while building arguments / evaluating clauses
            r.outcome = "unsupported"
            r.detail = f"exception {pr.exc.cls} outside the function body (contract evaluation)"
            if os.environ.get("PYVC_DEBUG"):
                traceback.print_exc()
        except z3.Z3Exception as ze:
            r.outcome = "unsupported"
            r.detail = f"z3 error: {ze}"
            if os.environ.get("PYVC_DEBUG"):
                traceback.print_exc()
        except RecursionError:
            r.outcome = "unsupported"
            r.detail = "host recursion limit"
        r.vcs = path.vcs if r.outcome not in ("infeasible",) or r.detail != "requires unsatisfiable" else []
        r.trace = path.trace
        r.pc = path.pc
        if nshards == 1 or _bucket(path.dec, nshards) == shard:
            results.append(r)
        stack.extend(path.alts)
    return results
